//! Shared by C05..C08 (and C13/C19): message specs, the real lifecycle detector run with observation of
//! every delivery, generators (general and clean-boot traces), Coq rendering.
use crate::*;
use adlt::dlt::{DltChar4, DltExtendedHeader, DltMessage, DltStandardHeader};
use adlt::lifecycle::{Lifecycle, LifecycleId, LifecycleItem};
use std::sync::mpsc::channel;

/// kind: 0 plain (no ext header), 1 control request, 2 control response (non-verbose, 5-byte payload),
/// 3 verbose control response whose first argument is a 1-byte bool (the short-argument witness),
/// >= 4: control response number kind-4 of `ctrl_table()` (verbose / non-verbose, both byte orders, the payload shapes the
/// lifecycle code looks into).  Only the generators of the lifecycle group's own families produce kinds >= 4.
#[derive(Clone, Debug, PartialEq)]
pub struct MSpec {
    pub ecu: u8,
    pub rt: u64,
    pub ts_dms: u32,
    pub has_ts: bool,
    pub kind: u8,
}

impl MSpec {
    pub fn json(&self) -> Value {
        json!([self.ecu, self.rt, self.ts_dms, self.has_ts, self.kind])
    }
    pub fn from_json(v: &Value) -> MSpec {
        MSpec { ecu: v[0].as_u64().unwrap() as u8, rt: v[1].as_u64().unwrap(), ts_dms: v[2].as_u64().unwrap() as u32,
                has_ts: v[3].as_bool().unwrap(), kind: v[4].as_u64().unwrap() as u8 }
    }
    /// Coq: (ecu, rt, ts_us, has_ts, creq)
    pub fn coq(&self) -> String {
        format!("({}, {}, {}, {}, {})", self.ecu, self.rt, self.ts_dms as u64 * 100, cbool(self.has_ts), cbool(self.kind == 1))
    }
    pub fn build(&self, index: u32) -> DltMessage {
        let mut htyp = 0x20u8;
        if self.has_ts {
            htyp |= 0x10;
        }
        let (ext, payload): (Option<DltExtendedHeader>, Vec<u8>) = match self.kind {
            0 => (None, vec![]),
            1 => (Some(DltExtendedHeader { verb_mstp_mtin: (3 << 1) | (1 << 4), noar: 1, apid: DltChar4::from_buf(b"APID"), ctid: DltChar4::from_buf(b"CTID") }), vec![0x13, 0, 0, 0]),
            2 => (Some(DltExtendedHeader { verb_mstp_mtin: (3 << 1) | (2 << 4), noar: 1, apid: DltChar4::from_buf(b"APID"), ctid: DltChar4::from_buf(b"CTID") }), vec![0x13, 0, 0, 0, 0]),
            3 => (Some(DltExtendedHeader { verb_mstp_mtin: 1 | (3 << 1) | (2 << 4), noar: 1, apid: DltChar4::from_buf(b"APID"), ctid: DltChar4::from_buf(b"CTID") }), vec![0x11, 0, 0, 0, 1]),
            k => {
                let sh = ctrl_shape(k).unwrap_or_else(|| panic!("MSpec kind {} is not in ctrl_table()", k));
                if sh.big_endian {
                    htyp |= 0x02;
                }
                (Some(DltExtendedHeader { verb_mstp_mtin: (sh.verbose as u8) | (3 << 1) | (2 << 4), noar: sh.noar, apid: DltChar4::from_buf(b"APID"), ctid: DltChar4::from_buf(b"CTID") }), sh.payload.clone())
            }
        };
        if ext.is_some() {
            htyp |= 1;
        }
        DltMessage {
            index,
            reception_time_us: self.rt,
            ecu: dltgen::ecu(self.ecu),
            timestamp_dms: self.ts_dms,
            standard_header: DltStandardHeader { htyp, len: 0, mcnt: (index & 0xff) as u8 },
            extended_header: ext,
            payload,
            payload_text: None,
            lifecycle: 0,
        }
    }
}

// ------------------------------------------------------------------ control responses whose payload the lifecycle code looks into
/// `Lifecycle::update` inspects the payload of a control RESPONSE that it judges part of the current lifecycle while that
/// lifecycle has no sw version yet: first argument -> service id (4 bytes in the byte order of the message), for the id 19
/// (GET_SOFTWARE_VERSION) the second argument -> status byte, 4-byte length, text.  The arguments are whatever
/// `DltMessageArgIterator` delivers: non-verbose: bytes 0..4 and the rest if there is one; verbose: typed arguments, `None` for a
/// missing / truncated / unsupported one, an empty slice for a raw or string argument of length 0.
#[derive(Clone, Debug)]
pub struct CtrlShape {
    pub verbose: bool,
    pub big_endian: bool,
    pub noar: u8,
    pub payload: Vec<u8>,
    pub class: &'static str,
}
pub const SID_SWV: u32 = 19; // adlt::dlt::SERVICE_ID_GET_SOFTWARE_VERSION
const TI_BOOL: u32 = 0x10;
const TI_UINT: u32 = 0x40;
const TI_FLOA: u32 = 0x80;
const TI_ARAY: u32 = 0x100;
const TI_STRG: u32 = 0x200;
const TI_RAWD: u32 = 0x400;
const TI_VARI: u32 = 0x800;
const TI_FIXP: u32 = 0x1000;
fn b32(v: u32, be: bool) -> Vec<u8> {
    if be { v.to_be_bytes().to_vec() } else { v.to_le_bytes().to_vec() }
}
fn b16(v: u16, be: bool) -> Vec<u8> {
    if be { v.to_be_bytes().to_vec() } else { v.to_le_bytes().to_vec() }
}
fn cat(parts: &[&[u8]]) -> Vec<u8> {
    parts.iter().flat_map(|p| p.iter().cloned()).collect()
}
/// the data of a GET_SOFTWARE_VERSION response behind the service id: status, length field, text
pub fn swv_data(status: u8, len_field: u32, text: &[u8], be: bool) -> Vec<u8> {
    cat(&[&[status], &b32(len_field, be), text])
}
/// verbose argument with a fixed-size value: type info + value bytes
fn v_fixed(ti: u32, val: &[u8], be: bool) -> Vec<u8> {
    cat(&[&b32(ti, be), val])
}
/// verbose raw / string argument: type info + 16 bit length + data (the length field may lie)
fn v_sized(ti: u32, len_field: u16, data: &[u8], be: bool) -> Vec<u8> {
    cat(&[&b32(ti, be), &b16(len_field, be), data])
}
fn build_ctrl_table() -> Vec<CtrlShape> {
    let mut t: Vec<CtrlShape> = vec![];
    let text: &[u8] = b"SW1";
    // ---- non-verbose: payload = service id (4) ++ data
    for be in [false, true] {
        let mut nv = |payload: Vec<u8>, class: &'static str| t.push(CtrlShape { verbose: false, big_endian: be, noar: 1, payload, class });
        let sid = b32(SID_SWV, be);
        let full = cat(&[&sid, &swv_data(0, 3, text, be)]); // 12 bytes, well-formed
        for n in 0..=full.len() {
            nv(full[..n].to_vec(), match n { 0..=3 => "nv_id_truncated", 4 => "nv_swv_no_arg2", 5..=8 => "nv_swv_arg2_short", 9..=11 => "nv_swv_len_beyond", _ => "nv_swv_wellformed" });
        }
        nv(cat(&[&sid, &swv_data(0, 0, b"", be)]), "nv_swv_wellformed");
        nv(cat(&[&sid, &swv_data(0, 2, text, be)]), "nv_swv_wellformed");
        nv(cat(&[&sid, &swv_data(0, 4, text, be)]), "nv_swv_len_beyond");
        nv(cat(&[&sid, &swv_data(0, u32::MAX, text, be)]), "nv_swv_len_beyond");
        nv(cat(&[&sid, &[1u8]]), "nv_swv_arg2_short");
        nv(cat(&[&sid, &swv_data(0, 20, b"version 1.2.3 build 7", be)[..25]]), "nv_swv_wellformed");
        nv(cat(&[&b32(SID_SWV, !be), &swv_data(0, 3, text, be)]), "nv_other_sid");
        for other in [18u32, 20, 3, 0] {
            nv(b32(other, be), "nv_other_sid_no_arg2");
        }
        nv(cat(&[&b32(3, be), &[7u8]]), "nv_other_sid");
    }
    // ---- verbose: payload = typed arguments
    for be in [false, true] {
        let mut v = |noar: u8, payload: Vec<u8>, class: &'static str| t.push(CtrlShape { verbose: true, big_endian: be, noar, payload, class });
        let id32 = v_fixed(TI_UINT | 3, &b32(SID_SWV, be), be);
        let data = swv_data(0, 3, text, be); // 8 bytes
        v(1, id32.clone(), "v_swv_no_arg2");
        for n in 1..=3usize {
            v(2, cat(&[&id32, &b32(TI_RAWD, be)[..n]]), "v_swv_arg2_none");
        }
        for k in 0..=9usize {
            let mut d = data.clone();
            d.push(0);
            v(2, cat(&[&id32, &v_sized(TI_RAWD, k as u16, &d[..k], be)]), match k { 0 => "v_swv_arg2_empty", 1..=4 => "v_swv_arg2_short", 5..=7 => "v_swv_len_beyond", _ => "v_swv_wellformed" });
        }
        v(2, cat(&[&id32, &v_sized(TI_STRG, 0, b"", be)]), "v_swv_arg2_empty");
        v(2, cat(&[&id32, &v_sized(TI_STRG, 8, &data, be)]), "v_swv_wellformed");
        v(2, cat(&[&id32, &b32(TI_RAWD, be), &[8u8]]), "v_swv_arg2_none"); // length field incomplete
        v(2, cat(&[&id32, &v_sized(TI_RAWD, 8, &data[..3], be)]), "v_swv_arg2_none"); // data shorter than the length field says
        v(2, cat(&[&id32, &v_fixed(TI_UINT | 1, &[0], be)]), "v_swv_arg2_short");
        v(2, cat(&[&id32, &v_fixed(TI_UINT | 3, &[0, 3, 0, 0], be)]), "v_swv_arg2_short");
        v(2, cat(&[&id32, &v_fixed(TI_UINT | 4, &data, be)]), "v_swv_wellformed");
        v(2, cat(&[&id32, &v_fixed(TI_FLOA | 3, &[0, 0, 0, 0], be)]), "v_swv_arg2_short");
        v(2, cat(&[&id32, &v_fixed(TI_BOOL, &[1], be)]), "v_swv_arg2_short"); // bool with tyle 0 (dlt-viewer)
        v(2, cat(&[&id32, &v_fixed(TI_UINT, &[0, 0, 0, 0, 0], be)]), "v_swv_arg2_none"); // uint with tyle 0
        v(2, cat(&[&id32, &v_fixed(TI_UINT | 3 | TI_VARI, &data, be)]), "v_swv_arg2_none");
        v(2, cat(&[&id32, &v_fixed(TI_UINT | 3 | TI_FIXP, &data, be)]), "v_swv_arg2_none");
        v(2, cat(&[&id32, &v_fixed(TI_ARAY, &data, be)]), "v_swv_arg2_none");
        // the service id as a raw / string / 64 bit first argument
        let idraw = v_sized(TI_RAWD, 4, &b32(SID_SWV, be), be);
        v(1, idraw.clone(), "v_swv_no_arg2");
        v(2, cat(&[&idraw, &v_sized(TI_RAWD, 0, b"", be)]), "v_swv_arg2_empty");
        v(2, cat(&[&idraw, &v_sized(TI_RAWD, 8, &data, be)]), "v_swv_wellformed");
        v(2, cat(&[&idraw, &v_sized(TI_STRG, 0, b"", be)]), "v_swv_arg2_empty");
        v(2, cat(&[&idraw, &v_fixed(TI_UINT | 1, &[0], be)]), "v_swv_arg2_short");
        v(1, v_sized(TI_STRG, 4, &b32(SID_SWV, be), be), "v_swv_no_arg2");
        v(1, v_fixed(TI_UINT | 4, &cat(&[&b32(SID_SWV, be), &[0u8; 4]]), be), "v_swv_no_arg2");
        // first argument missing / too short to carry a service id / unsupported
        v(0, vec![], "v_id_missing");
        for n in 1..=3usize {
            v(1, id32[..n].to_vec(), "v_id_missing");
        }
        v(2, cat(&[&v_fixed(TI_UINT | 2, &b16(SID_SWV as u16, be), be), &v_sized(TI_RAWD, 0, b"", be)]), "v_id_short");
        v(1, v_fixed(TI_BOOL | 1, &[1], be), "v_id_short");
        v(1, v_sized(TI_RAWD, 0, b"", be), "v_id_short");
        v(1, v_sized(TI_RAWD, 3, &b32(SID_SWV, be)[..3], be), "v_id_short");
        v(1, v_fixed(TI_UINT | 3 | TI_VARI, &b32(SID_SWV, be), be), "v_id_missing");
        // other service ids
        for other in [18u32, 20, 3] {
            v(1, v_fixed(TI_UINT | 3, &b32(other, be), be), "v_other_sid");
        }
        v(1, v_fixed(TI_UINT | 3, &b32(SID_SWV, !be), be), "v_other_sid");
    }
    t
}
pub fn ctrl_table() -> &'static Vec<CtrlShape> {
    static T: std::sync::OnceLock<Vec<CtrlShape>> = std::sync::OnceLock::new();
    T.get_or_init(build_ctrl_table)
}
pub const KIND_CTRL_BASE: u8 = 4;
pub fn ctrl_shape(kind: u8) -> Option<&'static CtrlShape> {
    if kind < KIND_CTRL_BASE { None } else { ctrl_table().get((kind - KIND_CTRL_BASE) as usize) }
}
pub fn ctrl_kinds() -> std::ops::Range<u8> {
    KIND_CTRL_BASE..(KIND_CTRL_BASE + ctrl_table().len() as u8)
}
/// kinds of a class (prefix match on the class name without the nv_/v_ prefix)
pub fn ctrl_kinds_of(pred: impl Fn(&CtrlShape) -> bool) -> Vec<u8> {
    ctrl_kinds().filter(|k| pred(ctrl_shape(*k).unwrap())).collect()
}
/// What the real argument iterator delivers for the first two arguments of the message: (payload_raw, is_big_endian)
pub type ArgObs = Option<(Vec<u8>, bool)>;
pub fn first_two_args(m: &DltMessage) -> (ArgObs, ArgObs) {
    let mut it = m.into_iter();
    let a1 = it.next().map(|a| (a.payload_raw.to_vec(), a.is_big_endian));
    let a2 = it.next().map(|a| (a.payload_raw.to_vec(), a.is_big_endian));
    (a1, a2)
}
/// service id the lifecycle code reads from the first argument (0: none)
pub fn service_id_of(a1: &ArgObs) -> u32 {
    match a1 {
        Some((p, be)) if p.len() >= 4 => {
            let b: [u8; 4] = [p[0], p[1], p[2], p[3]];
            if *be { u32::from_be_bytes(b) } else { u32::from_le_bytes(b) }
        }
        _ => 0,
    }
}
/// classification of a control response by what the sw-version block of `Lifecycle::update` will find (derived with the real
/// argument iterator, not from the table's labels)
pub fn ctrl_tags_of(s: &MSpec) -> Vec<&'static str> {
    if s.kind < 2 {
        return vec![];
    }
    let m = s.build(0);
    let (a1, a2) = first_two_args(&m);
    let mut t = vec!["ctrl_response"];
    t.push(if m.is_verbose() { "ctrl_verbose" } else { "ctrl_nonverbose" });
    t.push(if m.is_big_endian() { "ctrl_big_endian" } else { "ctrl_little_endian" });
    if service_id_of(&a1) == SID_SWV {
        t.push(match &a2 {
            None => "swv_arg2_none",
            Some((p, _)) => match p.len() { 0 => "swv_arg2_empty", 1..=4 => "swv_arg2_len1-4", 5..=8 => "swv_arg2_len5-8", _ => "swv_arg2_len>=9" },
        });
    } else {
        t.push(if a1.is_none() { "ctrl_arg1_none" } else if service_id_of(&a1) == 0 { "ctrl_sid0_or_short_arg1" } else { "ctrl_other_sid" });
    }
    t
}

#[derive(Clone, Debug)]
pub struct Delivery {
    pub index: u32,     // position of the message in the input (derived from the raw index and the case's index scheme)
    pub raw_index: u32, // the index field the delivered message carries
    pub ecu: u8,
    pub rt: u64,
    pub ts_dms: u32,
    pub lc: u32,        // rank (id - base)
    pub pub_same: bool, // lifecycle visible with the message's ECU, looked up inside the outflow closure
    pub pub_other: bool, // same lookup done by another thread before the closure returns
    pub intact: bool,
    pub snap: Vec<SnapRow>, // the whole published table as a reader sees it inside the outflow closure
}
/// one key of the published table as a reader sees it: number of values in its bag and, of the first value, the per-refresh
/// index (`lcs_w_refresh_idx`) and a fingerprint of the content a follower of the table would transmit
#[derive(Clone, Debug, PartialEq)]
pub struct SnapRow {
    pub id: u32, // rank
    pub bag_len: usize,
    pub refresh_idx: u32,
    pub content: (u8, u32, u64, u64, bool, u32, Option<String>), // ecu, nr_msgs, start, end, is_resume, origin rank, sw version
}
pub fn snapshot<M, S>(a: &evmap::MapReadRef<LifecycleId, LifecycleItem, M, S>, base: u32) -> Vec<SnapRow>
where
    S: std::hash::BuildHasher + Clone,
    M: 'static + Clone,
{
    let mut v: Vec<SnapRow> = a
        .iter()
        .map(|(id, b)| match b.get_one() {
            Some(lc) => SnapRow {
                id: id.wrapping_sub(base),
                bag_len: b.len(),
                refresh_idx: lc.lcs_w_refresh_idx,
                content: (ecu_no(&lc.ecu), lc.nr_msgs, lc.start_time, if lc.nr_msgs == 0 { 0 } else { lc.end_time() }, lc.is_resume(),
                          lc.verif_resume_origin_id().map(|i| i.wrapping_sub(base)).unwrap_or(0), lc.sw_version.clone()),
            },
            None => SnapRow { id: id.wrapping_sub(base), bag_len: 0, refresh_idx: 0, content: (0, 0, 0, 0, false, 0, None) },
        })
        .collect();
    v.sort_by_key(|r| r.id);
    v
}
#[derive(Clone, Debug)]
pub struct LcRow {
    pub id: u32, // rank
    pub bag_len: usize, // number of values the key has in the published table (1 for every entry the detector publishes)
    pub sw_version: Option<String>,
    pub ecu: u8,
    pub nr_msgs: u32,
    pub start: u64,
    pub end: u64,
    pub is_resume: bool,
    pub origin: u32, // rank of the resumed lifecycle or 0
}
pub struct LcRun {
    pub deliveries: Vec<Delivery>,
    pub table: Vec<LcRow>,            // sorted by id
    pub listing: Result<Vec<u32>, String>, // get_sorted_lifecycles_as_vec (ranks) or panic text
    pub panic: Option<String>,
    pub stage_died: bool, // the panic came out of parse_lifecycles_buffered_from_stream itself (deliveries = what it forwarded before)
    pub final_snap: Vec<SnapRow>,
    pub base: u32,
}

fn ecu_no(e: &DltChar4) -> u8 {
    let b = e.as_buf();
    (b[2].wrapping_sub(b'0')).wrapping_mul(10).wrapping_add(b[3].wrapping_sub(b'0'))
}

/// runs `pre` then `msgs` through the real detector (the second run re-uses the write handle of the first,
/// i.e. starts from a pre-populated table).  `other_thread`: also look every delivery up from a second thread.
/// index scheme of a case: message k of a run carries index base + k*stride (the periodic refresh of the detector is
/// driven by message indices: strides > 1 reach it with short traces)
pub type Scheme = (u32, u32);
pub fn run_detector(pre: &[MSpec], msgs: &[MSpec], other_thread: bool) -> LcRun {
    run_detector_s(pre, msgs, other_thread, (0, 1))
}
pub fn run_detector_s(pre: &[MSpec], msgs: &[MSpec], other_thread: bool, scheme: Scheme) -> LcRun {
    let (ibase, istride) = scheme;
    let idx = move |i: usize| ibase + (i as u32) * istride;
    let pos_of = move |index: u32| -> usize {
        if index >= ibase && istride > 0 && (index - ibase) % istride == 0 { ((index - ibase) / istride) as usize } else { usize::MAX }
    };
    // base id: ids are global; we are the only creator of lifecycles in this process right now
    let base = {
        let mut m = MSpec { ecu: 99, rt: 1, ts_dms: 0, has_ts: true, kind: 0 }.build(0);
        Lifecycle::new(&mut m).id()
    };
    let pre = pre.to_vec();
    let msgs = msgs.to_vec();
    // what the stage forwarded, kept outside the stage's own unwind boundary: when the stage dies the deliveries made before
    // are still known
    let deliveries = std::sync::Arc::new(std::sync::Mutex::new(Vec::<Delivery>::new()));
    let deliveries_in = deliveries.clone();
    let r = catch_loc(move || {
        let deliveries = deliveries_in;
        let (lcs_r, mut lcs_w) = evmap::new::<LifecycleId, LifecycleItem>();
        if !pre.is_empty() {
            let (tx, rx) = channel();
            for (i, s) in pre.iter().enumerate() {
                tx.send(s.build(idx(i))).unwrap();
            }
            drop(tx);
            lcs_w = adlt::lifecycle::parse_lifecycles_buffered_from_stream(lcs_w, rx, &|_m| Ok(()));
        }
        let (tx, rx) = channel();
        for (i, s) in msgs.iter().enumerate() {
            tx.send(s.build(idx(i))).unwrap();
        }
        drop(tx);
        // reader thread
        let (qtx, qrx) = channel::<(u32, DltChar4)>();
        let (atx, arx) = channel::<bool>();
        let reader = if other_thread {
            let lr = lcs_r.clone();
            Some(std::thread::spawn(move || {
                for (id, ecu) in qrx {
                    let ok = lr.get_one(&id).map(|l| l.ecu == ecu).unwrap_or(false);
                    if atx.send(ok).is_err() {
                        break;
                    }
                }
            }))
        } else {
            None
        };
        let msgs2 = msgs.clone();
        // the stage itself, behind its own unwind boundary: a panic inside parse_lifecycles_buffered_from_stream (the lifecycle
        // thread of the pipelines dying) is reported as such, with the location
        let stage = catch_loc(std::panic::AssertUnwindSafe(|| adlt::lifecycle::parse_lifecycles_buffered_from_stream(lcs_w, rx, &|m: DltMessage| {
            let pub_same = lcs_r.get_one(&m.lifecycle).map(|l| l.ecu == m.ecu).unwrap_or(false);
            let pub_other = if other_thread {
                qtx.send((m.lifecycle, m.ecu)).unwrap();
                arx.recv().unwrap()
            } else {
                pub_same
            };
            let snap = lcs_r.read().map(|a| snapshot(&a, base)).unwrap_or_default();
            let pos = pos_of(m.index);
            let intact = pos < msgs2.len() && {
                let mut o = msgs2[pos].build(m.index);
                o.lifecycle = m.lifecycle;
                o == m
            };
            deliveries.lock().unwrap().push(Delivery {
                index: if pos == usize::MAX { u32::MAX } else { pos as u32 },
                raw_index: m.index,
                ecu: ecu_no(&m.ecu),
                rt: m.reception_time_us,
                ts_dms: m.timestamp_dms,
                lc: m.lifecycle.wrapping_sub(base),
                pub_same,
                pub_other,
                intact,
                snap,
            });
            Ok(())
        })));
        drop(qtx);
        if let Some(t) = reader {
            let _ = t.join();
        }
        let lcs_w = match stage {
            Ok(w) => w,
            Err(e) => return Err(e),
        };
        let mut table = vec![];
        let mut listing = Ok(vec![]);
        let mut final_snap = vec![];
        if let Some(a) = lcs_r.read() {
            final_snap = snapshot(&a, base);
            for (id, b) in a.iter() {
                // a key whose bag is empty (or holds several values) is reported as such, not unwrapped
                let lc = match b.get_one() {
                    Some(lc) => lc,
                    None => {
                        table.push(LcRow { id: id.wrapping_sub(base), bag_len: 0, sw_version: None, ecu: 0, nr_msgs: 0, start: 0, end: 0, is_resume: false, origin: 0 });
                        continue;
                    }
                };
                table.push(LcRow {
                    id: id.wrapping_sub(base),
                    bag_len: b.len(),
                    sw_version: lc.sw_version.clone(),
                    ecu: ecu_no(&lc.ecu),
                    nr_msgs: lc.nr_msgs,
                    start: lc.start_time,
                    end: if lc.nr_msgs == 0 { 0 } else { lc.end_time() },
                    is_resume: lc.is_resume(),
                    origin: lc.verif_resume_origin_id().map(|i| i.wrapping_sub(base)).unwrap_or(0),
                });
            }
            let a2 = &a;
            listing = catch_loc(std::panic::AssertUnwindSafe(|| {
                adlt::lifecycle::get_sorted_lifecycles_as_vec(a2).iter().map(|l| l.id().wrapping_sub(base)).collect::<Vec<u32>>()
            }));
        }
        table.sort_by_key(|r| r.id);
        drop(lcs_w);
        Ok((table, listing, final_snap))
    });
    let deliveries = std::mem::take(&mut *deliveries.lock().unwrap_or_else(|e| e.into_inner()));
    match r {
        Ok(Ok((table, listing, final_snap))) => LcRun { deliveries, table, listing, panic: None, stage_died: false, final_snap, base },
        Ok(Err(e)) => LcRun { deliveries, table: vec![], listing: Ok(vec![]), panic: Some(e), stage_died: true, final_snap: vec![], base },
        Err(e) => LcRun { deliveries, table: vec![], listing: Ok(vec![]), panic: Some(e), stage_died: false, final_snap: vec![], base },
    }
}

impl LcRun {
    /// T [L status; T deliveries; T table; listing]
    pub fn obs(&self) -> O {
        if self.panic.is_some() {
            return O::T(vec![O::L(1)]);
        }
        O::T(vec![
            O::L(0),
            // visible = the lifecycle is found with the message's ECU in a table every key of which has exactly one value
            O::T(self.deliveries.iter().map(|d| O::T(vec![O::n(d.raw_index), O::n(d.lc), O::b(d.pub_same && d.pub_other && d.snap.iter().all(|x| x.bag_len == 1))])).collect()),
            // a key with no value or several values has no counterpart in the model (rendered as [id; number of values])
            O::T(self.table.iter().map(|r| if r.bag_len == 1 { O::T(vec![O::n(r.id), O::n(r.ecu), O::n(r.nr_msgs), O::n(r.start), O::n(r.end), O::b(r.is_resume), O::n(r.origin)]) } else { O::T(vec![O::n(r.id), O::n(r.bag_len as u64)]) }).collect()),
            match &self.listing {
                Ok(l) => O::T(vec![O::L(0), O::T(l.iter().map(|i| O::n(*i)).collect())]),
                Err(_) => O::T(vec![O::L(1)]),
            },
        ])
    }
}

pub fn coq_msgs(ms: &[MSpec]) -> String {
    clist(&ms.iter().map(|m| m.coq()).collect::<Vec<_>>())
}
/// Coq term of type case_LC = (N * N * (list mspec * list mspec))
pub fn coq_case(scheme: Scheme, pre: &[MSpec], msgs: &[MSpec]) -> String {
    format!("({}, {}, ({}, {}))", scheme.0, scheme.1, coq_msgs(pre), coq_msgs(msgs))
}
pub fn json_case(scheme: Scheme, pre: &[MSpec], msgs: &[MSpec]) -> Value {
    json!({"index_base": scheme.0, "index_stride": scheme.1, "pre": pre.iter().map(|m| m.json()).collect::<Vec<_>>(), "msgs": msgs.iter().map(|m| m.json()).collect::<Vec<_>>()})
}
pub fn scheme_from_json(v: &Value) -> Scheme {
    (v["index_base"].as_u64().unwrap_or(0) as u32, v["index_stride"].as_u64().unwrap_or(1) as u32)
}
/// mostly (0,1); one case in four uses a stride / base that makes the indices cross multiples of 100 000 (the period of the
/// detector's regular refresh) every few messages or once inside the trace
pub fn gen_scheme(rng: &mut Rng, n: usize) -> Scheme {
    if rng.below(4) != 0 {
        return (0, 1);
    }
    let stride = [1u32, 997, 25_000, 50_000, 100_001, 250_000, 33_334][rng.below(7) as usize];
    let base = match rng.below(4) {
        0 => 0,
        1 => 100_000u32.saturating_sub(rng.below(n as u64 + 2) as u32), // the threshold is crossed inside the trace even with stride 1
        2 => 1_000_000,
        _ => rng.below(200_000) as u32,
    };
    (base, stride)
}
pub fn case_from_json(v: &Value) -> (Vec<MSpec>, Vec<MSpec>) {
    let f = |k: &str| v[k].as_array().map(|a| a.iter().map(MSpec::from_json).collect()).unwrap_or_default();
    (f("pre"), f("msgs"))
}

// ------------------------------------------------------------------ generators
pub const RHO: u64 = 1_000_000_000_000;

/// general traces: several ECUs interleaved, reboots, suspend/resume shifts, buffering delays, odd timestamps,
/// control requests, non-monotone reception
pub fn gen_general(rng: &mut Rng, max_len: u64) -> Vec<MSpec> {
    let necu = rng.range(1, 4) as usize;
    let n = rng.range(1, max_len);
    // per ECU: boot time, per-ECU clock
    let mut boot: Vec<u64> = (0..necu).map(|_| RHO - rng.below(30_000_000)).collect();
    let mut now = RHO;
    let mut out = vec![];
    let style = rng.below(4); // 0 dense, 1 with long gaps, 2 chaotic, 3 backwards-heavy
    for _ in 0..n {
        let e = rng.below(necu as u64) as usize;
        // advance wall clock
        now += match rng.below(12) {
            0 => rng.range(9_000_000, 12_000_000),
            1 if style == 1 => rng.range(55_000_000, 70_000_000),
            2 => 1_000_000 + rng.below(50),
            3 if style >= 2 => 0,
            _ => rng.below(900_000),
        };
        let mut rt = now;
        if rng.chance(1, if style == 3 { 4 } else { 15 }) {
            rt = rt.saturating_sub(rng.below(8_000_000)); // non-monotone reception
        }
        // events on that ECU
        match rng.below(16) {
            0 => boot[e] = rt - rng.below(300_000),                                // reboot
            1 => boot[e] += rng.range(10_000_000, 90_000_000),                      // suspend/resume shift: clock did not run
            2 => boot[e] = boot[e].saturating_sub(rng.below(3_000_000)),
            _ => {}
        }
        let delay = match rng.below(8) {
            0 => rng.below(65_000_000),
            1 => rng.below(5_000_000),
            _ => rng.below(200_000),
        };
        let gen_at = rt.saturating_sub(delay);
        let mut ts_us = gen_at.saturating_sub(boot[e]);
        let mut has_ts = true;
        let mut kind = 0u8;
        match rng.below(24) {
            0 => ts_us = 0,
            1 => ts_us = rng.below(400_000_000_000),        // garbage
            2 => {
                has_ts = false;
                ts_us = 0
            }
            3 => kind = 1,
            4 => kind = 2,
            5 => ts_us = rt + rng.below(1000) * 100,       // beyond reception time
            _ => {}
        }
        let ts_dms = (ts_us / 100).min(u32::MAX as u64) as u32;
        out.push(MSpec { ecu: e as u8 + 1, rt, ts_dms, has_ts, kind });
    }
    out
}

/// clean-boot traces (C08) with ground truth: per message (ecu, boot number); per (ecu, boot): (start = S_b + delay, max ts)
pub struct CleanTrace {
    pub msgs: Vec<MSpec>,
    pub boot_of: Vec<(u8, u32)>,
    pub boots: Vec<(u8, u32, u64, u64)>, // ecu, boot, expected start, expected end
}
/// one boot of an ECU: boot time S, transport delay D (the same for all messages of the boot), timestamps in stream order
pub struct Boot {
    pub s: u64,
    pub delay: u64,
    pub ts: Vec<u64>, // us, multiples of 100
}
pub fn gen_clean(rng: &mut Rng) -> CleanTrace {
    let necu = rng.range(1, 4) as usize;
    // per ECU the list of boots; each boot: start S, delay D, timestamps
    let mut per_ecu: Vec<Vec<Boot>> = vec![];
    for _ in 0..necu {
        let nb = rng.range(1, 5);
        let mut boots = vec![];
        let mut t = RHO + rng.below(5_000_000);
        for _ in 0..nb {
            let nmsg = match rng.below(4) {
                0 => 1,
                1 => 2,
                _ => rng.range(3, 9),
            };
            let mut ts: Vec<u64> = vec![];
            let first = if rng.chance(1, 2) { 0 } else { rng.below(3_000_000) / 100 * 100 };
            let mut cur = first;
            // long boots (timestamps many seconds apart, so that the boot spans more than 60 s and gets confirmed while the
            // trace is still running) in half of the cases
            let long_boot = rng.chance(1, 2);
            for k in 0..nmsg {
                if k > 0 {
                    cur += if long_boot {
                        rng.range(5_000_000, 30_000_000) / 100 * 100
                    } else {
                        match rng.below(5) {
                            0 => 0,
                            1 => rng.range(10_000_000, 40_000_000) / 100 * 100, // gap > 10 s
                            _ => rng.below(2_000_000) / 100 * 100,
                        }
                    };
                }
                ts.push(cur);
            }
            // arbitrary order inside the boot
            if rng.chance(1, 2) {
                for i in (1..ts.len()).rev() {
                    let j = rng.below(i as u64 + 1) as usize;
                    ts.swap(i, j);
                }
            }
            let delay = match rng.below(3) {
                0 => 0,
                1 => rng.below(1000),
                _ => rng.below(2_000_000),
            };
            let maxts = *ts.iter().max().unwrap();
            boots.push(Boot { s: t, delay, ts });
            // next boot: off time >= 1 ms after the last message generated; reception must also be later
            let off = match rng.below(4) {
                0 => 1_000,
                1 => rng.range(1_000, 5_000),
                _ => rng.range(1_000, 30_000_000),
            };
            t = t + maxts + delay + off;
        }
        per_ecu.push(boots);
    }
    interleave_boots(rng, per_ecu)
}
/// interleave ECUs arbitrarily, but per ECU boots in sequence, inside a boot in the list order; the ground truth
/// (boot of every message, expected start and end of every boot) comes from the boots, not from the detector's arithmetic
pub fn interleave_boots(rng: &mut Rng, per_ecu: Vec<Vec<Boot>>) -> CleanTrace {
    let necu = per_ecu.len();
    let mut cursors: Vec<(usize, usize)> = vec![(0, 0); necu];
    let mut msgs = vec![];
    let mut boot_of = vec![];
    // bursty interleaving (an ECU logs a run of messages, then is silent while others log) in half of the traces
    let bursty = rng.chance(1, 2);
    let mut last_e: Option<usize> = None;
    loop {
        let avail: Vec<usize> = (0..necu).filter(|e| cursors[*e].0 < per_ecu[*e].len()).collect();
        if avail.is_empty() {
            break;
        }
        let e = match last_e {
            Some(le) if bursty && avail.contains(&le) && rng.chance(3, 4) => le,
            _ => *rng.pick(&avail),
        };
        last_e = Some(e);
        let (b, k) = cursors[e];
        let boot = &per_ecu[e][b];
        let ts = boot.ts[k];
        msgs.push(MSpec { ecu: e as u8 + 1, rt: boot.s + boot.delay + ts, ts_dms: (ts / 100) as u32, has_ts: true, kind: 0 });
        boot_of.push((e as u8 + 1, b as u32));
        cursors[e] = if k + 1 < boot.ts.len() { (b, k + 1) } else { (b + 1, 0) };
    }
    let mut boots = vec![];
    for (e, bs) in per_ecu.iter().enumerate() {
        for (b, boot) in bs.iter().enumerate() {
            let maxts = *boot.ts.iter().max().unwrap();
            boots.push((e as u8 + 1, b as u32, boot.s + boot.delay, boot.s + boot.delay + maxts));
        }
    }
    CleanTrace { msgs, boot_of, boots }
}

// ------------------------------------------------------------------ boundaries of the time domain, order inside a boot
/// constants the code compares times and timestamps with (us): off-time of the property (1 ms), once-per-second check,
/// slightly-overlapping window (2 s / 10 s), resume detection (10 s / 30 s), buffering delay (60 s)
pub const CODE_CONSTS: [u64; 7] = [1_000, 1_000_000, 2_000_000, 10_000_000, 30_000_000, 60_000_000, 70_000_000];
pub const MAX_TS_US: u64 = u32::MAX as u64 * 100;

/// a value just below / at / just above one of the constants
fn near_const(rng: &mut Rng, tick_aligned: bool) -> u64 {
    let c = *rng.pick(&CODE_CONSTS[..]);
    if tick_aligned {
        let k = rng.below(3) * 100;
        if rng.chance(1, 2) { c.saturating_sub(k) / 100 * 100 } else { c + k }
    } else {
        let d = *rng.pick(&[0u64, 1, 2, 99, 100, 101, 999][..]);
        if rng.chance(1, 2) { c.saturating_sub(d) } else { c + d }
    }
}
/// boot time + transport delay of an ECU's first boot (absolute, us): 0, a few us, one tick, around the constants, ordinary, huge
pub fn gen_base(rng: &mut Rng, small_only: bool) -> u64 {
    match rng.below(if small_only { 8 } else { 11 }) {
        0..=2 => 0,
        3 => 1 + rng.below(100),
        4 => *rng.pick(&[1u64, 99, 100, 100, 100, 101, 200, 999, 1_000, 1_001][..]),
        5 | 6 => near_const(rng, false),
        7 => rng.below(120_000_000),
        8 => RHO + rng.below(5_000_000),
        9 => MAX_TS_US - 200 + rng.below(400), // around the largest representable timestamp
        _ => *rng.pick(&[1u64 << 40, 1u64 << 52, 1u64 << 62, (1u64 << 62) + (1u64 << 61)][..]) + rng.below(1_000),
    }
}
/// the timestamps of one boot (us, multiples of 100) in stream order.  `role`: which message comes first.
fn gen_boot_ts(rng: &mut Rng, allow_big: bool) -> (Vec<u64>, &'static str) {
    let nmsg = match rng.below(5) {
        0 | 1 => 1,
        2 => 2,
        _ => rng.range(3, 6),
    };
    let scale = rng.below(if allow_big { 6 } else { 5 });
    let mut ts: Vec<u64> = vec![];
    for k in 0..nmsg {
        let v = match scale {
            0 => rng.below(4) * 100,                                  // 0 .. 3 ticks
            1 => rng.below(3_000_000) / 100 * 100,
            2 => near_const(rng, true),
            3 => k * (rng.range(5_000_000, 30_000_000) / 100 * 100) + rng.below(3) * 100, // long boot: confirmed mid-stream
            4 => match rng.below(4) { 0 => 0, 1 => 100, 2 => near_const(rng, true), _ => rng.below(200_000_000) / 100 * 100 },
            _ => MAX_TS_US - rng.below(3) * 100 - if k > 0 { rng.below(100_000_000) / 100 * 100 } else { 0 },
        };
        ts.push(v.min(MAX_TS_US));
    }
    if rng.chance(1, 4) {
        ts[0] = 0; // some message of the boot has timestamp 0
    }
    ts.sort();
    let role = match rng.below(6) {
        0 => "ascending",
        1 => { ts.reverse(); "descending" }
        2 => { let l = ts.len() - 1; ts.swap(0, l); shuffle_from(rng, &mut ts, 1); "largest_first" }
        3 => { shuffle_from(rng, &mut ts, 1); "smallest_first" }
        4 => { let m = ts.len() / 2; ts.swap(0, m); shuffle_from(rng, &mut ts, 1); "middle_first" }
        _ => { shuffle_from(rng, &mut ts, 0); "shuffled" }
    };
    (ts, role)
}
fn shuffle_from(rng: &mut Rng, v: &mut [u64], from: usize) {
    for i in ((from + 1)..v.len()).rev() {
        let j = from + rng.below((i - from) as u64 + 1) as usize;
        v.swap(i, j);
    }
}
/// clean traces at the boundaries of the time domain: boot time + delay of the first boot of an ECU in
/// {0, 1..100 us, one tick, around the constants of the code, ordinary, huge}, so that reception time == timestamp
/// (or one tick / a few us above it) occurs; timestamps 0, one tick, around the constants, up to the largest
/// representable one; boots of one message; the first message of a boot carrying the largest / smallest / a middle
/// timestamp; off-times of exactly 1 ms, around the constants, long; 1-3 ECUs, 1-4 boots each.
pub fn gen_clean_boundary(rng: &mut Rng, small_only: bool) -> CleanTrace {
    let necu = rng.range(1, 3) as usize;
    let mut per_ecu: Vec<Vec<Boot>> = vec![];
    for _ in 0..necu {
        let nb = rng.range(1, 4);
        let mut boots = vec![];
        let mut base = gen_base(rng, small_only);
        for _ in 0..nb {
            let (ts, _role) = gen_boot_ts(rng, !small_only);
            let maxts = *ts.iter().max().unwrap();
            let delay = match rng.below(3) {
                0 => 0,
                1 => base,
                _ => rng.below(base + 1),
            };
            boots.push(Boot { s: base - delay, delay, ts });
            let off = match rng.below(6) {
                0 => 1_000,
                1 => *rng.pick(&[1_001u64, 1_099, 1_100, 2_000][..]),
                2 => near_const(rng, false).max(1_000),
                3 => rng.range(61_000_000, 130_000_000),
                _ => rng.range(1_000, 30_000_000),
            };
            base = base + maxts + off;
        }
        per_ecu.push(boots);
    }
    interleave_boots(rng, per_ecu)
}

/// a boundary clean trace (small absolute times) with a few messages perturbed: timestamp one tick or more above the
/// reception time, within the tick at / below it, missing, a control request, or a reception time shifted by 1 us.
/// Mostly no longer clean (then only the correspondence looks at it); `derive_clean` decides.
pub fn gen_near_clean(rng: &mut Rng) -> Vec<MSpec> {
    let mut msgs = gen_clean_boundary(rng, true).msgs;
    let n = msgs.len();
    for _ in 0..rng.range(1, 3) {
        let m = &mut msgs[rng.below(n as u64) as usize];
        let at = m.rt / 100;
        let fits = at + 1_000 <= u32::MAX as u64;
        match rng.below(8) {
            0 if fits => m.ts_dms = at as u32 + 1,
            1 if fits => m.ts_dms = (at + rng.below(1_000)) as u32,
            2 if fits => m.ts_dms = at as u32,
            3 if fits => m.ts_dms = (at as u32).saturating_sub(1),
            4 => m.has_ts = false,
            5 => m.kind = 1,
            6 => m.rt += 1,
            _ => m.rt = m.rt.saturating_sub(1),
        }
    }
    msgs
}

/// general traces at small absolute times (reception times from 0 on): the saturating subtractions of the code are
/// reached, timestamps at / one tick above / below the reception time occur for first and later messages of an ECU
pub fn gen_small_time(rng: &mut Rng, max_len: u64) -> Vec<MSpec> {
    let necu = rng.range(1, 3) as usize;
    let n = rng.range(1, max_len);
    let mut now = *rng.pick(&[0u64, 0, 100, 1_000, 999_900, 1_000_000, 5_000_000, 59_999_900, 60_000_000][..]) + if rng.chance(1, 3) { rng.below(100) } else { 0 };
    let mut boot: Vec<u64> = (0..necu).map(|_| if rng.chance(1, 2) { 0 } else { rng.below(now + 1) }).collect();
    let mut out = vec![];
    for _ in 0..n {
        let e = rng.below(necu as u64) as usize;
        now += match rng.below(10) {
            0 => 0,
            1 => 100,
            2 => rng.range(9_000_000, 12_000_000),
            3 => rng.range(55_000_000, 70_000_000),
            4 => 1_000_000 + rng.below(200),
            _ => rng.below(900_000),
        };
        let rt = if rng.chance(1, 12) { now.saturating_sub(rng.below(3_000_000)) } else { now };
        if rng.chance(1, 10) {
            boot[e] = rt.saturating_sub(rng.below(300_000)); // reboot
        }
        let delay = if rng.chance(1, 6) { rng.below(5_000_000) } else { rng.below(200_000) };
        let mut ts_dms = (rt.saturating_sub(delay).saturating_sub(boot[e]) / 100).min(u32::MAX as u64) as u32;
        let mut has_ts = true;
        let mut kind = 0u8;
        let at = (rt / 100).min(u32::MAX as u64 - 1_000) as u32;
        match rng.below(30) {
            0..=3 => ts_dms = at,
            4 | 5 => ts_dms = at + 1,
            6 => ts_dms = at + rng.below(1_000) as u32,
            7 | 8 => ts_dms = 0,
            9 => { has_ts = false; ts_dms = 0 }
            10 => kind = 1,
            11 => kind = 2,
            _ => {}
        }
        out.push(MSpec { ecu: e as u8 + 1, rt, ts_dms, has_ts, kind });
    }
    out
}

/// Is the trace a clean trace in the sense of C08 (the hypothesis `CleanStream` of the theorem, evaluated on the input)?
/// Every message has a timestamp <= its reception time and is no control request; compared with every earlier message y of
/// its ECU it has the same boot value (reception time - timestamp = boot time + delay) or a boot value at least 1 ms after
/// y was generated.  Returns the ground truth derived from the INPUT alone: boots numbered per ECU in order of appearance,
/// expected start = the boot value, expected end = boot value + largest timestamp of the boot.
pub fn derive_clean(msgs: &[MSpec]) -> Option<CleanTrace> {
    let mut per_ecu: std::collections::BTreeMap<u8, Vec<(u64, u64)>> = Default::default(); // ecu -> [(boot value, max ts)]
    let mut boot_of = vec![];
    for m in msgs {
        let ts = m.ts_dms as u64 * 100;
        if !m.has_ts || m.kind == 1 || ts > m.rt {
            return None;
        }
        let b = m.rt - ts;
        let boots = per_ecu.entry(m.ecu).or_default();
        for (b2, maxts2) in boots.iter() {
            if *b2 != b && b2.checked_add(*maxts2)?.checked_add(1_000)? > b {
                return None;
            }
        }
        let k = match boots.iter().position(|x| x.0 == b) {
            Some(k) => {
                boots[k].1 = boots[k].1.max(ts);
                k
            }
            None => {
                boots.push((b, ts));
                boots.len() - 1
            }
        };
        boot_of.push((m.ecu, k as u32));
    }
    let mut boots = vec![];
    for (e, bs) in per_ecu.iter() {
        for (k, (b, maxts)) in bs.iter().enumerate() {
            boots.push((*e, k as u32, *b, b.checked_add(*maxts)?));
        }
    }
    Some(CleanTrace { msgs: msgs.to_vec(), boot_of, boots })
}

/// distribution tags of a clean trace (what the C08 clauses are evaluated on)
pub fn clean_tags(t: &CleanTrace) -> Vec<String> {
    let mut tags: Vec<String> = vec![];
    let mut add = |s: &str| if !tags.iter().any(|x| x == s) { tags.push(s.to_string()) };
    for (e, b, start, _end) in t.boots.iter() {
        let idx: Vec<usize> = (0..t.msgs.len()).filter(|i| t.boot_of[*i] == (*e, *b)).collect();
        let ts: Vec<u32> = idx.iter().map(|i| t.msgs[*i].ts_dms).collect();
        let maxts = *ts.iter().max().unwrap();
        let mints = *ts.iter().min().unwrap();
        let z = if *start == 0 { "base0" } else if *start < 100 { "base<1tick" } else if *start == 100 { "base1tick" } else if *start < 1_000_000 { "base<1s" }
                else if *start < 120_000_000 { "base<120s" } else if *start < (1u64 << 40) { "base_ordinary" } else { "base_huge" };
        add(z);
        if ts.len() == 1 {
            add("boot_1msg");
            if *start == 0 && maxts > 0 { add("base0_boot_1msg_ts>0") }
        } else if ts[0] == maxts && maxts > mints {
            add("boot_largest_ts_first");
            if *start == 0 { add("base0_largest_ts_first") }
            if ts.iter().filter(|x| **x == maxts).count() == 1 { add("boot_unique_largest_ts_first") }
        } else if ts[0] == mints && maxts > mints {
            add("boot_smallest_ts_first");
        } else if maxts > mints {
            add("boot_middle_ts_first");
        }
        if ts[0] > 0 { add("boot_first_ts>0") } else { add("boot_first_ts0") }
        if *b > 0 { add("later_boot") }
        if maxts as u64 * 100 >= MAX_TS_US - 1_000 { add("ts_near_u32max") }
    }
    if t.msgs.iter().any(|m| m.ts_dms > 0 && m.ts_dms as u64 * 100 == m.rt) { add("ts_eq_rt") }
    if t.msgs.iter().any(|m| m.ts_dms as u64 * 100 + 100 == m.rt) { add("ts_1tick_below_rt") }
    tags
}

// ------------------------------------------------------------------ traces with control responses whose payload is looked into
/// (kinds at the boundary of the sw-version block's guard: service id 19 with a second argument that is missing / empty /
///  1-4 bytes; kinds carrying a version the code accepts; all kinds) -- derived with the real argument iterator
pub fn ctrl_kind_groups() -> &'static (Vec<u8>, Vec<u8>, Vec<u8>) {
    static G: std::sync::OnceLock<(Vec<u8>, Vec<u8>, Vec<u8>)> = std::sync::OnceLock::new();
    G.get_or_init(|| {
        let probe = |k: u8| MSpec { ecu: 1, rt: 1, ts_dms: 0, has_ts: true, kind: k };
        let boundary: Vec<u8> = ctrl_kinds().filter(|k| ctrl_tags_of(&probe(*k)).iter().any(|t| matches!(*t, "swv_arg2_none" | "swv_arg2_empty" | "swv_arg2_len1-4"))).collect();
        let wellformed: Vec<u8> = ctrl_kinds().filter(|k| ctrl_shape(*k).unwrap().class.ends_with("swv_wellformed")).collect();
        (boundary, wellformed, ctrl_kinds().collect())
    })
}
pub fn gen_ctrl_kind(rng: &mut Rng) -> u8 {
    let (boundary, wellformed, all) = ctrl_kind_groups();
    match rng.below(10) {
        0..=3 => *rng.pick(&boundary[..]),
        4 | 5 => *rng.pick(&wellformed[..]),
        _ => *rng.pick(&all[..]),
    }
}
/// The labels of the table agree with what the real argument iterator makes of the payloads (so that the families really
/// reach what they are named after); called once per harness run.
pub fn check_ctrl_table() {
    assert!(ctrl_table().len() <= (255 - KIND_CTRL_BASE as usize), "ctrl_table does not fit into the kind byte");
    for k in ctrl_kinds() {
        let sh = ctrl_shape(k).unwrap();
        let tags = ctrl_tags_of(&MSpec { ecu: 1, rt: 1, ts_dms: 0, has_ts: true, kind: k });
        let has = |t: &str| tags.iter().any(|x| *x == t);
        let c = sh.class.splitn(2, '_').nth(1).unwrap();
        let ok = match c {
            "swv_no_arg2" | "swv_arg2_none" => has("swv_arg2_none"),
            "swv_arg2_empty" => has("swv_arg2_empty"),
            "swv_arg2_short" => has("swv_arg2_len1-4"),
            "swv_len_beyond" | "swv_wellformed" => has("swv_arg2_len5-8") || has("swv_arg2_len>=9"),
            "id_truncated" | "id_missing" => has("ctrl_arg1_none"),
            "id_short" => has("ctrl_sid0_or_short_arg1"),
            "other_sid" | "other_sid_no_arg2" => has("ctrl_other_sid") || has("ctrl_sid0_or_short_arg1"),
            _ => false,
        };
        assert!(ok, "ctrl_table entry {} ({:?}) is classified {:?} by the argument iterator", k, sh, tags);
        assert_eq!(has("ctrl_verbose"), sh.verbose);
        assert_eq!(has("ctrl_big_endian"), sh.big_endian);
    }
}

/// 1-3 ECUs logging steadily (messages judged part of the current lifecycle), with control responses of all payload shapes
/// as first and as later messages of an ECU, before and after a response that carried a version, around reboots, reception
/// gaps (> 10 s: resume; > 60 s: confirmation) and messages without timestamp; control requests in between.
pub fn gen_ctrl_trace(rng: &mut Rng) -> Vec<MSpec> {
    let necu = rng.range(1, 3) as usize;
    let n = rng.range(2, 12);
    let base = *rng.pick(&[RHO, RHO, 5_000_000, 70_000_000][..]);
    let mut boot: Vec<u64> = (0..necu).map(|_| base.saturating_sub(rng.below(5_000_000))).collect();
    let mut seen = vec![false; necu];
    let mut now = base;
    let mut out = vec![];
    for _ in 0..n {
        let e = rng.below(necu as u64) as usize;
        now += match rng.below(10) {
            0 => rng.range(11_000_000, 70_000_000),
            1 => 0,
            2 => 1_000_000 + rng.below(1_000),
            _ => rng.below(900_000),
        };
        if seen[e] && rng.chance(1, 10) {
            boot[e] = now.saturating_sub(rng.below(300_000)); // reboot: the message starts a new lifecycle
        }
        let delay = rng.below(200_000);
        let ts_dms = (now.saturating_sub(delay).saturating_sub(boot[e]) / 100).min(u32::MAX as u64) as u32;
        let kind = if !seen[e] {
            if rng.chance(1, 3) { gen_ctrl_kind(rng) } else { 0 }
        } else {
            match rng.below(10) {
                0..=5 => gen_ctrl_kind(rng),
                6 => 1,
                7 => 2,
                _ => 0,
            }
        };
        seen[e] = true;
        out.push(MSpec { ecu: e as u8 + 1, rt: now, ts_dms, has_ts: !rng.chance(1, 15), kind });
    }
    out
}
/// turn 1-3 plain messages of a trace of any family into control responses (times unchanged: the lifecycle history of the
/// trace - merges, confirmations, resumes, flushes - stays what it was)
pub fn sprinkle_ctrl(rng: &mut Rng, msgs: &mut [MSpec]) {
    if msgs.is_empty() {
        return;
    }
    for _ in 0..rng.range(1, 3) {
        let i = rng.below(msgs.len() as u64) as usize;
        if msgs[i].kind == 0 {
            msgs[i].kind = gen_ctrl_kind(rng);
        }
    }
}
/// distribution tags of the control responses of a trace
pub fn ctrl_trace_tags(msgs: &[MSpec], r: &LcRun) -> Vec<String> {
    let mut tags: Vec<String> = vec![];
    let mut add = |s: String| if !tags.contains(&s) { tags.push(s) };
    let mut seen: Vec<u8> = vec![];
    let mut wellformed_before: Vec<u8> = vec![];
    for m in msgs {
        if m.kind >= 2 {
            let t = ctrl_tags_of(m);
            let swv = t.iter().any(|x| x.starts_with("swv_"));
            for x in t.iter() {
                add(x.to_string());
            }
            add(if seen.contains(&m.ecu) { "ctrl_later_msg_of_ecu" } else { "ctrl_first_msg_of_ecu" }.to_string());
            if swv {
                add(if wellformed_before.contains(&m.ecu) { "swv_after_version_response_of_ecu" } else { "swv_without_earlier_version_of_ecu" }.to_string());
                if seen.contains(&m.ecu) && t.iter().any(|x| matches!(*x, "swv_arg2_none" | "swv_arg2_empty")) {
                    add("swv_no_data_later_msg_of_ecu".to_string());
                }
            }
            if let Some(sh) = ctrl_shape(m.kind) {
                if sh.class.ends_with("swv_wellformed") && seen.contains(&m.ecu) {
                    wellformed_before.push(m.ecu);
                }
            }
        }
        if !seen.contains(&m.ecu) {
            seen.push(m.ecu);
        }
    }
    if r.table.iter().any(|x| x.sw_version.is_some()) {
        add("sw_version_in_table".to_string());
    }
    if r.stage_died {
        add("stage_died".to_string());
    }
    tags
}

// ------------------------------------------------------------------ the sw-version block on its own (C05: case CSwv)
fn coq_bytes(b: &[u8]) -> String {
    clist(&b.iter().map(|x| x.to_string()).collect::<Vec<_>>())
}
fn coq_arg(a: &ArgObs) -> String {
    copt(a.as_ref().map(|(p, be)| format!("({}, {})", coq_bytes(p), cbool(*be))))
}
/// One lifecycle (a plain first message), optionally a response that carries a version (`prior`), then the response `kind`,
/// all judged part of that lifecycle: `Lifecycle::update` of the real code runs the block on what the real argument iterator
/// delivers; observed: returned / panicked, and the lifecycle's sw version afterwards.  The model gets the arguments.
pub fn record_swv(sink: &mut Sink, prior: Option<u8>, kind: u8) {
    let mut m0 = MSpec { ecu: 1, rt: RHO, ts_dms: 10, has_ts: true, kind: 0 }.build(0);
    let mut lc = Lifecycle::new(&mut m0);
    if let Some(pk) = prior {
        let mut m1 = MSpec { ecu: 1, rt: RHO + 1_000, ts_dms: 20, has_ts: true, kind: pk }.build(1);
        assert!(lc.update(&mut m1, 60_000_000).is_none());
    }
    let cur = lc.sw_version.clone();
    let mut m2 = MSpec { ecu: 1, rt: RHO + 2_000, ts_dms: 30, has_ts: true, kind }.build(2);
    let (a1, a2) = first_two_args(&m2);
    let is_resp = m2.is_ctrl_response();
    let r = catch_loc(std::panic::AssertUnwindSafe(|| {
        let new_lc = lc.update(&mut m2, 60_000_000);
        (new_lc.is_none(), lc.sw_version.clone())
    }));
    let ascii = |s: &Option<String>| s.as_ref().map(|x| x.is_ascii() && !x.contains('\n') && !x.contains('\r')).unwrap_or(true);
    assert!(ascii(&cur), "sw version texts of the table are ASCII without line breaks");
    let optb = |s: &Option<String>| match s {
        None => O::T(vec![]),
        Some(x) => O::T(vec![O::T(x.as_bytes().iter().map(|b| O::n(*b)).collect())]),
    };
    let (obs, verdict) = match &r {
        Ok((true, v)) => (O::T(vec![O::L(0), optb(v)]), Verdict::Ok),
        Ok((false, _)) => (O::T(vec![O::L(2)]), fail("harness_assumption", "the response was not judged part of the lifecycle".into())),
        Err(e) => (O::T(vec![O::L(1)]), fail("stage_died", format!("Lifecycle::update panicked on a control response (first argument {:?}, second argument {:?}): {}", a1, a2, e))),
    };
    let input_coq = format!("CSwv ({}, {}, {}, {})", copt(cur.as_ref().map(|s| coq_bytes(s.as_bytes()))), cbool(is_resp), coq_arg(&a1), coq_arg(&a2));
    let mut tags: Vec<String> = vec!["swv_block".to_string()];
    tags.extend(ctrl_tags_of(&MSpec { ecu: 1, rt: 1, ts_dms: 0, has_ts: true, kind }).iter().map(|s| s.to_string()));
    tags.push(if cur.is_some() { "swv_block_version_present" } else { "swv_block_no_version_yet" }.to_string());
    if let Ok((_, Some(_))) = &r {
        if cur.is_none() {
            tags.push("swv_block_sets_version".to_string());
        }
    }
    let id = sink.next_id();
    sink.push(Case { id, key: format!("{} kind{} prior{:?}", input_coq, kind, prior), input_coq, input_json: json!({"swv": {"prior": prior, "kind": kind}}), obs, verdict, classes: vec![], tags, nontrivial: true });
}

// ------------------------------------------------------------------ oracles
fn fail(c: &str, d: String) -> Verdict {
    Verdict::Fail { clause: c.into(), detail: d }
}

/// the stage has to return: a panic inside parse_lifecycles_buffered_from_stream (in the pipelines: the lifecycle thread dies,
/// the triggering message, everything still buffered and everything later is never forwarded) fails every property of the group
fn stage_verdict(n_msgs: usize, r: &LcRun) -> Option<Verdict> {
    let p = r.panic.as_ref()?;
    Some(if r.stage_died {
        fail("stage_died", format!("lifecycle stage ended abnormally after forwarding {} of {} messages: {}", r.deliveries.len(), n_msgs, p))
    } else {
        fail("detector_panicked", p.clone())
    })
}

/// every key of the published table has exactly one value (readers do `get_one().unwrap()`): at every delivery / at the end
fn bags_at_deliveries(r: &LcRun) -> Option<Verdict> {
    for d in r.deliveries.iter() {
        // C06 speaks about the lifecycle the DELIVERED message is assigned to: its key must hold exactly one value (a reader does
        // `get_one()`); other keys of the table at that instant are not C06's subject (the final table is C07's)
        if let Some(x) = d.snap.iter().find(|x| x.id == d.lc && x.bag_len != 1) {
            return Some(fail("published_key_single_value", format!("at the delivery of message {}: the key {} of the message's lifecycle has {} values in the published table", d.index, x.id, x.bag_len)));
        }
    }
    None
}
fn bags_at_end(r: &LcRun) -> Option<Verdict> {
    r.final_snap.iter().find(|x| x.bag_len != 1).map(|x| fail("table_key_single_value", format!("final table: key {} has {} values", x.id, x.bag_len)))
}

/// The per-refresh index of the published entries (`lcs_w_refresh_idx`), which followers of the table rely on (the remote
/// server sends only entries whose index is above the highest one it has seen): observed at every delivery and at the end,
/// for runs that start from an empty table (the counter is per run).  Indices are positive, the index of a lifecycle never
/// decreases, and an entry that is new or whose content changed carries an index above every index visible at an earlier
/// instant (two refreshes that publish different content never carry the same index).
#[allow(dead_code)]
pub fn refresh_index_verdict(r: &LcRun) -> Option<Verdict> {
    let mut idx_of: std::collections::BTreeMap<u32, u32> = Default::default();
    let mut content_of: std::collections::BTreeMap<u32, &(u8, u32, u64, u64, bool, u32, Option<String>)> = Default::default();
    let mut last = 0u32; // what a follower polling at every instant remembers
    let instants = r.deliveries.iter().map(|d| (format!("delivery of message {}", d.index), &d.snap)).chain(std::iter::once(("end of the stream".to_string(), &r.final_snap)));
    for (label, snap) in instants {
        for x in snap.iter().filter(|x| x.bag_len >= 1) {
            if x.refresh_idx == 0 {
                return Some(fail("refresh_index_positive", format!("{}: lifecycle {} published with refresh index 0", label, x.id)));
            }
            if let Some(p) = idx_of.get(&x.id) {
                if x.refresh_idx < *p {
                    return Some(fail("refresh_index_never_decreases", format!("{}: refresh index of lifecycle {} went from {} to {}", label, x.id, p, x.refresh_idx)));
                }
            }
            let changed = content_of.get(&x.id).map(|c| **c != x.content).unwrap_or(true);
            if changed && x.refresh_idx <= last {
                return Some(fail("refresh_index_fresh", format!("{}: lifecycle {} was published or changed ({:?}) with refresh index {} although index {} was visible before: a follower that fetches only entries above the highest index it has seen never gets it", label, x.id, x.content, x.refresh_idx, last)));
            }
        }
        for x in snap.iter().filter(|x| x.bag_len >= 1) {
            idx_of.insert(x.id, x.refresh_idx);
            content_of.insert(x.id, &x.content);
            last = last.max(x.refresh_idx);
        }
    }
    None
}

/// C05: every message forwarded exactly once, in order, unchanged except the lifecycle; non-zero id of an own-ECU lifecycle
pub fn oracle_c05(msgs: &[MSpec], r: &LcRun) -> Verdict {
    if let Some(v) = stage_verdict(msgs.len(), r) {
        return v;
    }
    if r.deliveries.len() != msgs.len() {
        return fail("forward_once", format!("{} delivered, {} received", r.deliveries.len(), msgs.len()));
    }
    for (k, d) in r.deliveries.iter().enumerate() {
        if d.index as usize != k {
            return fail("forward_in_order", format!("position {} carries index {}", k, d.index));
        }
        if !d.intact {
            return fail("forward_unchanged", format!("message {} altered", k));
        }
        if d.lc == 0u32.wrapping_sub(r.base) {
            return fail("assigned_nonzero", format!("message {} has lifecycle 0", k));
        }
        match r.table.iter().find(|row| row.id == d.lc) {
            Some(row) if row.ecu == d.ecu => {}
            Some(row) => return fail("assigned_own_ecu", format!("message {} (ecu {}) carries lifecycle {} of ecu {}", k, d.ecu, d.lc, row.ecu)),
            None => return fail("assigned_own_ecu", format!("message {} carries lifecycle {} which is not in the final table", k, d.lc)),
        }
    }
    Verdict::Ok
}

/// C06: at every delivery the lifecycle is visible with the message's ECU (same thread and other thread)
pub fn oracle_c06(msgs: &[MSpec], r: &LcRun) -> Verdict {
    if let Some(v) = stage_verdict(msgs.len(), r) {
        return v;
    }
    if let Some(v) = bags_at_deliveries(r) {
        return v;
    }
    for d in r.deliveries.iter() {
        if !d.pub_same {
            return fail("published_before_delivery", format!("message {}: lifecycle {} not visible (same thread) at delivery", d.index, d.lc));
        }
        if !d.pub_other {
            return fail("published_before_delivery_other_thread", format!("message {}: lifecycle {} not visible to another thread at delivery", d.index, d.lc));
        }
    }
    Verdict::Ok
}

pub fn listing_cmp_consistent(t: &[LcRow]) -> bool {
    use std::cmp::Ordering::*;
    let cmp = |a: &LcRow, b: &LcRow| {
        if b.origin != 0 && b.origin == a.id {
            return Less;
        }
        if a.origin != 0 && a.origin == b.id {
            return Greater;
        }
        a.start.cmp(&b.start)
    };
    for a in t {
        for b in t {
            let (x, y) = (cmp(a, b), cmp(b, a));
            if !((x == Less && y == Greater) || (x == Greater && y == Less) || (x == Equal && y == Equal)) {
                return false;
            }
            for c in t {
                if cmp(a, b) != Greater && cmp(b, c) != Greater && cmp(a, c) == Greater {
                    return false;
                }
            }
        }
    }
    true
}

/// C07: final table consistent with deliveries (runs from an empty table), listing clauses
pub fn oracle_c07(pre: &[MSpec], msgs: &[MSpec], r: &LcRun) -> Verdict {
    if let Some(v) = stage_verdict(msgs.len(), r) {
        return v;
    }
    // C07 talks about the table once the stream has been fully processed: a key without a value at the end is a listed
    // invalidated lifecycle.  The state of the table at the deliveries is C06's clause (`published_key_single_value`), and the
    // per-refresh index (`refresh_index_verdict`) is an implementation detail of the incremental protocol between the lifecycle
    // stage and remote.rs: what must hold of it is decided behaviourally by C13's follower oracle, not here (a different but
    // consistent index scheme must not alarm C07).
    if let Some(v) = bags_at_end(r) {
        return v;
    }
    if pre.is_empty() {
        let mut sum = 0u64;
        for row in r.table.iter() {
            let cnt = r.deliveries.iter().filter(|d| d.lc == row.id).count() as u64;
            if row.nr_msgs == 0 {
                return fail("no_invalidated_listed", format!("lifecycle {} listed with nr_msgs 0", row.id));
            }
            if cnt == 0 {
                return fail("listed_is_referenced", format!("lifecycle {} (nr_msgs {}) is carried by no delivered message", row.id, row.nr_msgs));
            }
            if cnt != row.nr_msgs as u64 {
                return fail("count_matches", format!("lifecycle {}: nr_msgs {} but {} delivered messages carry it", row.id, row.nr_msgs, cnt));
            }
            sum += row.nr_msgs as u64;
        }
        if sum != msgs.len() as u64 {
            return fail("counts_add_up", format!("counts sum to {} for {} messages", sum, msgs.len()));
        }
    }
    match &r.listing {
        Err(e) => return fail("listing_can_be_produced", e.clone()),
        Ok(l) => {
            let mut a: Vec<u32> = l.clone();
            a.sort();
            let b: Vec<u32> = r.table.iter().map(|x| x.id).collect();
            if a != b {
                return fail("listing_each_once", format!("listing {:?} vs table ids {:?}", l, b));
            }
            for (pos, id) in l.iter().enumerate() {
                let row = r.table.iter().find(|x| x.id == *id).unwrap();
                if row.origin != 0 {
                    if let Some(po) = l.iter().position(|x| *x == row.origin) {
                        if pos < po {
                            return fail("listing_resumed_after_origin", format!("lifecycle {} (resume of {}) listed before it: {:?}", id, row.origin, l));
                        }
                    }
                }
            }
            if r.table.iter().all(|x| !x.is_resume) {
                let starts: Vec<u64> = l.iter().map(|id| r.table.iter().find(|x| x.id == *id).unwrap().start).collect();
                if !starts.windows(2).all(|w| w[0] <= w[1]) {
                    return fail("listing_sorted_by_start", format!("{:?}", starts));
                }
            }
        }
    }
    Verdict::Ok
}

/// C08 on a clean trace
pub fn oracle_c08(t: &CleanTrace, r: &LcRun) -> Verdict {
    if let Some(v) = stage_verdict(t.msgs.len(), r) {
        return v;
    }
    if r.deliveries.len() != t.msgs.len() {
        return fail("forward_once", format!("{} delivered of {}", r.deliveries.len(), t.msgs.len()));
    }
    if r.table.len() != t.boots.len() {
        return fail("one_lifecycle_per_boot", format!("{} lifecycles for {} boots", r.table.len(), t.boots.len()));
    }
    let mut map: std::collections::BTreeMap<(u8, u32), u32> = Default::default();
    for d in r.deliveries.iter() {
        let b = t.boot_of[d.index as usize];
        match map.get(&b) {
            None => {
                if map.values().any(|v| *v == d.lc) {
                    return fail("boots_not_merged", format!("lifecycle {} carries messages of two boots (second: {:?})", d.lc, b));
                }
                map.insert(b, d.lc);
            }
            Some(id) if *id == d.lc => {}
            Some(id) => return fail("boot_not_split", format!("boot {:?} split into lifecycles {} and {}", b, id, d.lc)),
        }
    }
    for (e, b, start, end) in t.boots.iter() {
        let id = map[&(*e, *b)];
        let row = match r.table.iter().find(|x| x.id == id) {
            Some(r) => r,
            None => return fail("lifecycle_listed", format!("lifecycle {} not in table", id)),
        };
        if row.ecu != *e {
            return fail("own_ecu", format!("lifecycle {} has ecu {}", id, row.ecu));
        }
        if row.start != *start {
            return fail("start_is_boot_plus_delay", format!("boot {:?}: start {} expected {}", (e, b), row.start, start));
        }
        if row.end != *end {
            return fail("end_is_start_plus_max_timestamp", format!("boot {:?}: end {} expected {}", (e, b), row.end, end));
        }
    }
    Verdict::Ok
}

// ------------------------------------------------------------------ driver shared by c05..c08
pub fn corpus() -> Vec<(Vec<MSpec>, Vec<MSpec>)> {
    let m = |ecu: u8, rt: i64, ts_dms: u32| MSpec { ecu, rt: (RHO as i64 + rt) as u64, ts_dms, has_ts: true, kind: 0 };
    let s = 1_000_000i64;
    vec![
        // C03-1: verbose control response with a short first argument as 2nd message of an ECU
        (vec![], vec![MSpec { ecu: 1, rt: 1_000_000_000, ts_dms: 10, has_ts: true, kind: 0 }, MSpec { ecu: 1, rt: 1_000_000_100, ts_dms: 11, has_ts: true, kind: 3 }]),
        // C03-2: merge of a confirmed lifecycle into a still buffered predecessor
        (vec![], vec![m(1, 0, 200000), m(1, s / 2, 0), m(1, -s, 0), m(2, 60 * s, 0), m(1, -5 * s, 0)]),
        // C07-1: phantom lifecycle after merge-of-confirmed
        (vec![], vec![m(1, 0, 200000), m(2, s / 5, 0), m(1, s / 2, 0), m(1, -s, 0), m(3, 60 * s + s / 10, 0), m(1, -5 * s, 0)]),
        // resume whose start estimate later crosses its origin's, third lifecycle in between
        (vec![], vec![m(1, 0, 0), m(1, s, 10000), m(1, 40 * s, 250000), m(1, 41 * s, 420000), m(2, 41 * s, 415000)]),
        // pre-populated table
        (vec![m(1, 0, 0), m(2, 10, 5)], vec![m(1, s, 10000), m(2, s, 10000), m(3, 2 * s, 0), m(1, 100 * s, 0)]),
    ]
}

pub fn gen_pre(rng: &mut Rng) -> Vec<MSpec> {
    if !rng.chance(1, 6) {
        return vec![];
    }
    let k = rng.range(1, 3);
    let mut v = vec![];
    for e in 0..k {
        let n = rng.range(1, 3);
        let s = RHO - 200_000_000 + rng.below(1_000_000);
        for j in 0..n {
            v.push(MSpec { ecu: e as u8 + 1, rt: s + j * 1000, ts_dms: (j * 10) as u32, has_ts: true, kind: 0 });
        }
    }
    v
}

pub fn lc_tags(pre: &[MSpec], msgs: &[MSpec], r: &LcRun) -> (Vec<String>, bool) {
    let mut tags = vec![];
    let n = msgs.len();
    tags.push(format!("len{}", if n <= 5 { "<=5" } else if n <= 20 { "<=20" } else if n <= 60 { "<=60" } else { ">60" }));
    let necu = { let mut e: Vec<u8> = msgs.iter().map(|m| m.ecu).collect(); e.sort(); e.dedup(); e.len() };
    tags.push(format!("ecus{}", necu));
    if !pre.is_empty() {
        tags.push("prepopulated".into());
    }
    if msgs.iter().any(|m| m.kind == 1) {
        tags.push("ctrl_request".into());
    }
    if msgs.windows(2).any(|w| w[1].rt < w[0].rt) {
        tags.push("nonmonotone_reception".into());
    }
    // a merge happened iff some lifecycle id in 1..max was created but is not in the final table
    let maxid = r.table.iter().map(|x| x.id).max().unwrap_or(0);
    let merged = (r.table.len() as u32) < maxid && maxid < 1_000_000;
    if merged {
        tags.push("merge".into());
    }
    // mid-stream confirmation: some message was delivered before the end although it was queued behind a buffered lifecycle:
    // approximated by: table has >= 2 lifecycles and the span of reception times exceeds 60 s
    let span = msgs.iter().map(|m| m.rt).max().unwrap_or(0) - msgs.iter().map(|m| m.rt).min().unwrap_or(0);
    let confirm = span > 60_000_000 && r.table.len() >= 2;
    if confirm {
        tags.push("confirmation_likely".into());
    }
    if r.table.iter().any(|x| x.is_resume) {
        tags.push("resume".into());
    }
    if !listing_cmp_consistent(&r.table) {
        tags.push("listing_cmp_inconsistent".into());
    }
    if r.panic.is_some() {
        tags.push("panic".into());
    }
    (tags, n >= 3 && r.table.len() >= 2)
}

pub fn lc_main(prop: &str) {
    let a = parse_args();
    let mut sink = Sink::new(prop, &a.out);
    sink.shard_size = 40;
    let other_thread = prop == "C06";
    check_ctrl_table();
    let record_s = |sink: &mut Sink, scheme: Scheme, pre: Vec<MSpec>, msgs: Vec<MSpec>, clean: Option<&CleanTrace>| {
        let r = run_detector_s(&pre, &msgs, other_thread, scheme);
        // C08: whatever family a trace comes from (replays included), when it satisfies the clean-trace hypothesis the clauses
        // are evaluated on it, with the ground truth derived from the input; generated clean traces bring their own
        // ground truth (and the two must agree)
        let derived = if prop == "C08" && pre.is_empty() { derive_clean(&msgs) } else { None };
        if let (Some(t), true) = (clean, prop == "C08") {
            let d = derived.as_ref().expect("generated clean trace is not clean for the classifier");
            let mut a = t.boots.clone();
            a.sort();
            assert_eq!(a, d.boots, "ground truth of the generator and of the classifier differ");
        }
        let by_classifier = clean.is_none() && derived.is_some();
        let clean = match clean {
            Some(t) => Some(t),
            None => derived.as_ref(),
        };
        let verdict = match prop {
            "C05" => oracle_c05(&msgs, &r),
            "C06" => oracle_c06(&msgs, &r),
            "C07" => oracle_c07(&pre, &msgs, &r),
            _ => match clean {
                Some(t) => oracle_c08(t, &r),
                None => Verdict::Ok, // outside the clean-trace class only model == code is checked
            },
        };
        let (mut tags, nontrivial) = lc_tags(&pre, &msgs, &r);
        if let Some(t) = clean {
            tags.push("clean_trace".into());
            if by_classifier {
                tags.push("clean_by_classifier".into());
            }
            if prop == "C08" {
                tags.extend(clean_tags(t));
            }
        }
        if scheme != (0, 1) {
            tags.push("index_scheme".into());
            let last = scheme.0 as u64 + (msgs.len().max(1) as u64 - 1) * scheme.1 as u64;
            if last > 100_000 {
                tags.push(format!("regular_refresh_reachable_x{}", (last / 100_000).min(5)));
            }
        }
        let classes = vec![];
        tags.extend(ctrl_trace_tags(&msgs, &r));
        let input_coq = if prop == "C07" || prop == "C05" { format!("CStream {}", coq_case(scheme, &pre, &msgs)) } else { coq_case(scheme, &pre, &msgs) };
        let id = sink.next_id();
        // distinct by full input: the model's term abstracts the payload shape (kind) of control responses, the key does not
        let kinds: Vec<u8> = pre.iter().chain(msgs.iter()).filter(|m| m.kind >= 2).map(|m| m.kind).collect();
        let key = if kinds.is_empty() { input_coq.clone() } else { format!("{} kinds{:?}", input_coq, kinds) };
        sink.push(Case { id, key, input_coq, input_json: json_case(scheme, &pre, &msgs), obs: r.obs(), verdict, classes, tags, nontrivial });
    };
    let mut srng = Rng::new(a.seed ^ 0x1d5c);
    let mut record = |sink: &mut Sink, pre: Vec<MSpec>, msgs: Vec<MSpec>, clean: Option<&CleanTrace>| {
        let scheme = gen_scheme(&mut srng, msgs.len());
        record_s(sink, scheme, pre, msgs, clean)
    };
    if let Some(p) = &a.replay {
        let v = read_replay(p);
        if v["case"].get("table").is_some() {
            let rows: Vec<TRow> = v["case"]["table"].as_array().unwrap().iter().map(TRow::from_json).collect();
            record_table(&mut sink, rows);
        } else if v["case"].get("swv").is_some() {
            let c = &v["case"]["swv"];
            record_swv(&mut sink, c["prior"].as_u64().map(|x| x as u8), c["kind"].as_u64().unwrap() as u8);
        } else {
            let (pre, msgs) = case_from_json(&v["case"]);
            record_s(&mut sink, scheme_from_json(&v["case"]), pre, msgs, None);
        }
        sink.finish();
        return;
    }
    for (pre, msgs) in corpus() {
        record_s(&mut sink, (0, 1), pre, msgs, None);
    }
    // one ECU, two cleanly separated boots, the second one long in index terms: the regular refresh (every 100 000 message
    // indices) happens while a confirmed lifecycle keeps receiving directly forwarded messages
    for (base, stride) in [(0u32, 1_000u32), (99_900, 1), (0, 50_001), (5, 100_001)] {
        let mut msgs = vec![];
        for k in 0..40u64 {
            msgs.push(MSpec { ecu: 1, rt: RHO + k * 250_000, ts_dms: (k * 2_500) as u32 + 10, has_ts: true, kind: 0 });
        }
        for k in 0..260u64 {
            msgs.push(MSpec { ecu: 1, rt: RHO + 100_000_000 + k * 500_000, ts_dms: (k * 5_000) as u32 + 10, has_ts: true, kind: 0 });
        }
        record_s(&mut sink, (base, stride), vec![], msgs, None);
    }
    // boundaries of the time domain: an ECU whose boot time + delay is exactly 0 / one tick / 1 us (reception time ==
    // timestamp), boots of one message, first message of the boot carrying the largest timestamp, first and later boots
    {
        let c = |ecu: u8, base: u64, ts_us: u64| MSpec { ecu, rt: base + ts_us, ts_dms: (ts_us / 100) as u32, has_ts: true, kind: 0 };
        for base in [0u64, 1, 100] {
            let traces: Vec<Vec<MSpec>> = vec![
                vec![c(1, base, 2_000_000)],
                vec![c(1, base, 5_000_000), c(1, base, 3_000_000)],
                vec![c(1, base, 0), c(1, base, 700), c(1, base, 300)],
                vec![c(1, base, 4_000_000), c(2, base, 100), c(1, base + 4_001_000, 9_000_000), c(2, base + 1_100, 0), c(1, base + 4_001_000, 1_000_000)],
            ];
            for msgs in traces {
                let t = derive_clean(&msgs).expect("corpus trace is clean");
                record_s(&mut sink, (0, 1), vec![], msgs, Some(&t));
            }
        }
    }
    if prop == "C07" {
        // listing on arbitrary tables (resume chains whose start estimates cross, ties, origins missing from the table)
        record_table(&mut sink, vec![TRow { id: 1, ecu: 1, start: 900, resume: None }, TRow { id: 2, ecu: 1, start: 890, resume: Some((1, 900)) }, TRow { id: 3, ecu: 1, start: 895, resume: Some((2, 890)) }]);
        record_table(&mut sink, vec![TRow { id: 2, ecu: 1, start: 50, resume: Some((1, 100)) }, TRow { id: 3, ecu: 2, start: 70, resume: None }, TRow { id: 1, ecu: 1, start: 100, resume: None }]);
        let nt = a.count.map(|c| c / 2).unwrap_or(match a.tier.as_str() { "quick" => 300, "search" => 1500, _ => 10000 });
        let mut trng = Rng::new(a.seed ^ 0x7ab1e);
        for _ in 0..nt {
            let rows = gen_table(&mut trng);
            record_table(&mut sink, rows);
        }
    }
    let n = a.count.unwrap_or(match a.tier.as_str() { "quick" => 400, "search" => 1500, _ => 15000 });
    let mut rng = Rng::new(a.seed);
    for k in 0..n {
        let clean_share = if prop == "C08" { 2 } else { 6 };
        if k % clean_share == 0 {
            let t = gen_clean(&mut rng);
            record(&mut sink, vec![], t.msgs.clone(), Some(&t));
        } else if k % 7 == 3 {
            let msgs = gen_resume_chain(&mut rng);
            record(&mut sink, vec![], msgs, None);
        } else if k % 7 == 5 {
            let msgs = gen_scenario(&mut rng);
            record(&mut sink, vec![], msgs, None);
        } else if k % 7 == 1 {
            let msgs = gen_merge_template(&mut rng);
            record(&mut sink, vec![], msgs, None);
        } else {
            let pre = gen_pre(&mut rng);
            let max_len = match rng.below(10) { 0 => 80, 1..=3 => 40, _ => 14 };
            let msgs = gen_general(&mut rng, max_len);
            record(&mut sink, pre, msgs, None);
        }
    }
    // boundaries of the time domain and order inside a boot (own random streams: the cases above stay what they were)
    let (nb, nn, ns) = match (prop == "C08", a.tier.as_str()) {
        (true, "quick") => (240, 60, 60),
        (false, "quick") => (60, 30, 40),
        (true, "search") => (900, 200, 200),
        (false, "search") => (200, 100, 100),
        (true, _) => (9000, 2000, 2000),
        (false, _) => (2000, 1000, 1000),
    };
    let (nb, nn, ns) = match a.count { Some(c) => (c / 2, c / 8, c / 8), None => (nb, nn, ns) };
    let mut brng = Rng::new(a.seed ^ 0xb0a7_0000);
    for k in 0..nb {
        let t = gen_clean_boundary(&mut brng, k % 3 != 0);
        record(&mut sink, vec![], t.msgs.clone(), Some(&t));
    }
    for _ in 0..nn {
        let msgs = gen_near_clean(&mut brng);
        record(&mut sink, vec![], msgs, None);
    }
    for _ in 0..ns {
        let max_len = match brng.below(6) { 0 => 40, 1 | 2 => 20, _ => 8 };
        let msgs = gen_small_time(&mut brng, max_len);
        record(&mut sink, vec![], msgs, None);
    }
    // messages whose payload the lifecycle code looks into (own random stream): control responses of every shape of
    // `ctrl_table()` -- verbose / non-verbose, both byte orders, service id 19 and others, second argument missing / empty /
    // of every length up to a complete answer, wrong length fields, unsupported argument types
    let mut crng = Rng::new(a.seed ^ 0xc7a1_0000);
    let wellformed = ctrl_kind_groups().1.clone();
    let plain = |ecu: u8, rt: u64, ts_dms: u32, kind: u8| MSpec { ecu, rt, ts_dms, has_ts: true, kind };
    for k in ctrl_kinds() {
        // as a later message of its ECU, the lifecycle has no version yet
        record_s(&mut sink, (0, 1), vec![], vec![plain(1, RHO, 10, 0), plain(1, RHO + 100_000, 1_010, k)], None);
        let sel = (k as u64 + a.seed) % 3;
        if sel == 0 || a.tier != "quick" {
            // after a response of the same lifecycle that carried a version
            let w = *crng.pick(&wellformed[..]);
            record_s(&mut sink, (0, 1), vec![], vec![plain(1, RHO, 10, 0), plain(1, RHO + 50_000, 510, w), plain(1, RHO + 100_000, 1_010, k), plain(1, RHO + 150_000, 1_510, 0)], None);
        }
        if sel == 1 || a.tier != "quick" {
            // as the first message of its ECU, a second ECU interleaved, then the same response again as a later message
            record_s(&mut sink, (0, 1), vec![], vec![plain(2, RHO, 50, 0), plain(1, RHO + 10, 10, k), plain(2, RHO + 1_000, 60, 0), plain(1, RHO + 100_000, 1_010, k)], None);
        }
    }
    let (nc, nsp) = match a.tier.as_str() { "quick" => (120, 90), "search" => (400, 300), _ => (4000, 3000) };
    let (nc, nsp) = match a.count { Some(c) => (c / 4, c / 6), None => (nc, nsp) };
    for _ in 0..nc {
        let msgs = gen_ctrl_trace(&mut crng);
        record(&mut sink, vec![], msgs, None);
    }
    for k in 0..nsp {
        let mut msgs = match k % 6 {
            0 => gen_general(&mut crng, 14),
            1 => gen_scenario(&mut crng),
            2 => gen_merge_template(&mut crng),
            3 => gen_resume_chain(&mut crng),
            4 => gen_clean(&mut crng).msgs,
            _ => gen_clean_boundary(&mut crng, true).msgs,
        };
        sprinkle_ctrl(&mut crng, &mut msgs);
        let pre = if k % 6 == 0 { gen_pre(&mut crng) } else { vec![] };
        record(&mut sink, pre, msgs, None);
    }
    if prop == "C05" {
        // the sw-version block of Lifecycle::update on its own, every shape, without and with a version already found
        for k in ctrl_kinds().chain(2..4u8) {
            record_swv(&mut sink, None, k);
            if (k as u64 + a.seed) % 3 == 2 || a.tier != "quick" {
                let w = *crng.pick(&wellformed[..]);
                record_swv(&mut sink, Some(w), k);
            }
        }
    }
    sink.finish();
}


// ------------------------------------------------------------------ resume chains (one or two ECUs)
/// segments separated by reception gaps > 10 s whose first timestamp continues the previous one (detected as resume),
/// followed by messages that pull the start estimate back by up to 60 s each
pub fn gen_resume_chain(rng: &mut Rng) -> Vec<MSpec> {
    let mut out = vec![];
    let necu = rng.range(1, 2);
    let mut rt = RHO + 1_000_000_000;
    let mut ts: Vec<u64> = vec![100_000_000; necu as usize]; // us
    let nseg = rng.range(2, 5);
    for seg in 0..nseg {
        let e = rng.below(necu) as usize;
        if seg > 0 {
            rt += rng.range(11_000_000, 120_000_000);
            ts[e] += rng.range(0, 40_000_000);
        }
        let n = rng.range(1, 4);
        for k in 0..n {
            if k > 0 {
                rt += rng.range(0, 2_000_000);
                // timestamp advances more than reception time: start estimate moves earlier (<= 60 s per step)
                ts[e] += rng.range(0, 58_000_000);
            }
            out.push(MSpec { ecu: e as u8 + 1, rt, ts_dms: (ts[e] / 100) as u32, has_ts: true, kind: 0 });
        }
    }
    out
}

// ------------------------------------------------------------------ listing on synthetic tables (C07)
#[derive(Clone, Debug)]
pub struct TRow {
    pub id: u32,
    pub ecu: u8,
    pub start: u64,
    pub resume: Option<(u32, u64)>,
}
impl TRow {
    pub fn json(&self) -> Value {
        json!([self.id, self.ecu, self.start, self.resume.map(|r| vec![r.0 as u64, r.1])])
    }
    pub fn from_json(v: &Value) -> TRow {
        TRow { id: v[0].as_u64().unwrap() as u32, ecu: v[1].as_u64().unwrap() as u8, start: v[2].as_u64().unwrap(),
               resume: v[3].as_array().map(|a| (a[0].as_u64().unwrap() as u32, a[1].as_u64().unwrap())) }
    }
    pub fn coq(&self) -> String {
        format!("({}, {}, {}, {})", self.id, self.ecu, self.start, copt(self.resume.map(|r| format!("({}, {})", r.0, r.1))))
    }
}
pub fn gen_table(rng: &mut Rng) -> Vec<TRow> {
    let n = rng.range(1, 9) as u32;
    let few = rng.chance(1, 2);
    let mut rows: Vec<TRow> = vec![];
    for id in 1..=n {
        let start = if few { 100 + rng.below(6) * 10 } else { rng.below(1000) };
        let resume = if id > 1 && rng.chance(1, 2) {
            let oid = match rng.below(6) {
                0 => 1000 + rng.below(5) as u32, // origin not in the table (merged away / other run)
                _ => rng.range(1, id as u64 - 1) as u32,
            };
            let ostart = rows.iter().find(|r| r.id == oid).map(|r| r.start).unwrap_or(rng.below(1000));
            // the snapshot of the origin's start may be later than the origin's current start
            Some((oid, ostart.saturating_add(if rng.chance(1, 3) { rng.below(50) } else { 0 })))
        } else {
            None
        };
        rows.push(TRow { id, ecu: rng.range(1, 3) as u8, start: if rng.chance(1, 30) { u64::MAX - rng.below(2) } else { start }, resume });
    }
    // insertion order is irrelevant for the map but shuffle anyway
    for i in (1..rows.len()).rev() {
        let j = rng.below(i as u64 + 1) as usize;
        rows.swap(i, j);
    }
    rows
}
pub fn record_table(sink: &mut Sink, rows: Vec<TRow>) {
    let rows2 = rows.clone();
    let r = catch_loc(move || {
        let (lcs_r, mut lcs_w) = evmap::new::<LifecycleId, LifecycleItem>();
        for row in rows2.iter() {
            lcs_w.insert(row.id, Lifecycle::verif_new(row.id, dltgen::ecu(row.ecu), row.start, row.resume));
        }
        lcs_w.refresh();
        let a = lcs_r.read().unwrap();
        let l: Vec<u32> = adlt::lifecycle::get_sorted_lifecycles_as_vec(&a).iter().map(|l| l.id()).collect();
        l
    });
    let verdict = match &r {
        Err(e) => fail("listing_can_be_produced", e.clone()),
        Ok(l) => {
            let mut a = l.clone();
            a.sort();
            let mut b: Vec<u32> = rows.iter().map(|x| x.id).collect();
            b.sort();
            let mut v = Verdict::Ok;
            if a != b {
                v = fail("listing_each_once", format!("{:?}", l));
            } else {
                for (pos, id) in l.iter().enumerate() {
                    let row = rows.iter().find(|x| x.id == *id).unwrap();
                    if let Some((oid, _)) = row.resume {
                        if let Some(po) = l.iter().position(|x| *x == oid) {
                            if pos < po {
                                v = fail("listing_resumed_after_origin", format!("lifecycle {} (resume of {}) listed before it: {:?}", id, oid, l));
                            }
                        }
                    }
                }
                if rows.iter().all(|x| x.resume.is_none()) {
                    let starts: Vec<u64> = l.iter().map(|id| rows.iter().find(|x| x.id == *id).unwrap().start).collect();
                    if !starts.windows(2).all(|w| w[0] <= w[1]) {
                        v = fail("listing_sorted_by_start", format!("{:?}", starts));
                    }
                }
            }
            v
        }
    };
    let obs = match &r {
        Ok(l) => O::T(vec![O::L(0), O::T(l.iter().map(|i| O::n(*i)).collect())]),
        Err(_) => O::T(vec![O::L(1)]),
    };
    let input_coq = format!("CTable {}", clist(&rows.iter().map(|x| x.coq()).collect::<Vec<_>>()));
    let chain = rows.iter().any(|x| x.resume.map(|(o, _)| rows.iter().any(|y| y.id == o && y.resume.is_some())).unwrap_or(false));
    let mut tags = vec!["table".to_string(), format!("rows{}", rows.len())];
    if chain {
        tags.push("resume_chain".into());
    }
    let id = sink.next_id();
    sink.push(Case { id, key: input_coq.clone(), input_coq, input_json: json!({"table": rows.iter().map(|x| x.json()).collect::<Vec<_>>()}),
        obs, verdict, classes: vec![], tags, nontrivial: rows.len() >= 3 && rows.iter().any(|x| x.resume.is_some()) });
}


// ------------------------------------------------------------------ intent-driven scenarios
/// Streams composed from intents per ECU, so that the interesting detector paths are hit on purpose and in combination:
/// a lifecycle confirmed by its timestamp span (> 60 s) while lifecycles of other ECUs are still buffered; a new
/// lifecycle after the end of the previous one; a late message that pulls the start of the current lifecycle back by
/// up to 60 s (merge into the predecessor, buffered or already published); pulls by more than 60 s (ignore rule);
/// reception gaps > 10 s with continuing timestamps (resume); silent phases.  The reception clock advances by more than
/// one second per message most of the time so that the once-per-second confirmation check runs.
pub fn gen_scenario(rng: &mut Rng) -> Vec<MSpec> {
    let necu = rng.range(2, 3) as usize;
    // per ECU: estimated start of the current lifecycle, max timestamp so far (us), whether it has any lifecycle
    let mut start: Vec<u64> = vec![0; necu];
    let mut maxts: Vec<u64> = vec![0; necu];
    let mut alive: Vec<bool> = vec![false; necu];
    let mut now = RHO + 500_000_000;
    let n = rng.range(5, 16);
    let mut out = vec![];
    for _ in 0..n {
        now += match rng.below(10) {
            0 => rng.range(0, 900_000),
            1 => rng.range(11_000_000, 40_000_000),
            _ => rng.range(1_100_000, 3_500_000),
        };
        let e = rng.below(necu as u64) as usize;
        let ts_us: u64;
        if !alive[e] || rng.chance(1, 5) {
            // new lifecycle: boot shortly before now
            let ts = rng.range(1, 6) * 1_000_000;
            start[e] = now - ts;
            maxts[e] = ts;
            alive[e] = true;
            ts_us = ts;
        } else {
            match rng.below(8) {
                0 | 1 => {
                    // span: a timestamp more than 60 s beyond the smallest so far (confirms by span), consistent or not with the clock
                    let ts = maxts[e] + rng.range(61_000_000, 70_000_000);
                    if rng.chance(1, 2) {
                        now = now.max(start[e] + ts);
                    }
                    maxts[e] = ts;
                    ts_us = ts;
                }
                2 | 3 => {
                    // pull: the message testifies to a start up to 60 s earlier than the current estimate
                    let d = rng.range(1_000_000, 59_000_000);
                    let new_start = start[e].saturating_sub(d);
                    ts_us = now.saturating_sub(new_start);
                    start[e] = new_start;
                    maxts[e] = maxts[e].max(ts_us);
                }
                4 => {
                    // far pull (> 60 s): ignore rule when the lifecycle already has a non-zero max timestamp
                    let d = rng.range(61_000_000, 200_000_000);
                    ts_us = now.saturating_sub(start[e].saturating_sub(d));
                }
                _ => {
                    // regular message of the current lifecycle, small delay
                    let delay = rng.below(300_000);
                    ts_us = now.saturating_sub(start[e]).saturating_sub(delay);
                    maxts[e] = maxts[e].max(ts_us);
                }
            }
        }
        let ts_dms = (ts_us / 100).min(u32::MAX as u64) as u32;
        out.push(MSpec { ecu: e as u8 + 1, rt: now, ts_dms, has_ts: true, kind: if rng.chance(1, 20) { 1 } else { 0 } });
    }
    out
}


// ------------------------------------------------------------------ merge templates
/// Randomised instances of the multi-step merge situations (two or three ECUs):
///  v0: A1 confirmed+published by its span; A2 (new lifecycle of A) buffered at the queue front; B1 (other ECU) queued behind it
///      and confirmed by its span; a late A message pulls A2's start into A1 -> merge into the PUBLISHED predecessor, buffered_lcs
///      empties, the whole queue is flushed.
///  v1: the same with A1 still buffered (merge into the BUFFERED predecessor; nothing is flushed).
///  v2: A2 itself is confirmed by its span while its messages are queued behind B1 (still buffered), then merged into A1.
pub fn gen_merge_template(rng: &mut Rng) -> Vec<MSpec> {
    let s = 1_000_000u64;
    let v = rng.below(3);
    let (a, b) = if rng.chance(1, 2) { (1u8, 2u8) } else { (2u8, 1u8) };
    let t0 = RHO + rng.below(1000) * s;
    let mut out: Vec<MSpec> = vec![];
    let mut push = |ecu: u8, rt: u64, ts_us: u64| out.push(MSpec { ecu, rt, ts_dms: (ts_us / 100) as u32, has_ts: true, kind: 0 });
    let ts1 = rng.range(1, 3) * s;
    let g1 = if v == 1 { rng.range(5, 30) * s } else { rng.range(61, 70) * s };
    // A1: two messages; with g1 > 60 s it is confirmed by its span at the second one
    push(a, t0, ts1);
    push(a, t0 + g1, ts1 + g1);
    let a1_end = t0 + g1; // start = t0 - ts1, max ts = ts1 + g1
    // A2: new lifecycle after the end of A1
    let gap_a = rng.range(15, 40) * s;
    let ts_a2 = rng.range(1, 8) * s;
    let mut now = t0 + g1 + gap_a;
    push(a, now, ts_a2);
    // B1 behind it
    now += rng.range(1_200_000, 2_500_000);
    let ts_b = rng.range(1, 3) * s;
    push(b, now, ts_b);
    if v == 2 {
        // A2 gets a span > 60 s while B1 (span small) keeps the queue blocked
        now += rng.range(1_200_000, 2_500_000);
        push(a, now, ts_a2 + rng.range(61, 66) * s);
        now += rng.range(1_200_000, 2_500_000);
        push(b, now, ts_b + rng.range(1, 20) * s);
    } else {
        // B1 confirmed by its span
        now += rng.range(1_200_000, 2_500_000);
        push(b, now, ts_b + rng.range(61, 66) * s);
        if rng.chance(1, 2) {
            now += rng.range(1_200_000, 2_500_000);
            push(b, now, ts_b + rng.range(61, 66) * s + s);
        }
    }
    // the late message of A: its calculated start lies d seconds before the end of A1 (d >= 2.5 s: not "slightly overlapping")
    now += rng.range(1_200_000, 2_500_000);
    let d = rng.range(2_500_000, 9_000_000);
    let target_start = a1_end - d;
    push(a, now, now - target_start);
    // a few trailing messages
    for _ in 0..rng.below(3) {
        now += rng.range(1_200_000, 2_500_000);
        let e = if rng.chance(1, 2) { a } else { b };
        push(e, now, now - (t0 - ts1).min(now - s));
    }
    out
}
