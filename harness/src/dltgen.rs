//! Builders for DLT messages / byte streams shared by several properties.
use adlt::dlt::{DltChar4, DltExtendedHeader, DltMessage, DltStandardHeader};

pub fn ecu(n: u8) -> DltChar4 {
    DltChar4::from_buf(&[b'E', b'C', b'0' + (n / 10) % 10, b'0' + n % 10])
}

/// plain message with timestamp flag, no extended header
pub fn plain_msg(index: u32, ecu_no: u8, reception_time_us: u64, timestamp_dms: u32) -> DltMessage {
    DltMessage {
        index,
        reception_time_us,
        ecu: ecu(ecu_no),
        timestamp_dms,
        standard_header: DltStandardHeader { htyp: 0x30, len: 0, mcnt: 0 },
        extended_header: None,
        payload: vec![],
        payload_text: None,
        lifecycle: 0,
    }
}

pub fn with_ext(mut m: DltMessage, verb_mstp_mtin: u8, noar: u8, apid: &[u8; 4], ctid: &[u8; 4]) -> DltMessage {
    m.standard_header.htyp |= 1;
    m.extended_header = Some(DltExtendedHeader { verb_mstp_mtin, noar, apid: DltChar4::from_buf(apid), ctid: DltChar4::from_buf(ctid) });
    m
}
