//! C09 — SortingMultiReaderIterator / SequentialMultiIterator vs Merge/Multi.v
use adlt::dlt::DltMessage;
use adlt::utils::sorting_multi_readeriterator::{SequentialMultiIterator, SortingMultiReaderIterator};
use vharness::*;

type Src = Vec<(u64, u32)>; // (reception time, own index)

fn build(its: &[Src]) -> Vec<Box<dyn Iterator<Item = DltMessage>>> {
    its.iter()
        .enumerate()
        .map(|(s, it)| {
            let v: Vec<DltMessage> = it
                .iter()
                .enumerate()
                .map(|(p, (rt, idx))| {
                    // ECU ids deliberately collide between sources (s % 2): messages of different sources may agree in
                    // every header field the merge could key on; source and position are carried in other fields
                    let mut m = dltgen::plain_msg(*idx, (s % 2) as u8, *rt, p as u32);
                    m.lifecycle = s as u32; // tag: source
                    m
                })
                .collect();
            Box::new(v.into_iter()) as Box<dyn Iterator<Item = DltMessage>>
        })
        .collect()
}

/// an outer iterator of sources that reports a given (truthful but inexact) size hint
struct Hinted<I> {
    inner: I,
    lo: usize,
    hi: Option<usize>,
}
impl<I: Iterator> Iterator for Hinted<I> {
    type Item = I::Item;
    fn next(&mut self) -> Option<I::Item> {
        let r = self.inner.next();
        if r.is_some() {
            self.lo = self.lo.saturating_sub(1);
            self.hi = self.hi.map(|h| h.saturating_sub(1));
        }
        r
    }
    fn size_hint(&self) -> (usize, Option<usize>) {
        (self.lo, self.hi)
    }
}

fn run_impl(variant: u64, start: u32, its: &[Src]) -> Result<Vec<(u32, u32, u32, u64)>, String> {
    let its = its.to_vec();
    catch(move || {
        let b = build(&its);
        let it: Box<dyn Iterator<Item = DltMessage>> = match variant {
            0 => Box::new(SortingMultiReaderIterator::new(start, b)),
            1 => SortingMultiReaderIterator::new_or_single_it(start, b),
            2 => Box::new(SequentialMultiIterator::new(start, b.into_iter())),
            3 => SequentialMultiIterator::new_or_single_it(start, b.into_iter()),
            // outer iterators whose size hints are truthful but not exact (what `files.iter().filter_map(open)`,
            // `.peekable()` after a peek, `once(..).chain(..)` report)
            4 => {
                let n = b.len();
                let o = b.into_iter().filter(|_| true);
                assert_eq!(o.size_hint(), (0, Some(n)));
                SequentialMultiIterator::new_or_single_it(start, o)
            }
            5 => {
                let n = b.len();
                let mut o = b.into_iter().filter(|_| true).peekable();
                let _ = o.peek();
                assert_eq!(o.size_hint(), if n == 0 { (0, Some(0)) } else { (1, Some(n)) });
                SequentialMultiIterator::new_or_single_it(start, o)
            }
            _ => {
                let n = b.len();
                SequentialMultiIterator::new_or_single_it(start, Hinted { inner: b.into_iter(), lo: n.min(1), hi: None })
            }
        };
        it.map(|m| (m.index, m.lifecycle, m.timestamp_dms, m.reception_time_us)).collect()
    })
}

/// the property evaluated directly on the implementation's output
fn oracle(variant: u64, start: u32, its: &[Src], r: &Result<Vec<(u32, u32, u32, u64)>, String>) -> Verdict {
    let total: u64 = its.iter().map(|i| i.len() as u64).sum();
    let fail = |c: &str, d: String| Verdict::Fail { clause: c.into(), detail: d };
    let out = match r {
        Err(e) => {
            // index overflow is outside the quantifier (2^32 messages); anything else is a violation
            if start as u64 + total > u32::MAX as u64 {
                return Verdict::Ok;
            }
            return fail("no_panic", e.clone());
        }
        Ok(o) => o,
    };
    if out.len() as u64 != total {
        return fail("every_message_once", format!("{} messages out, {} in", out.len(), total));
    }
    // per source: positions 0..n in order, each once
    for (s, it) in its.iter().enumerate() {
        let pos: Vec<u32> = out.iter().filter(|m| m.1 == s as u32).map(|m| m.2).collect();
        let want: Vec<u32> = (0..it.len() as u32).collect();
        if pos != want {
            return fail("per_source_order", format!("source {} positions {:?}", s, pos));
        }
        for m in out.iter().filter(|m| m.1 == s as u32) {
            if m.3 != it[m.2 as usize].0 {
                return fail("message_intact", format!("source {} pos {} time changed", s, m.2));
            }
        }
    }
    // the documented exception: one source AND (for the chain) a size hint of exactly (1, Some(1)) -- variant 5 with one source
    let single_exception = (variant == 1 || variant == 3 || variant == 5) && its.len() == 1;
    if single_exception {
        // documented exception: the lone source is passed through with its own numbering
        for m in out.iter() {
            if m.0 != its[0][m.2 as usize].1 {
                return fail("single_source_identity", format!("index {} changed", m.0));
            }
        }
    } else {
        for (k, m) in out.iter().enumerate() {
            if m.0 as u64 != start as u64 + k as u64 {
                return fail("numbered_consecutively", format!("position {} has index {}", k, m.0));
            }
        }
    }
    if variant <= 1 {
        let sorted_in = its.iter().all(|it| it.windows(2).all(|w| w[0].0 <= w[1].0));
        if sorted_in && !out.windows(2).all(|w| w[0].3 <= w[1].3) {
            return fail("sorted_if_sources_sorted", "output not ordered by reception time".into());
        }
    } else {
        // chaining: concatenation
        let want: Vec<(u32, u32)> = its.iter().enumerate().flat_map(|(s, it)| (0..it.len() as u32).map(move |p| (s as u32, p))).collect();
        let got: Vec<(u32, u32)> = out.iter().map(|m| (m.1, m.2)).collect();
        if want != got {
            return fail("chain_concat", format!("got {:?}", got));
        }
    }
    Verdict::Ok
}

fn gen_case(rng: &mut Rng, big: bool) -> (u64, u32, Vec<Src>) {
    let variant = rng.below(7);
    let nsrc = if rng.chance(1, 6) { 1 } else { rng.size(if big { 10 } else { 6 }) };
    let mode = rng.below(4); // 0 equal, 1 increasing, 2 unordered, 3 few distinct values
    let base = rng.range(0, 1_000_000);
    let mut its = vec![];
    for _ in 0..nsrc {
        let n = if rng.chance(1, 4) { 0 } else { rng.size(if big { 40 } else { 12 }) };
        let mut t = base + rng.below(5);
        let mut it = vec![];
        for p in 0..n {
            let rt = match mode {
                0 => base,
                1 => {
                    t += rng.below(3);
                    t
                }
                2 => rng.range(0, 50),
                _ => base + rng.below(3),
            };
            let own = if rng.chance(1, 2) { p as u32 } else { rng.below(1000) as u32 };
            it.push((rt, own));
        }
        its.push(it);
    }
    let start = match rng.below(8) {
        0 => 0,
        1 => u32::MAX - rng.below(6) as u32,
        2 => u32::MAX / 2,
        _ => rng.below(100_000) as u32,
    };
    (variant, start, its)
}

fn record(sink: &mut Sink, variant: u64, start: u32, its: Vec<Src>) {
    let r = run_impl(variant, start, &its);
    let verdict = oracle(variant, start, &its, &r);
    let obs = match &r {
        Ok(out) => O::T(vec![O::L(0), O::T(out.iter().map(|m| O::T(vec![O::n(m.0), O::n(m.1), O::n(m.2), O::n(m.3)])).collect())]),
        Err(_) => O::T(vec![O::L(1)]),
    };
    let coq_its = clist(&its.iter().map(|it| clist(&it.iter().map(|(r, i)| format!("({}, {})", r, i)).collect::<Vec<_>>())).collect::<Vec<_>>());
    let input_coq = format!("({}, {}, {})", variant, start, coq_its);
    let total: usize = its.iter().map(|i| i.len()).sum();
    let has_tie = {
        let mut heads: Vec<u64> = its.iter().filter_map(|i| i.first().map(|x| x.0)).collect();
        heads.sort();
        heads.windows(2).any(|w| w[0] == w[1])
    };
    let mut tags = vec![format!("variant{}", variant), format!("sources{}", its.len().min(7))];
    if has_tie {
        tags.push("tie".into())
    }
    if its.iter().any(|i| i.is_empty()) {
        tags.push("empty_source".into())
    }
    if r.is_err() {
        tags.push("index_overflow".into())
    }
    let nontrivial = its.len() >= 2 && total >= 3;
    let key = input_coq.clone();
    let id = sink.next_id();
    sink.push(Case {
        id,
        input_coq,
        input_json: json!({"variant": variant, "start": start, "its": its}),
        obs,
        verdict,
        classes: vec![],
        tags,
        nontrivial,
        key,
    });
}

fn main() {
    let a = parse_args();
    let mut sink = Sink::new("C09", &a.out);
    if let Some(p) = &a.replay {
        let v = read_replay(p);
        let c = &v["case"];
        let its: Vec<Src> = serde_json::from_value(c["its"].clone()).unwrap();
        record(&mut sink, c["variant"].as_u64().unwrap(), c["start"].as_u64().unwrap() as u32, its);
        sink.finish();
        return;
    }
    // corpus: hand-picked seeds first
    record(&mut sink, 0, 10, vec![vec![(5, 0), (5, 1), (9, 2)], vec![], vec![(5, 0), (3, 1)], vec![(7, 0)]]);
    record(&mut sink, 1, 7, vec![vec![(5, 3), (4, 9)]]);
    record(&mut sink, 3, 7, vec![vec![(5, 3), (4, 9)]]);
    record(&mut sink, 2, 0, vec![vec![], vec![], vec![(1, 0)], vec![], vec![(0, 0)], vec![]]);
    for v in 4..7 {
        record(&mut sink, v, 7, vec![vec![(5, 3), (4, 9)]]);
        record(&mut sink, v, 3, vec![vec![(5, 3), (4, 9)], vec![(1, 0), (2, 1)], vec![], vec![(9, 7)]]);
        record(&mut sink, v, 3, vec![]);
    }
    record(&mut sink, 0, u32::MAX - 1, vec![vec![(1, 0)], vec![(1, 0)], vec![(2, 0)]]);
    let n = a.count.unwrap_or(if a.tier == "quick" { 1000 } else { 20000 });
    let mut rng = Rng::new(a.seed);
    for _ in 0..n {
        let (v, s, its) = gen_case(&mut rng, a.tier != "quick");
        record(&mut sink, v, s, its);
    }
    sink.finish();
}
