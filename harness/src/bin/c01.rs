//! C01 — DltMessageIterator over a Cursor / over the crate's LowMarkBufReader wiring (full and sliced reads) / inside the probe of an
//! input file (get_dlt_infos_from_read / _from_file) vs Dlt/Frame.v + Dlt/Iter.v + Dlt/Probe.v
//! Streams are built from abstract messages (ground truth) and garbage runs; the real iterator is drained;
//! the oracle checks the property text against the ground truth whenever the stream is inside the
//! property's domain (markers only at message starts); a second, malformed family only feeds the
//! model-vs-code comparison (resync logic).
use adlt::dlt::{DltMessage, DLT_MAX_STORAGE_MSG_SIZE};
use adlt::utils::{DltMessageIterator, LowMarkBufReader};
use std::io::Cursor;
use vharness::*;

pub type Segs = Vec<(u64, Vec<u8>)>; // (count, block): block repeated count times

pub fn flatten(s: &Segs) -> Vec<u8> {
    let mut v = vec![];
    for (c, b) in s {
        for _ in 0..*c {
            v.extend_from_slice(b);
        }
    }
    v
}
pub fn segs_len(s: &Segs) -> usize {
    s.iter().map(|(c, b)| *c as usize * b.len()).sum()
}
pub fn push_bytes(s: &mut Segs, b: &[u8]) {
    if b.is_empty() {
        return;
    }
    if let Some(last) = s.last_mut() {
        if last.0 == 1 {
            last.1.extend_from_slice(b);
            return;
        }
    }
    s.push((1, b.to_vec()));
}
pub fn push_segs(s: &mut Segs, t: &Segs) {
    for (c, b) in t {
        if *c == 0 || b.is_empty() {
            continue;
        }
        if *c == 1 {
            push_bytes(s, b);
        } else {
            s.push((*c, b.clone()));
        }
    }
}

#[derive(Clone, Debug)]
pub struct AMsg {
    pub secs: u32,
    pub micros: u32,
    pub secu: [u8; 4],
    pub htyp: u8,
    pub mcnt: u8,
    pub ecu: [u8; 4],
    pub sid: [u8; 4],
    pub ts: u32,
    pub vmm: u8,
    pub noar: u8,
    pub apid: [u8; 4],
    pub ctid: [u8; 4],
    pub payload: Segs,
}
impl AMsg {
    pub fn hs(&self) -> usize {
        let h = self.htyp;
        4 + if h & 4 != 0 { 4 } else { 0 } + if h & 8 != 0 { 4 } else { 0 } + if h & 16 != 0 { 4 } else { 0 } + if h & 1 != 0 { 10 } else { 0 }
    }
    pub fn len(&self) -> usize {
        self.hs() + segs_len(&self.payload)
    }
    pub fn enc(&self, framing: u8, out: &mut Segs) {
        let mut b: Vec<u8> = vec![];
        if framing == 0 {
            b.extend_from_slice(b"DLT\x01");
            b.extend_from_slice(&self.secs.to_le_bytes());
            b.extend_from_slice(&self.micros.to_le_bytes());
            b.extend_from_slice(&self.secu);
        } else {
            b.extend_from_slice(b"DLS\x01");
        }
        b.push(self.htyp);
        b.push(self.mcnt);
        b.extend_from_slice(&(self.len() as u16).to_be_bytes());
        if self.htyp & 4 != 0 {
            b.extend_from_slice(&self.ecu);
        }
        if self.htyp & 8 != 0 {
            b.extend_from_slice(&self.sid);
        }
        if self.htyp & 16 != 0 {
            b.extend_from_slice(&self.ts.to_be_bytes());
        }
        if self.htyp & 1 != 0 {
            b.push(self.vmm);
            b.push(self.noar);
            b.extend_from_slice(&self.apid);
            b.extend_from_slice(&self.ctid);
        }
        push_bytes(out, &b);
        push_segs(out, &self.payload);
    }
    pub fn json(&self) -> Value {
        json!({"secs": self.secs, "micros": self.micros, "secu": self.secu, "htyp": self.htyp, "mcnt": self.mcnt,
            "ecu": self.ecu, "sid": self.sid, "ts": self.ts, "vmm": self.vmm, "noar": self.noar, "apid": self.apid,
            "ctid": self.ctid, "payload": self.payload})
    }
    pub fn from_json(v: &Value) -> AMsg {
        let a4 = |k: &str| -> [u8; 4] {
            let x: Vec<u8> = serde_json::from_value(v[k].clone()).unwrap();
            [x[0], x[1], x[2], x[3]]
        };
        AMsg {
            secs: v["secs"].as_u64().unwrap() as u32,
            micros: v["micros"].as_u64().unwrap() as u32,
            secu: a4("secu"),
            htyp: v["htyp"].as_u64().unwrap() as u8,
            mcnt: v["mcnt"].as_u64().unwrap() as u8,
            ecu: a4("ecu"),
            sid: a4("sid"),
            ts: v["ts"].as_u64().unwrap() as u32,
            vmm: v["vmm"].as_u64().unwrap() as u8,
            noar: v["noar"].as_u64().unwrap() as u8,
            apid: a4("apid"),
            ctid: a4("ctid"),
            payload: serde_json::from_value(v["payload"].clone()).unwrap(),
        }
    }
}

#[derive(Clone, Debug)]
pub enum Part {
    G(Segs),
    M(AMsg),
}

#[derive(Clone, Debug)]
pub enum Input {
    /// framing 0 = storage, 1 = serial
    Stream { framing: u8, start: u32, parts: Vec<Part> },
    Raw { start: u32, segs: Segs },
}

/// what one yielded message looked like
#[derive(Clone, Debug, PartialEq)]
pub struct Item {
    pub index: u32,
    pub rt: u64,
    pub ecu: [u8; 4],
    pub ts: u32,
    pub htyp: u8,
    pub mcnt: u8,
    pub len: u16,
    pub ext: Option<(u8, u8, [u8; 4], [u8; 4])>,
    pub payload: Vec<u8>,
}
pub fn item_of(m: &DltMessage) -> Item {
    Item {
        index: m.index,
        rt: m.reception_time_us,
        ecu: *m.ecu.as_buf(),
        ts: m.timestamp_dms,
        htyp: m.standard_header.htyp,
        mcnt: m.standard_header.mcnt,
        len: m.standard_header.len,
        ext: m.extended_header.as_ref().map(|e| (e.verb_mstp_mtin, e.noar, *e.apid.as_buf(), *e.ctid.as_buf())),
        payload: m.payload.clone(),
    }
}

pub struct Run {
    pub items: Vec<Item>,
    pub index: u32,
    pub processed: usize,
    pub skipped: usize,
    pub det_storage: bool,
    pub det_serial: bool,
    pub rest: usize,
    /// false when the iterator was only reachable as Box<dyn Iterator> (no public counters): index, processed,
    /// skipped and the latches are then not observed and the counter clauses are not evaluated
    pub counters: bool,
}

pub fn run_impl(start: u32, data: &[u8]) -> Result<Run, String> {
    let data = data.to_vec();
    catch_loc(move || {
        let total = data.len();
        let mut cur = Cursor::new(data);
        let mut it = DltMessageIterator::new(start, &mut cur);
        let mut items = vec![];
        for m in &mut it {
            items.push(item_of(&m));
        }
        let (index, processed, skipped, ds, dl) = (it.index, it.bytes_processed, it.bytes_skipped, it.detected_storage_header, it.detected_serial_header);
        drop(it);
        Run { items, index, processed, skipped, det_storage: ds, det_serial: dl, rest: total - (cur.position() as usize).min(total), counters: true }
    })
}

pub fn cksum(l: &[u8]) -> u32 {
    let mut h: u32 = 7;
    for b in l {
        h = h.wrapping_mul(31).wrapping_add(*b as u32);
    }
    h
}
pub fn o_bytes(l: &[u8]) -> O {
    if l.len() <= 64 {
        O::T(vec![O::L(0), O::bytes(l)])
    } else if l.len() <= 4096 {
        O::T(vec![O::L(1), O::n(l.len() as u64), O::n(cksum(l)), O::bytes(&l[..8])])
    } else {
        O::T(vec![O::L(2), O::n(l.len() as u64), O::L(cksum2(l)), O::bytes(&l[..8])])
    }
}
pub fn o_c4(c: &[u8; 4]) -> O {
    O::n(u32::from_be_bytes(*c))
}
pub fn o_item(i: &Item) -> O {
    O::T(vec![
        O::n(i.index),
        O::n(i.rt),
        o_c4(&i.ecu),
        O::n(i.ts),
        O::n(i.htyp),
        O::n(i.mcnt),
        O::n(i.len),
        O::opt(i.ext.as_ref().map(|e| O::T(vec![O::n(e.0), O::n(e.1), o_c4(&e.2), o_c4(&e.3)]))),
        o_bytes(&i.payload),
    ])
}
pub fn o_run(r: &Result<Run, String>) -> O {
    match r {
        Ok(r) if !r.counters => O::T(vec![O::L(3), O::T(r.items.iter().map(o_item).collect()), O::n(r.rest as u64)]),
        Ok(r) => O::T(vec![
            O::L(0),
            O::T(r.items.iter().map(o_item).collect()),
            O::T(vec![O::n(r.index), O::n(r.processed as u64), O::n(r.skipped as u64), O::b(r.det_storage), O::b(r.det_serial)]),
            O::n(r.rest as u64),
        ]),
        Err(_) => O::T(vec![O::L(1)]),
    }
}

pub fn pat_positions(data: &[u8], pat: &[u8; 4]) -> Vec<usize> {
    let mut v = vec![];
    if data.len() >= 4 {
        for i in 0..=data.len() - 4 {
            if &data[i..i + 4] == pat {
                v.push(i);
            }
        }
    }
    v
}

pub struct Built {
    pub segs: Segs,
    pub data: Vec<u8>,
    pub starts: Vec<usize>,
    pub garbage_total: usize,
    pub last_garbage: usize,
}
pub fn build(framing: u8, parts: &[Part]) -> Built {
    let mut segs: Segs = vec![];
    let mut starts = vec![];
    let mut off = 0usize;
    let mut garbage_total = 0;
    let mut last_garbage = 0;
    for p in parts {
        match p {
            Part::G(g) => {
                push_segs(&mut segs, g);
                let l = segs_len(g);
                off += l;
                garbage_total += l;
                last_garbage += l;
            }
            Part::M(m) => {
                starts.push(off);
                m.enc(framing, &mut segs);
                off += (if framing == 0 { 16 } else { 4 }) + m.len();
                last_garbage = 0;
            }
        }
    }
    let data = flatten(&segs);
    assert_eq!(data.len(), off);
    Built { segs, data, starts, garbage_total, last_garbage }
}

pub fn expected(framing: u8, idx: u32, m: &AMsg) -> Item {
    let has = |b: u8| m.htyp & b != 0;
    Item {
        index: idx,
        rt: if framing == 0 { m.secs as u64 * 1_000_000 + m.micros as u64 } else { 1_671_408_000u64 * 1_000_000 },
        ecu: if has(4) {
            m.ecu
        } else if framing == 0 {
            m.secu
        } else {
            [b'D', b'L', b'S', 0]
        },
        ts: if has(16) { m.ts } else { 0 },
        htyp: m.htyp,
        mcnt: m.mcnt,
        len: m.len() as u16,
        ext: if has(1) { Some((m.vmm, m.noar, m.apid, m.ctid)) } else { None },
        payload: flatten(&m.payload),
    }
}

/// the property statement, checked on what the implementation did.  Returns (verdict, in_domain)
pub fn oracle(inp: &Input, b: Option<&Built>, total: usize, r: &Result<Run, String>) -> (Verdict, bool) {
    let fail = |c: &str, d: String| Verdict::Fail { clause: c.into(), detail: d };
    match inp {
        Input::Raw { .. } => {
            // outside the property's hypotheses; only the unconditional clause
            if let Ok(r) = r {
                if r.counters && r.processed > total {
                    return (fail("processed_le_input", format!("{} > {}", r.processed, total)), false);
                }
            }
            (Verdict::Ok, false)
        }
        Input::Stream { framing, start, parts } => {
            let b = b.unwrap();
            let msgs: Vec<&AMsg> = parts.iter().filter_map(|p| if let Part::M(m) = p { Some(m) } else { None }).collect();
            // domain: well-formed messages (len fits u16), markers only at the message starts, index does not overflow
            let wf = msgs.iter().all(|m| m.len() <= 65535);
            let (own, other): (&[u8; 4], &[u8; 4]) = if *framing == 0 { (b"DLT\x01", b"DLS\x01") } else { (b"DLS\x01", b"DLT\x01") };
            let clean = pat_positions(&b.data, own) == b.starts && pat_positions(&b.data, other).is_empty();
            let in_domain = wf && clean && (*start as u64 + msgs.len() as u64) <= u32::MAX as u64;
            if let Ok(r) = r {
                if r.counters && r.processed > total {
                    return (fail("processed_le_input", format!("{} > {}", r.processed, total)), in_domain);
                }
            }
            if !in_domain {
                return (Verdict::Ok, false);
            }
            let r = match r {
                Err(e) => return (fail("no_panic", e.clone()), true),
                Ok(r) => r,
            };
            if r.items.len() != msgs.len() {
                return (fail("exactly_those_messages", format!("{} yielded, {} in the stream", r.items.len(), msgs.len())), true);
            }
            for (k, (it, m)) in r.items.iter().zip(msgs.iter()).enumerate() {
                let want = expected(*framing, start.wrapping_add(k as u32), m);
                if it.index != want.index {
                    return (fail("numbered_consecutively", format!("message {} has index {}", k, it.index)), true);
                }
                if *it != want {
                    return (fail("fields_intact", format!("message {}: got {:?} want {:?}", k, it, want)), true);
                }
            }
            let min = if *framing == 0 { 20 } else { 8 };
            // the bytes the reader did not hand out; with public counters: processed = what was consumed
            let tail = r.rest;
            if r.counters && total - r.processed != r.rest {
                return (fail("processed_is_consumed", format!("processed {} but {} bytes left in the reader of {}", r.processed, r.rest, total)), true);
            }
            if tail >= min || tail > b.last_garbage {
                return (fail("tail_shorter_than_minimal_message", format!("{} bytes unconsumed, last garbage run {}", tail, b.last_garbage)), true);
            }
            if !r.counters {
                return (Verdict::Ok, true);
            }
            if r.skipped != b.garbage_total - tail {
                return (fail("skipped_is_garbage", format!("skipped {} garbage {} tail {}", r.skipped, b.garbage_total, tail)), true);
            }
            if r.index as u64 != *start as u64 + msgs.len() as u64 {
                return (fail("numbered_consecutively", format!("final index {}", r.index)), true);
            }
            (Verdict::Ok, true)
        }
    }
}

pub fn input_json(inp: &Input) -> Value {
    match inp {
        Input::Raw { start, segs } => json!({"kind": "raw", "start": start, "segs": segs}),
        Input::Stream { framing, start, parts } => {
            let ps: Vec<Value> = parts.iter().map(|p| match p {
                Part::G(g) => json!({"g": g}),
                Part::M(m) => json!({"m": m.json()}),
            }).collect();
            json!({"kind": "stream", "framing": framing, "start": start, "parts": ps})
        }
    }
}
pub fn input_from_json(c: &Value) -> Input {
    let start = c["start"].as_u64().unwrap() as u32;
    if c["kind"] == "raw" {
        Input::Raw { start, segs: serde_json::from_value(c["segs"].clone()).unwrap() }
    } else {
        let parts = c["parts"].as_array().unwrap().iter().map(|p| {
            if p.get("g").is_some() {
                Part::G(serde_json::from_value(p["g"].clone()).unwrap())
            } else {
                Part::M(AMsg::from_json(&p["m"]))
            }
        }).collect();
        Input::Stream { framing: c["framing"].as_u64().unwrap() as u8, start, parts }
    }
}

pub fn coq_segs(s: &Segs) -> String {
    clist(&s.iter().map(|(c, b)| format!("({}, {})", c, cnums(b))).collect::<Vec<_>>())
}

pub fn record(sink: &mut Sink, inp: Input, extra_tags: &[&str]) {
    let (start, built, segs) = match &inp {
        Input::Raw { start, segs } => (*start, None, segs.clone()),
        Input::Stream { framing, start, parts } => {
            let b = build(*framing, parts);
            let s = b.segs.clone();
            (*start, Some(b), s)
        }
    };
    let data = match &built {
        Some(b) => b.data.clone(),
        None => flatten(&segs),
    };
    let r = run_impl(start, &data);
    let (verdict, in_domain) = oracle(&inp, built.as_ref(), data.len(), &r);
    let obs = o_run(&r);
    let input_coq = format!("(WCursor, {}, {})", start, coq_segs(&segs));
    let mut tags: Vec<String> = extra_tags.iter().map(|s| s.to_string()).collect();
    let mut nontrivial = false;
    match &inp {
        Input::Raw { .. } => tags.push("raw".into()),
        Input::Stream { framing, parts, .. } => {
            tags.push(if *framing == 0 { "storage".into() } else { "serial".into() });
            tags.push(if in_domain { "in_domain".into() } else { "outside_domain".into() });
            let nm = parts.iter().filter(|p| matches!(p, Part::M(_))).count();
            let b = built.as_ref().unwrap();
            tags.push(format!("msgs{}", nm.min(9)));
            if b.garbage_total > 0 {
                tags.push("garbage".into());
            }
            if b.last_garbage > 0 {
                tags.push("trailing_garbage".into());
            }
            nontrivial = in_domain && nm >= 2 && b.garbage_total > 0;
        }
    }
    match &r {
        Ok(r) => {
            tags.push(format!("yield{}", r.items.len().min(9)));
            if r.skipped > 0 {
                tags.push("skipped".into());
            }
            if let Input::Raw { .. } = inp {
                nontrivial = !r.items.is_empty() && r.skipped > 0;
            }
        }
        Err(_) => tags.push("panic".into()),
    }
    let id = sink.next_id();
    sink.push(Case { id, key: input_coq.clone(), input_coq, input_json: input_json(&inp), obs, verdict, classes: vec![], tags, nontrivial });
}

// ------------------------------------------------------------------ the iterator as the crate wires it
/// capacity used at every DLT call site of the crate (`512 * 1024` / `BUFREADER_CAPACITY`: function-local there,
/// so it cannot be imported); the low mark is the crate's own expression, never a copied value
pub const CALL_SITE_CAPACITY: usize = 512 * 1024;
pub fn call_site_low_mark(look4: bool) -> usize {
    if look4 {
        DLT_MAX_STORAGE_MSG_SIZE + 4 // adlt convert, adlt remote
    } else {
        DLT_MAX_STORAGE_MSG_SIZE // library tests, export plugin, lifecycle
    }
}

/// source that records the absolute stream position of the buffer end after every read
pub struct CountingSource {
    pub cur: Cursor<Vec<u8>>,
    pub ends: std::rc::Rc<std::cell::RefCell<Vec<usize>>>,
}
impl std::io::Read for CountingSource {
    fn read(&mut self, buf: &mut [u8]) -> std::io::Result<usize> {
        let n = self.cur.read(buf)?;
        if n > 0 {
            self.ends.borrow_mut().push(self.cur.position() as usize);
        }
        Ok(n)
    }
}

/// DltMessageIterator::new(start, LowMarkBufReader::new(src, cap, low)) drained; also the buffer ends seen
pub fn run_wired(start: u32, data: &[u8], cap: usize, low: usize) -> (Result<Run, String>, Vec<usize>) {
    let data = data.to_vec();
    let total = data.len();
    let ends = std::rc::Rc::new(std::cell::RefCell::new(vec![]));
    let e2 = ends.clone();
    let r = catch_loc(std::panic::AssertUnwindSafe(move || {
        let src = CountingSource { cur: Cursor::new(data), ends: e2 };
        let mut it = DltMessageIterator::new(start, LowMarkBufReader::new(src, cap, low));
        let mut items = vec![];
        for m in &mut it {
            items.push(item_of(&m));
        }
        Run { items, index: it.index, processed: it.bytes_processed, skipped: it.bytes_skipped, det_storage: it.detected_storage_header,
            det_serial: it.detected_serial_header, rest: total - it.bytes_processed.min(total), counters: true }
    }));
    let e = ends.borrow().clone();
    (r, e)
}

pub fn cksum2(l: &[u8]) -> u128 {
    let (mut s1, mut s2) = (0u128, 0u128);
    for b in l {
        s1 += *b as u128;
        s2 += s1;
    }
    s2 * 4294967296 + s1
}
/// one case of the buffered family: an in-domain stream (ground truth `parts`) read the way the crate reads files
pub fn record_wired(sink: &mut Sink, framing: u8, start: u32, parts: Vec<Part>, look4: bool, extra_tags: &[&str]) {
    let cap = CALL_SITE_CAPACITY;
    let low = call_site_low_mark(look4);
    let inp = Input::Stream { framing, start, parts };
    let b = match &inp {
        Input::Stream { framing, parts, .. } => build(*framing, parts),
        _ => unreachable!(),
    };
    let (r, ends) = run_wired(start, &b.data, cap, low);
    let (verdict, in_domain) = oracle(&inp, Some(&b), b.data.len(), &r);
    let obs = match &r {
        Ok(r) => O::T(vec![
            O::L(0),
            O::T(r.items.iter().map(o_item).collect()),
            O::T(vec![O::n(r.index), O::n(r.processed as u64), O::n(r.skipped as u64), O::b(r.det_storage), O::b(r.det_serial)]),
            O::n(r.rest as u64),
        ]),
        Err(_) => O::T(vec![O::L(1)]),
    };
    let input_coq = format!("(WLowMark {} {} {}, {}, {})", cap, low, cbool(look4), start, coq_segs(&b.segs));
    let mut tags: Vec<String> = extra_tags.iter().map(|s| s.to_string()).collect();
    tags.push("wired".into());
    tags.push(if framing == 0 { "storage".into() } else { "serial".into() });
    tags.push(if look4 { "low_mark_plus4".into() } else { "low_mark_plain".into() });
    tags.push(if in_domain { "in_domain".into() } else { "outside_domain".into() });
    tags.push(format!("refills{}", ends.len().min(9)));
    if b.garbage_total > 0 {
        tags.push("garbage".into());
    }
    let mut j = input_json(&inp);
    j["wiring"] = json!({"look4": look4});
    let id = sink.next_id();
    sink.push(Case { id, key: input_coq.clone(), input_coq, input_json: j, obs, verdict, classes: vec![], tags, nontrivial: in_domain && ends.len() >= 2 });
}

pub fn sized_msg(framing: u8, total: usize, htyp: u8, mcnt: u8, fill: u8) -> AMsg {
    // a message of exactly `total` bytes on the wire (frame header included)
    let mut m = plain(htyp, b"");
    m.mcnt = mcnt;
    let hdr = if framing == 0 { 16 } else { 4 };
    let pl = total - hdr - m.hs();
    m.payload = if pl == 0 { vec![] } else if pl <= 3 { vec![(1, vec![fill; pl])] } else { vec![(1, vec![mcnt, fill ^ 0x11, 0x40]), ((pl - 3) as u64, vec![fill])] };
    assert_eq!(hdr + m.len(), total);
    m
}

/// a stream longer than the buffer in which a near-maximum message (len field `len_big`) starts where the buffer
/// filled by the k-th read still holds (message size + delta) bytes: delta < 0 = the message is not completely
/// buffered unless the reader refills, delta >= 0 = it just fits.  The buffer ends are taken from a dry run of the
/// real wiring on the filler (they depend on capacity, low mark, compaction alignment and consumed bytes).
pub fn wired_stream(framing: u8, look4: bool, k: usize, len_big: usize, delta: i64, garbage: bool, big_htyp: u8) -> Option<Vec<Part>> {
    let hdr = if framing == 0 { 16usize } else { 4 };
    let unit = hdr + 60000;
    let g = |n: usize, b: u8| Part::G(vec![(n as u64, vec![b])]);
    let mut head: Vec<Part> = vec![Part::M(sized_msg(framing, hdr + 9, 0x20, 1, 0x61)), Part::M(sized_msg(framing, hdr + 4, 0x20, 2, 0x62))];
    if garbage {
        head.push(g(7, 0xaa));
    }
    // dry run: filler only
    let mut base = head.clone();
    for i in 0..(((k + 1) * CALL_SITE_CAPACITY) / unit + 2) {
        base.push(Part::M(sized_msg(framing, unit, 0x20, (3 + i) as u8, 0x2e)));
    }
    let bb = build(framing, &base);
    let (_, ends) = run_wired(0, &bb.data, CALL_SITE_CAPACITY, call_site_low_mark(look4));
    let e_k = *ends.get(k - 1)? as i64;
    let t_big = (hdr + len_big) as i64;
    let g1 = if garbage { 9i64 } else { 0 };
    let s = e_k - (t_big + delta); // where the near-maximum message starts
    let mut parts = head;
    let mut pos = build(framing, &parts).data.len() as i64;
    let mut i = 0;
    while s - g1 - (pos + unit as i64) >= (hdr + 4) as i64 {
        parts.push(Part::M(sized_msg(framing, unit, 0x20, (3 + i) as u8, 0x2e)));
        pos += unit as i64;
        i += 1;
    }
    let a = s - g1 - pos;
    if a < (hdr + 4) as i64 {
        return None;
    }
    parts.push(Part::M(sized_msg(framing, a as usize, 0x20, 0xa0, 0x2d)));
    if garbage {
        parts.push(Part::G(vec![(1, b"DL\x00DLS\x00\xaa".to_vec())]));
    }
    parts.push(Part::M(sized_msg(framing, t_big as usize, big_htyp, 0xb1, 0x2b)));
    parts.push(Part::M(sized_msg(framing, hdr + 5, 0x20, 0xc1, 0x63)));
    parts.push(Part::M(sized_msg(framing, hdr + 2000, 0x31, 0xc2, 0x64)));
    parts.push(Part::M(sized_msg(framing, hdr + 4, 0x20, 0xc3, 0x65)));
    if garbage {
        parts.push(g(5, 0xbb));
    }
    Some(parts)
}

pub fn wired_family(sink: &mut Sink, rng: &mut Rng, tier: &str) {
    let htyps = [0x20u8, 0x3f, 0x35, 0x21];
    let mut n = 0u32;
    let mut emit = |sink: &mut Sink, f: u8, look4: bool, k: usize, len_big: usize, delta: i64, garbage: bool, tag: &str| {
        let h = htyps[(n as usize) % htyps.len()];
        n += 1;
        if let Some(parts) = wired_stream(f, look4, k, len_big, delta, garbage, h) {
            record_wired(sink, f, 1000 + n, parts, look4, &[tag]);
        }
    };
    let edge: &[i64] = &[-1, -4, -5, -16, -17, 0, 3];
    for f in 0..2u8 {
        for look4 in [false, true] {
            if tier != "search" {
                // the maximum message around the point where it stops fitting completely into what is buffered
                let ds: Vec<i64> = if tier == "thorough" { (-40..=40).collect() } else { edge.to_vec() };
                for (j, d) in ds.iter().enumerate() {
                    emit(sink, f, look4, 1, 65535, *d, j % 2 == 1, "wired_edge");
                }
                if tier == "thorough" {
                    for len_big in (65535 - 40)..65535 {
                        emit(sink, f, look4, 1, len_big, -1, len_big % 2 == 0, "wired_len_sweep");
                        emit(sink, f, look4, 1 + (len_big % 2), len_big, -16, len_big % 2 == 1, "wired_len_sweep");
                    }
                }
            }
            let extra = if tier == "quick" { 3 } else if tier == "search" { 8 } else { 12 };
            for _ in 0..extra {
                let len_big = 65535 - rng.below(41) as usize;
                let delta = rng.below(81) as i64 - 40;
                let k = 1 + rng.below(2) as usize;
                emit(sink, f, look4, k, len_big, delta, rng.chance(1, 2), "wired_random");
            }
        }
    }
}

// ------------------------------------------------------------------ the crate's wiring over a source with short reads
/// read-size schedule of the inner source: cyclic run-length list (count, size); a size is clipped to [1, room]
/// and to what is left; empty = every read is satisfied completely (regular file / Cursor)
pub type Sched = Vec<(u64, u64)>;
pub const FULL: u64 = 1 << 40;

#[derive(Default)]
pub struct ReadStats {
    pub pos: usize,
    pub reads: u64,
    /// reads that returned fewer bytes than asked for although the source was not at its end afterwards
    pub short: u64,
    pub min_slice: usize,
    pub max_slice: usize,
}
/// a `Read` that delivers fewer bytes than requested (pipe, socket, slicing adaptor); never an error, 0 only at the end
pub struct SlicedSource {
    pub data: Vec<u8>,
    pub sched: Sched,
    pub k: usize,
    pub used: u64,
    pub st: std::rc::Rc<std::cell::RefCell<ReadStats>>,
}
impl std::io::Read for SlicedSource {
    fn read(&mut self, buf: &mut [u8]) -> std::io::Result<usize> {
        let mut st = self.st.borrow_mut();
        let left = self.data.len() - st.pos;
        if buf.is_empty() || left == 0 {
            return Ok(0);
        }
        let want = if self.sched.is_empty() {
            buf.len() as u64
        } else {
            while self.used >= self.sched[self.k].0 {
                self.k = (self.k + 1) % self.sched.len();
                self.used = 0;
            }
            self.used += 1;
            self.sched[self.k].1
        };
        let n = (want.max(1).min(buf.len() as u64) as usize).min(left);
        buf[..n].copy_from_slice(&self.data[st.pos..st.pos + n]);
        st.pos += n;
        st.reads += 1;
        if n < buf.len() && st.pos < self.data.len() {
            st.short += 1;
            st.min_slice = if st.min_slice == 0 { n } else { st.min_slice.min(n) };
        }
        st.max_slice = st.max_slice.max(n);
        Ok(n)
    }
}

pub fn sched_of(v: &Value) -> Sched {
    v.as_array().map(|a| a.iter().map(|p| (p[0].as_u64().unwrap(), p[1].as_u64().unwrap())).collect()).unwrap_or_default()
}
pub fn sched_from_sizes(sizes: &[u64], then_full: bool) -> Sched {
    let mut s: Sched = vec![];
    for &n in sizes {
        match s.last_mut() {
            Some(l) if l.1 == n => l.0 += 1,
            _ => s.push((1, n)),
        }
    }
    if then_full {
        s.push((FULL, FULL));
    }
    s
}

/// how the iterator is built: 0 = DltMessageIterator::new, 1 = the same with a logger, 2 / 3 = the crate's
/// constructor `get_dlt_message_iterator(ext, ..)` without / with a logger (boxed: items + reader only)
pub fn run_sliced(start: u32, data: &[u8], cap: usize, low: usize, ctor: u8, ext: &str, sched: &Sched) -> (Result<Run, String>, ReadStats) {
    let total = data.len();
    let st = std::rc::Rc::new(std::cell::RefCell::new(ReadStats::default()));
    let src = SlicedSource { data: data.to_vec(), sched: sched.clone(), k: 0, used: 0, st: st.clone() };
    let st2 = st.clone();
    let ext = ext.to_string();
    let r = catch_loc(std::panic::AssertUnwindSafe(move || {
        let log = slog::Logger::root(slog::Discard, slog::o!());
        let mut rd = LowMarkBufReader::new(src, cap, low);
        let mut items = vec![];
        let (index, processed, skipped, ds, dl, counters);
        if ctor < 2 {
            let mut it = DltMessageIterator::new(start, &mut rd);
            if ctor == 1 {
                it.log = Some(&log);
            }
            for m in &mut it {
                items.push(item_of(&m));
            }
            (index, processed, skipped, ds, dl, counters) = (it.index, it.bytes_processed, it.bytes_skipped, it.detected_storage_header, it.detected_serial_header, true);
        } else {
            let it = adlt::utils::get_dlt_message_iterator(&ext, start, &mut rd, adlt::utils::get_new_namespace(), None, None, if ctor == 3 { Some(&log) } else { None });
            for m in it {
                items.push(item_of(&m));
            }
            (index, processed, skipped, ds, dl, counters) = (0, 0, 0, false, false, false);
        }
        // what the reader has not handed out: not yet read from the source + still buffered
        let rest = total - st2.borrow().pos + rd.buffer().len();
        Run { items, index, processed, skipped, det_storage: ds, det_serial: dl, rest, counters }
    }));
    let stats = std::mem::take(&mut *st.borrow_mut());
    (r, stats)
}

pub fn record_sliced(sink: &mut Sink, inp: Input, look4: bool, ctor: u8, ext: &str, sched: Sched, extra_tags: &[&str]) {
    let cap = CALL_SITE_CAPACITY;
    let low = call_site_low_mark(look4);
    let (start, built, segs) = match &inp {
        Input::Raw { start, segs } => (*start, None, segs.clone()),
        Input::Stream { framing, start, parts } => {
            let b = build(*framing, parts);
            let s = b.segs.clone();
            (*start, Some(b), s)
        }
    };
    let data = match &built {
        Some(b) => b.data.clone(),
        None => flatten(&segs),
    };
    let (r, stats) = run_sliced(start, &data, cap, low, ctor, ext, &sched);
    let (verdict, in_domain) = oracle(&inp, built.as_ref(), data.len(), &r);
    let obs = o_run(&r);
    let csched = clist(&sched.iter().map(|(c, n)| format!("({}, {})", c, n)).collect::<Vec<_>>());
    let input_coq = format!("(WSliced {} {} {} {} {}, {}, {})", cap, low, cbool(look4), ctor, csched, start, coq_segs(&segs));
    let mut tags: Vec<String> = extra_tags.iter().map(|s| s.to_string()).collect();
    tags.push("sliced".into());
    tags.push(if look4 { "low_mark_plus4".into() } else { "low_mark_plain".into() });
    tags.push(format!("ctor{}", ctor));
    if data.len() > 30000 {
        tags.push("heavy".into());
    }
    let mut biggest = 0usize;
    let mut nm = 0;
    match &inp {
        Input::Raw { .. } => tags.push("raw".into()),
        Input::Stream { framing, parts, .. } => {
            tags.push(if *framing == 0 { "storage".into() } else { "serial".into() });
            tags.push(if in_domain { "in_domain".into() } else { "outside_domain".into() });
            for p in parts {
                if let Part::M(m) = p {
                    nm += 1;
                    biggest = biggest.max(m.len() + if *framing == 0 { 16 } else { 4 });
                }
            }
            tags.push(format!("msgs{}", nm.min(9)));
            if built.as_ref().unwrap().garbage_total > 0 {
                tags.push("garbage".into());
            }
        }
    }
    if stats.short > 0 {
        tags.push("short_reads".into());
        if biggest > stats.min_slice {
            tags.push("msg_gt_slice".into());
        }
        if biggest > stats.max_slice {
            tags.push("msg_gt_every_slice".into());
        }
    }
    tags.push(match biggest { 0..=99 => "big_lt100", 100..=999 => "big_lt1000", 1000..=9999 => "big_lt10000", 10000..=65000 => "big_lt65000", _ => "big_near_max" }.into());
    if data.len() > cap {
        tags.push("longer_than_buffer".into());
    }
    if let Ok(r) = &r {
        tags.push(format!("yield{}", r.items.len().min(9)));
    } else {
        tags.push("panic".into());
    }
    let nontrivial = in_domain && nm >= 2 && stats.short > 0 && biggest > stats.min_slice;
    let mut j = input_json(&inp);
    j["sliced"] = json!({"look4": look4, "ctor": ctor, "ext": ext, "sched": sched.iter().map(|(c, n)| json!([c, n])).collect::<Vec<_>>()});
    let id = sink.next_id();
    sink.push(Case { id, key: input_coq.clone(), input_coq, input_json: j, obs, verdict, classes: vec![], tags, nontrivial });
}

/// positions where a message starts / ends (stream offsets) and the size of the largest message with its start
pub fn boundaries(framing: u8, parts: &[Part]) -> (Vec<u64>, u64, u64) {
    let hdr = if framing == 0 { 16 } else { 4 };
    let (mut off, mut v, mut big, mut big_at) = (0u64, vec![], 0u64, 0u64);
    for p in parts {
        match p {
            Part::G(g) => off += segs_len(g) as u64,
            Part::M(m) => {
                let t = (hdr + m.len()) as u64;
                v.push(off);
                if t > big {
                    big = t;
                    big_at = off;
                }
                off += t;
                v.push(off);
            }
        }
    }
    v.sort();
    v.dedup();
    (v, big, big_at)
}

/// the schedule kinds of the sliced family; `kind` selects, `rng` fills in the sizes.  Returns (schedule, tag)
pub fn make_sched(kind: u64, rng: &mut Rng, framing: u8, parts: &[Part], look4: bool) -> (Sched, &'static str) {
    make_sched_d(kind, rng, framing, parts, look4, None)
}
/// `edge`: (d, following slice size) for the two edge kinds (5: buffer = low mark + d, 9: buffer = largest message + d)
pub fn make_sched_d(kind: u64, rng: &mut Rng, framing: u8, parts: &[Part], look4: bool, edge: Option<(i64, u64)>) -> (Sched, &'static str) {
    let (bnd, big, big_at) = boundaries(framing, parts);
    let low = call_site_low_mark(look4) as u64;
    let ends_to_sizes = |ends: Vec<u64>| -> Vec<u64> {
        let mut sizes = vec![];
        let mut at = 0u64;
        for e in ends {
            if e > at {
                sizes.push(e - at);
                at = e;
            }
        }
        sizes
    };
    match kind {
        0 => (vec![(1, 1)], "sched_all1"),
        1 => (vec![(1, *rng.pick(&[2u64, 3, 4, 5, 7, 8, 13, 16, 19, 20, 21, 23, 64, 100]))], "sched_fixed_small"),
        2 => (vec![(1, *rng.pick(&[1000u64, 4096, 65536]))], "sched_fixed_typical"),
        3 => {
            let max = *rng.pick(&[3u64, 10, 30, 300, 5000, 70000]);
            let n = rng.range(2, 40);
            (sched_from_sizes(&(0..n).map(|_| rng.range(1, max)).collect::<Vec<_>>(), false), "sched_random")
        }
        4 => {
            // every read ends exactly on / one before / one after a message boundary
            let fixed = rng.below(4); // 0: -1, 1: 0, 2: +1, 3: mixed
            let ends: Vec<u64> = bnd.iter().map(|b| {
                let d = if fixed == 3 { rng.below(3) } else { fixed };
                (*b + d).saturating_sub(1)
            }).collect();
            (sched_from_sizes(&ends_to_sizes(ends), true), match fixed { 0 => "sched_boundary_minus1", 1 => "sched_boundary_exact", 2 => "sched_boundary_plus1", _ => "sched_boundary_mixed" })
        }
        5 => {
            // a short read exactly when the buffer is just below / at / just above the low mark: when the largest
            // message is at the front of the buffer, (low mark + d) bytes are buffered; then small slices
            let (d, then) = edge.unwrap_or((rng.range(0, 8) as i64 - 5, *rng.pick(&[1u64, 2, 17, 1000]))); // d in -5..3
            let first = (big_at as i64 + low as i64 + d).max(1) as u64;
            (vec![(1, first), (FULL, then)], "sched_low_mark_edge")
        }
        6 => (vec![], "sched_full_reads"),
        7 => {
            // one large slice, then a few tiny ones, repeated
            let a = *rng.pick(&[64u64, 1000, 4096, 65536, 100000]);
            (vec![(1, a), (rng.range(1, 5), rng.range(1, 3))], "sched_alternating")
        }
        8 => {
            // slices relative to the largest message: one byte less / exactly / one more / half of it
            let t = big.max(2);
            let n = match rng.below(5) { 0 => t - 1, 1 => t, 2 => t + 1, 3 => t / 2, _ => t / 2 + 1 };
            (vec![(1, n.max(1))], "sched_msg_relative")
        }
        _ => {
            // the buffer holds (largest message + d) bytes when that message is at its front, then 1-byte slices
            let (d, then) = edge.unwrap_or((rng.range(0, 4) as i64 - 2, *rng.pick(&[1u64, 3, 1000])));
            let first = (big_at as i64 + big as i64 + d).max(1) as u64;
            (vec![(1, first), (FULL, then)], "sched_msg_edge")
        }
    }
}

/// an in-domain stream with structurally described messages of the given wire sizes
pub fn sized_stream(rng: &mut Rng, framing: u8, sizes: &[usize], garbage: bool) -> Vec<Part> {
    let hdr = if framing == 0 { 16usize } else { 4 };
    let htyps = [0x20u8, 0x3f, 0x35, 0x21, 0x24, 0x31];
    let mut parts = vec![];
    for (i, t) in sizes.iter().enumerate() {
        if garbage && rng.chance(1, 2) {
            let n = rng.range(1, 30) as usize;
            parts.push(Part::G(vec![(1, rbytes(rng, n, 3))]));
        }
        let mut h = *rng.pick(&htyps);
        let mut m = plain(h, b"");
        if hdr + m.hs() > *t {
            h = 0x20;
            m = plain(h, b"");
        }
        let t = (*t).max(hdr + m.hs());
        parts.push(Part::M(sized_msg(framing, t, h, (i as u8).wrapping_mul(37).wrapping_add(5), 0x30 + (i as u8 % 64))));
    }
    if garbage && rng.chance(2, 3) {
        let n = rng.range(1, 19) as usize;
        parts.push(Part::G(vec![(1, rbytes(rng, n, 3))]));
    }
    parts
}

pub fn sliced_family(sink: &mut Sink, rng: &mut Rng, tier: &str) {
    let (quick, search) = (tier == "quick", tier == "search");
    let mult = if quick { 1 } else if search { 2 } else { 8 };
    let pick_ctor = |rng: &mut Rng| -> (u8, &'static str) {
        match rng.below(8) {
            0 | 1 | 2 | 3 => (0, "dlt"),
            4 | 5 => (1, "dlt"),
            6 => (2, *rng.pick(&["dlt", "DLT", "", "bin"])),
            _ => (3, *rng.pick(&["dlt", "DLT", "", "bin"])),
        }
    };
    let stream_of = |inp: &Input| -> Option<(u8, Vec<Part>)> {
        match inp { Input::Stream { framing, parts, .. } => Some((*framing, parts.clone())), _ => None }
    };
    // (a) small generated streams (messages of 8..150 bytes) under slices of a few bytes: every kind of schedule
    let small_kinds = [0u64, 1, 1, 3, 3, 4, 4, 7, 8, 9, 6];
    for k in 0..(150 * mult) {
        let max_payload = *rng.pick(&[24usize, 60, 120]);
        let inp = gen_stream(rng, 6, max_payload, 26);
        let (f, parts) = stream_of(&inp).unwrap();
        let look4 = rng.chance(1, 2);
        let kind = small_kinds[k as usize % small_kinds.len()];
        let (sched, tag) = make_sched(kind, rng, f, &parts, look4);
        let (ctor, ext) = pick_ctor(rng);
        record_sliced(sink, inp, look4, ctor, ext, sched, &["sliced_small", tag]);
    }
    // (b) malformed small streams (resync logic) -- shorter than the low mark, so the reader shows everything left
    for k in 0..(40 * mult) {
        let inp = gen_malformed(rng);
        let kind = [0u64, 1, 3, 7][k as usize % 4];
        let look4 = rng.chance(1, 2);
        let (sched, tag) = make_sched(kind, rng, 0, &[], look4);
        let (ctor, ext) = pick_ctor(rng);
        record_sliced(sink, inp, look4, ctor, ext, sched, &["sliced_malformed", tag]);
    }
    // (c) medium messages (1.2 .. 40 kB, described structurally) larger than typical slices
    let medium_kinds = [2u64, 2, 3, 4, 7, 8, 9, 1, 0];
    for k in 0..(27 * mult) {
        let f = (k % 2) as u8;
        let n = rng.range(2, 5) as usize;
        let mut sizes: Vec<usize> = (0..n).map(|_| match rng.below(4) { 0 => rng.range(20, 200), 1 => rng.range(1200, 5000), 2 => rng.range(5000, 20000), _ => rng.range(20000, 40000) } as usize).collect();
        if !sizes.iter().any(|s| *s > 1200) {
            sizes[0] = rng.range(1200, 40000) as usize;
        }
        let with_garbage = rng.chance(1, 2);
        let parts = sized_stream(rng, f, &sizes, with_garbage);
        let look4 = rng.chance(1, 2);
        let kind = medium_kinds[k as usize % medium_kinds.len()];
        let (sched, tag) = make_sched(kind, rng, f, &parts, look4);
        let (ctor, ext) = pick_ctor(rng);
        record_sliced(sink, Input::Stream { framing: f, start: rng.below(1000) as u32, parts }, look4, ctor, ext, sched, &["sliced_medium", tag]);
    }
    // (d) near-maximum messages behind a few small ones: typical slice sizes, 1-byte slices, slices around the
    //     message's size and boundaries, and short reads when the buffer is just below / at / above the low mark
    let near_kinds = [2u64, 5, 9, 4, 5, 8, 3, 5, 2, 9, 7, 0];
    for k in 0..(if search { 12 } else { 24 * mult }) {
        let f = (k % 2) as u8;
        let hdr = if f == 0 { 16usize } else { 4 };
        let len_big = 65535 - if k % 3 == 0 { 0 } else { rng.below(41) as usize };
        let mut sizes: Vec<usize> = (0..rng.below(3)).map(|_| rng.range(8, 300) as usize).collect();
        sizes.push(hdr + len_big);
        for _ in 0..rng.range(1, 3) {
            sizes.push(rng.range(8, 2500) as usize);
        }
        let parts = sized_stream(rng, f, &sizes, k % 4 >= 2);
        let look4 = (k / 2) % 2 == 1;
        let kind = near_kinds[(k as usize / 2) % near_kinds.len()];
        let (sched, tag) = make_sched(kind, rng, f, &parts, look4);
        let (ctor, ext) = pick_ctor(rng);
        record_sliced(sink, Input::Stream { framing: f, start: 500 + k as u32, parts }, look4, ctor, ext, sched, &["sliced_near_max", tag]);
    }
    // (d') the maximum message at the front of a buffer that holds exactly (low mark + d) resp. (message + d) bytes
    //      when the source delivers a short read: the reader must go on reading iff fewer than low-mark bytes are
    //      buffered (d < 0); deterministic product over framing x low-mark expression x d
    if !search {
        let mut n = 0u32;
        for f in 0..2u8 {
            let hdr = if f == 0 { 16usize } else { 4 };
            for look4 in [false, true] {
                let low_ds: Vec<i64> = if quick { vec![-2, -1, 0, 1] } else { (-20..=20).collect() };
                let msg_ds: Vec<i64> = if quick { vec![-1, 0, 1] } else { (-20..=20).collect() };
                for (kind, ds) in [(5u64, low_ds), (9u64, msg_ds)] {
                    for d in ds {
                        n += 1;
                        let mut sizes: Vec<usize> = if n % 2 == 0 { vec![] } else { vec![hdr + 9, 77] };
                        sizes.push(hdr + 65535);
                        sizes.push(hdr + 5);
                        sizes.push(1500);
                        let parts = sized_stream(rng, f, &sizes, n % 3 == 0);
                        let then = [1u64, 1000, 4096][(n % 3) as usize];
                        let (sched, tag) = make_sched_d(kind, rng, f, &parts, look4, Some((d, then)));
                        let (ctor, ext) = pick_ctor(rng);
                        record_sliced(sink, Input::Stream { framing: f, start: 3000 + n, parts }, look4, ctor, ext, sched, &["sliced_edge", tag]);
                    }
                }
            }
        }
    }
    // (e) streams longer than the buffer (compaction happens between sliced refills)
    for k in 0..(if quick { 4 } else if search { 2 } else { 16 }) {
        let f = (k % 2) as u8;
        let hdr = if f == 0 { 16usize } else { 4 };
        let mut sizes: Vec<usize> = vec![hdr + 9];
        while sizes.iter().sum::<usize>() < CALL_SITE_CAPACITY + 70000 {
            sizes.push(hdr + *rng.pick(&[60000usize, 65535, 30000, 65000]));
            if rng.chance(1, 3) {
                sizes.push(rng.range(8, 100) as usize);
            }
        }
        let parts = sized_stream(rng, f, &sizes, k % 2 == 1);
        let look4 = (k / 2) % 2 == 1;
        let kind = [2u64, 7, 3, 8][k as usize % 4];
        let (sched, tag) = make_sched(kind, rng, f, &parts, look4);
        let (ctor, ext) = pick_ctor(rng);
        record_sliced(sink, Input::Stream { framing: f, start: 7000 + k as u32, parts }, look4, ctor, ext, sched, &["sliced_long", tag]);
    }
}

// ------------------------------------------------------------------ the probe of an input file
/// `adlt::utils::get_dlt_infos_from_read` / `get_dlt_infos_from_file`: the entry point through which `adlt convert`
/// (resolve_input_filename) and `adlt remote` (file_names_to_file_streams) look at every input file first -- one
/// read() of at most `read_size` bytes, the DLT iterator over them, first message + the set of ECU ids.  A file whose
/// probe has no first message is dropped by the callers; `ecus_seen` decides how files are grouped into streams.
/// The call sites pass 512 KiB.
pub const CALL_SITE_PROBE_SIZE: usize = 512 * 1024;

#[derive(Clone, Debug)]
pub struct ProbeSpec {
    pub read_size: usize,
    /// the source delivers at most this many bytes in its first read() (None: a regular file / Cursor)
    pub first_read: Option<u64>,
    pub ext: String,
    /// get_dlt_infos_from_file on a temporary file instead of get_dlt_infos_from_read
    pub via_file: bool,
    pub with_len: bool,
    pub with_mtime: bool,
}
impl ProbeSpec {
    pub fn json(&self) -> Value {
        json!({"read_size": self.read_size, "first_read": self.first_read, "ext": self.ext, "via_file": self.via_file,
            "with_len": self.with_len, "with_mtime": self.with_mtime})
    }
    pub fn from_json(v: &Value) -> ProbeSpec {
        ProbeSpec { read_size: v["read_size"].as_u64().unwrap() as usize, first_read: v["first_read"].as_u64(), ext: v["ext"].as_str().unwrap_or("dlt").to_string(),
            via_file: v["via_file"].as_bool().unwrap_or(false), with_len: v["with_len"].as_bool().unwrap_or(false), with_mtime: v["with_mtime"].as_bool().unwrap_or(false) }
    }
    /// the bytes the probe is asked to look at
    pub fn range(&self, total: usize) -> usize {
        let mut r = self.read_size.min(total);
        if let Some(f) = self.first_read {
            if self.read_size > 0 {
                r = r.min(f.max(1) as usize);
            }
        }
        r
    }
}

pub struct ProbeRun {
    pub first: Option<Item>,
    /// DltFileInfos.ecus_seen, sorted
    pub ecus: Vec<[u8; 4]>,
    pub read_size: usize,
    pub file_len: Option<u64>,
    pub mtime: Option<u64>,
    pub namespace: u32,
    /// bytes taken from the source
    pub consumed: usize,
}

pub const PROBE_MTIME: u64 = 1_700_000_000_123_456;

pub fn run_probe(data: &[u8], sp: &ProbeSpec, ns: u32) -> Result<ProbeRun, String> {
    let data = data.to_vec();
    let sp = sp.clone();
    catch_loc(std::panic::AssertUnwindSafe(move || {
        let total = data.len();
        let (dfi, consumed) = if sp.via_file {
            use std::io::{Seek, SeekFrom, Write};
            let mut f = tempfile::tempfile().expect("tempfile");
            f.write_all(&data).unwrap();
            f.flush().unwrap();
            f.seek(SeekFrom::Start(0)).unwrap();
            let dfi = adlt::utils::get_dlt_infos_from_file(&sp.ext, &mut f, sp.read_size, ns).expect("probe io");
            let c = f.stream_position().unwrap() as usize;
            (dfi, c)
        } else {
            let file_len = if sp.with_len { Some(total as u64) } else { None };
            let mtime = if sp.with_mtime { Some(PROBE_MTIME) } else { None };
            match sp.first_read {
                None => {
                    let mut cur = Cursor::new(data);
                    let dfi = adlt::utils::get_dlt_infos_from_read(&sp.ext, &mut cur, file_len, mtime, sp.read_size, ns).expect("probe io");
                    let c = cur.position() as usize;
                    (dfi, c)
                }
                Some(first) => {
                    let st = std::rc::Rc::new(std::cell::RefCell::new(ReadStats::default()));
                    let mut src = SlicedSource { data, sched: vec![(1, first.max(1)), (FULL, FULL)], k: 0, used: 0, st: st.clone() };
                    let dfi = adlt::utils::get_dlt_infos_from_read(&sp.ext, &mut src, file_len, mtime, sp.read_size, ns).expect("probe io");
                    let c = st.borrow().pos;
                    (dfi, c)
                }
            }
        };
        let mut ecus: Vec<[u8; 4]> = dfi.ecus_seen.iter().map(|e| *e.as_buf()).collect();
        ecus.sort_by_key(|e| u32::from_be_bytes(*e));
        ProbeRun { first: dfi.first_msg.as_ref().map(item_of), ecus, read_size: dfi.read_size, file_len: dfi.file_len, mtime: dfi.modified_time_us,
            namespace: dfi.namespace, consumed }
    }))
}

/// The property on the probe: whatever lies completely inside the bytes the probe is asked to look at is recovered --
/// its first message IS the stream's first message (all fields), `ecus_seen` is exactly the set of the ECU ids of the
/// messages completely inside that range (none missing, none from beyond), nothing is reported when no message is
/// complete there, at most read_size bytes are taken from the source, the caller's values are passed through.
/// Returns (verdict, in_domain, messages completely in range, range)
pub fn probe_oracle(inp: &Input, b: Option<&Built>, total: usize, sp: &ProbeSpec, ns: u32, r: &Result<ProbeRun, String>) -> (Verdict, bool, usize, usize) {
    let fail = |c: &str, d: String| Verdict::Fail { clause: c.into(), detail: d };
    let range = sp.range(total);
    if let Ok(r) = r {
        if r.consumed > sp.read_size {
            return (fail("probe_reads_at_most_read_size", format!("{} bytes taken from the source, read_size {}", r.consumed, sp.read_size)), false, 0, range);
        }
    }
    let (framing, parts) = match inp {
        Input::Raw { .. } => return (Verdict::Ok, false, 0, range),
        Input::Stream { framing, parts, .. } => (*framing, parts),
    };
    let b = b.unwrap();
    let msgs: Vec<&AMsg> = parts.iter().filter_map(|p| if let Part::M(m) = p { Some(m) } else { None }).collect();
    let wf = msgs.iter().all(|m| m.len() <= 65535);
    let (own, other): (&[u8; 4], &[u8; 4]) = if framing == 0 { (b"DLT\x01", b"DLS\x01") } else { (b"DLS\x01", b"DLT\x01") };
    let clean = pat_positions(&b.data, own) == b.starts && pat_positions(&b.data, other).is_empty();
    let in_domain = wf && clean;
    let hdr = if framing == 0 { 16 } else { 4 };
    let k = msgs.iter().zip(b.starts.iter()).take_while(|(m, s)| **s + hdr + m.len() <= range).count();
    if !in_domain {
        return (Verdict::Ok, false, k, range);
    }
    let r = match r {
        Err(e) => return (fail("no_panic", e.clone()), true, k, range),
        Ok(r) => r,
    };
    if k >= 1 {
        let want = expected(framing, 0, msgs[0]);
        match &r.first {
            None => return (fail("probe_first_message", format!("no first message although the stream's first message occupies bytes {}..{} of the {} bytes probed", b.starts[0], b.starts[0] + hdr + msgs[0].len(), range)), true, k, range),
            Some(it) if *it != want => return (fail("probe_first_message", format!("got {:?} want {:?}", it, want)), true, k, range),
            _ => {}
        }
    } else if let Some(it) = &r.first {
        return (fail("probe_no_message_outside_range", format!("first message {:?} although no message is complete within the {} bytes probed", it, range)), true, k, range);
    }
    let mut want: Vec<[u8; 4]> = msgs[..k].iter().map(|m| expected(framing, 0, m).ecu).collect();
    want.sort_by_key(|e| u32::from_be_bytes(*e));
    want.dedup();
    if r.ecus != want {
        return (fail("probe_ecus_exact", format!("ecus_seen {:?}, the {} messages within the {} bytes probed have {:?}", r.ecus, k, range, want)), true, k, range);
    }
    let want_len = if sp.via_file { Some(total as u64) } else if sp.with_len { Some(total as u64) } else { None };
    let mtime_ok = if sp.via_file { r.mtime.is_some() } else { r.mtime == if sp.with_mtime { Some(PROBE_MTIME) } else { None } };
    if r.read_size != sp.read_size || r.namespace != ns || r.file_len != want_len || !mtime_ok {
        return (fail("probe_infos_passthrough", format!("read_size {} namespace {} file_len {:?} mtime {:?}", r.read_size, r.namespace, r.file_len, r.mtime)), true, k, range);
    }
    (Verdict::Ok, true, k, range)
}

pub fn record_probe(sink: &mut Sink, inp: Input, sp: ProbeSpec, extra_tags: &[&str]) {
    let (built, segs) = match &inp {
        Input::Raw { segs, .. } => (None, segs.clone()),
        Input::Stream { framing, parts, .. } => {
            let b = build(*framing, parts);
            let s = b.segs.clone();
            (Some(b), s)
        }
    };
    let data = match &built {
        Some(b) => b.data.clone(),
        None => flatten(&segs),
    };
    let ns = adlt::utils::get_new_namespace();
    let r = run_probe(&data, &sp, ns);
    let (verdict, in_domain, k, range) = probe_oracle(&inp, built.as_ref(), data.len(), &sp, ns, &r);
    let obs = match &r {
        Ok(r) => O::T(vec![O::L(4), O::opt(r.first.as_ref().map(o_item)), O::T(r.ecus.iter().map(o_c4).collect()), O::n(r.consumed as u64)]),
        Err(_) => O::T(vec![O::L(1)]),
    };
    let input_coq = format!("(WProbe {} {}, 0, {})", sp.read_size, sp.first_read.map(|f| f.max(1)).unwrap_or(FULL), coq_segs(&segs));
    let mut tags: Vec<String> = extra_tags.iter().map(|s| s.to_string()).collect();
    tags.push("probe".into());
    if sp.read_size == CALL_SITE_PROBE_SIZE {
        tags.push("probe_call_site_size".into());
    }
    if sp.via_file {
        tags.push("probe_via_file".into());
    }
    if sp.first_read.is_some() {
        tags.push("probe_short_first_read".into());
    }
    if data.len() > 30000 {
        tags.push("heavy".into());
    }
    let mut nontrivial = false;
    match &inp {
        Input::Raw { .. } => tags.push("raw".into()),
        Input::Stream { framing, parts, .. } => {
            tags.push(if *framing == 0 { "storage".into() } else { "serial".into() });
            tags.push(if in_domain { "in_domain".into() } else { "outside_domain".into() });
            let b = built.as_ref().unwrap();
            let nm = b.starts.len();
            tags.push(format!("probe_in_range{}", k.min(9)));
            if k < nm {
                tags.push("probe_msgs_beyond_range".into());
            }
            if range < data.len() {
                tags.push("probe_range_cuts_stream".into());
            }
            if let Some(s0) = b.starts.first() {
                let hdr = if *framing == 0 { 16 } else { 4 };
                let first_size = parts.iter().find_map(|p| if let Part::M(m) = p { Some(hdr + m.len()) } else { None }).unwrap_or(0);
                tags.push(match *s0 { 0 => "probe_lead0", 1..=999 => "probe_lead_lt1000", 1000..=8191 => "probe_lead_lt8k", 8192..=65535 => "probe_lead_lt64k", _ => "probe_lead_ge64k" }.into());
                tags.push(match first_size { 0..=99 => "probe_first_lt100", 100..=8191 => "probe_first_lt8k", _ => "probe_first_ge8k" }.into());
                if s0 + first_size > range {
                    tags.push("probe_first_not_in_range".into());
                }
            }
            nontrivial = in_domain && k >= 1 && (range < data.len() || k >= 2) && b.garbage_total > 0;
        }
    }
    match &r {
        Ok(r) => {
            tags.push(if r.first.is_some() { "probe_first_some".into() } else { "probe_first_none".into() });
            tags.push(format!("probe_ecus{}", r.ecus.len().min(9)));
        }
        Err(_) => tags.push("panic".into()),
    }
    let mut j = input_json(&inp);
    j["probe"] = sp.json();
    let id = sink.next_id();
    sink.push(Case { id, key: input_coq.clone(), input_coq, input_json: j, obs, verdict, classes: vec![], tags, nontrivial });
}

/// a structurally described message of exactly `total` bytes on the wire whose ECU is `ecu` -- carried in the standard
/// header (with_id) or, storage framing only, in the storage header
pub fn ecu_msg(framing: u8, total: usize, ecu: [u8; 4], with_id: bool, shape: u8, mcnt: u8, fill: u8) -> AMsg {
    let hdr = if framing == 0 { 16usize } else { 4 };
    let with_id = with_id || framing == 1;
    let cands: &[u8] = if with_id { &[0x24, 0x3f, 0x35, 0x2c, 0x26] } else { &[0x20, 0x21, 0x31, 0x38, 0x22] };
    let mut htyp = cands[shape as usize % cands.len()];
    if hdr + plain(htyp, b"").hs() > total {
        htyp = cands[0];
    }
    let total = total.max(hdr + plain(htyp, b"").hs());
    let mut m = sized_msg(framing, total, htyp, mcnt, fill);
    if with_id {
        m.ecu = ecu;
        m.secu = *b"STOR";
    } else {
        m.secu = ecu;
    }
    m
}

pub fn marker_free_run(rng: &mut Rng, n: usize) -> Segs {
    if n == 0 {
        return vec![];
    }
    let block: &[u8] = *rng.pick(&[&[0x55u8][..], &[0u8][..], &b"DL"[..], &b"DLT"[..], &b"DLS\x00"[..], &b"DLT\x02"[..], &[0xffu8, 0x01][..]]);
    let mut s: Segs = vec![];
    let (q, r) = (n / block.len(), n % block.len());
    if q > 0 {
        s.push((q as u64, block.to_vec()));
    }
    if r > 0 {
        // the remainder must not complete a marker with what follows: use a neutral byte
        s.push((r as u64, vec![0x2e]));
    }
    s
}

pub fn marker_free_gap(rng: &mut Rng, lo: u64, hi: u64) -> Segs {
    let n = rng.range(lo, hi) as usize;
    marker_free_run(rng, n)
}

/// the large-scale scenario: `lead` marker-free bytes, a first message of `t1` bytes whose ECU occurs only once, a few
/// messages of other ECUs, then (when the probed range is longer) big filler messages up to the end of the range, a
/// message straddling it and messages behind it with ECUs that occur nowhere else
pub fn probe_big_stream(rng: &mut Rng, f: u8, rs: usize, lead: usize, t1: usize) -> Vec<Part> {
    let hdr = if f == 0 { 16usize } else { 4 };
    let mut parts = vec![];
    if lead > 0 {
        parts.push(Part::G(marker_free_run(rng, lead)));
    }
    let first_with_id = rng.chance(1, 2);
    parts.push(Part::M(ecu_msg(f, t1, *b"FRST", first_with_id, rng.below(5) as u8, 0x11, 0x41)));
    if rng.chance(1, 2) {
        parts.push(Part::G(marker_free_gap(rng, 1, 40)));
    }
    parts.push(Part::M(ecu_msg(f, hdr + rng.range(8, 60) as usize, *b"ECU2", true, rng.below(5) as u8, 0x12, 0x42)));
    parts.push(Part::M(ecu_msg(f, hdr + rng.range(1000, 5000) as usize, *b"ECU3", rng.chance(1, 2), rng.below(5) as u8, 0x13, 0x43)));
    parts.push(Part::G(marker_free_run(rng, 7)));
    parts.push(Part::M(ecu_msg(f, hdr + rng.range(8, 30) as usize, *b"ECU2", true, rng.below(5) as u8, 0x14, 0x44)));
    let mut pos = build(f, &parts).data.len();
    let mut i = 0u8;
    while pos + hdr + 60000 <= rs && i < 12 {
        parts.push(Part::M(ecu_msg(f, hdr + 60000, *b"ECU2", true, i, 0x20 + i, 0x2e)));
        pos += hdr + 60000;
        i += 1;
    }
    if pos < rs {
        // a message that ends within a few bytes of the end of the range (its ECU counts iff it is complete there)
        let d = rng.range(0, 6) as i64 - 3;
        let t = rs as i64 - pos as i64 + d;
        if t >= (hdr + 8) as i64 && t <= (hdr + 65535) as i64 {
            parts.push(Part::M(ecu_msg(f, t as usize, *b"EDGE", true, 1, 0x31, 0x45)));
        } else if t > (hdr + 65535) as i64 {
            parts.push(Part::M(ecu_msg(f, hdr + 30000, *b"ECU3", true, 1, 0x31, 0x45)));
        }
    }
    parts.push(Part::M(ecu_msg(f, hdr + rng.range(8, 3000) as usize, *b"LATE", true, 2, 0x32, 0x46)));
    parts.push(Part::M(ecu_msg(f, hdr + 12, *b"ECU2", true, 3, 0x33, 0x47)));
    if rng.chance(1, 2) {
        parts.push(Part::G(marker_free_gap(rng, 1, 19)));
    }
    parts
}

pub fn probe_family(sink: &mut Sink, rng: &mut Rng, tier: &str) {
    let (quick, search) = (tier == "quick", tier == "search");
    let mult = if quick { 1 } else if search { 2 } else { 8 };
    let pick_ext = |rng: &mut Rng| -> String { rng.pick(&["dlt", "dlt", "DLT", "", "bin"]).to_string() };
    let spec = |rng: &mut Rng, read_size: usize, first_read: Option<u64>| -> ProbeSpec {
        let via_file = first_read.is_none() && rng.chance(1, 5);
        ProbeSpec { read_size, first_read, ext: pick_ext(rng), via_file, with_len: rng.chance(1, 2), with_mtime: rng.chance(1, 2) }
    };
    // (A) every kind of cut: small generated in-domain streams, the end of the probed range at / next to every
    //     message boundary, inside headers and payloads, 0, beyond the end; the range given by read_size or by what
    //     the source delivers in its first read
    for _ in 0..(40 * mult) {
        let max_payload = *rng.pick(&[24usize, 60, 120]);
        let inp = gen_stream(rng, 6, max_payload, 26);
        let (f, parts) = match &inp { Input::Stream { framing, parts, .. } => (*framing, parts.clone()), _ => unreachable!() };
        let (bnd, _, _) = boundaries(f, &parts);
        let total = build(f, &parts).data.len() as u64;
        let mut cuts: Vec<u64> = vec![0, 1, 7, 8, 19, 20, total.saturating_sub(1), total, total + 1, 1_000_000, CALL_SITE_PROBE_SIZE as u64];
        for b in &bnd {
            for d in [-1i64, 0, 1, 4, 5, 16, 21] {
                cuts.push((*b as i64 + d).max(0) as u64);
            }
        }
        for _ in 0..3 {
            let cut = *rng.pick(&cuts);
            let sp = if rng.chance(1, 4) && cut >= 1 {
                let rs = *rng.pick(&[cut as usize + 1, cut as usize + 100, CALL_SITE_PROBE_SIZE]);
                spec(rng, rs, Some(cut))
            } else {
                spec(rng, cut as usize, None)
            };
            record_probe(sink, inp.clone(), sp, &["probe_cuts"]);
        }
    }
    // (B) several ECUs: the ECU of the first message occurs only once; ids carried in the standard header or only in
    //     the storage header; the last message has an ECU of its own as well; range = everything / the call sites' /
    //     cut so that the last one or two messages are outside
    for k in 0..(60 * mult) {
        let f = (k % 2) as u8;
        let hdr = if f == 0 { 16usize } else { 4 };
        let n = rng.range(1, 7) as usize;
        let pool: [[u8; 4]; 4] = [*b"ECU2", *b"ECU3", [0, 0, 0, 0], *b"E\0\0\0"];
        let mut parts = vec![];
        if rng.chance(1, 2) {
            parts.push(Part::G(marker_free_gap(rng, 1, 30)));
        }
        for i in 0..n {
            let ecu = if i == 0 { *b"FRST" } else if i + 1 == n && rng.chance(1, 2) { *b"LAST" } else { *rng.pick(&pool) };
            parts.push(Part::M(ecu_msg(f, hdr + rng.range(4, 60) as usize, ecu, rng.chance(1, 2), rng.below(5) as u8, i as u8, 0x61 + i as u8)));
            if rng.chance(1, 3) {
                parts.push(Part::G(marker_free_gap(rng, 1, 25)));
            }
        }
        let (bnd, _, _) = boundaries(f, &parts);
        let total = build(f, &parts).data.len();
        let rs = match rng.below(4) {
            0 => total + rng.range(0, 100) as usize,
            1 => CALL_SITE_PROBE_SIZE,
            _ => (*rng.pick(&bnd) as i64 + rng.range(0, 2) as i64 - 1).max(0) as usize,
        };
        let sp = if rng.chance(1, 5) && rs >= 1 { spec(rng, CALL_SITE_PROBE_SIZE, Some(rs as u64)) } else { spec(rng, rs, None) };
        record_probe(sink, Input::Stream { framing: f, start: 0, parts }, sp, &["probe_ecus"]);
    }
    // (C) the call sites' scale: long marker-free runs in front of the first message and large first messages, placed
    //     relative to powers of two (what a buffer in between might hold) and to the end of the probed range
    {
        let big = CALL_SITE_PROBE_SIZE;
        let mut specs: Vec<(u8, usize, usize, usize)> = vec![]; // (framing, read_size, lead, size of the first message)
        for f in 0..2u8 {
            let hdr = if f == 0 { 16usize } else { 4 };
            // garbage of some KiB / 64 KiB / nearly the whole range in front of a small first message
            for lead in [4096usize, 9000, 20000, 65537, 131072, 300000] {
                specs.push((f, big, lead + rng.below(50) as usize, hdr + rng.range(4, 80) as usize));
            }
            // a large first message at the very start, and behind some garbage
            for t1 in [hdr + 5000, hdr + 20000, hdr + 65535] {
                specs.push((f, big, 0, t1));
                specs.push((f, big, rng.range(1, 3000) as usize, t1));
            }
            // the first message ends exactly at / one before / one after the end of the probed range
            for d in [-1i64, 0, 1] {
                let t1 = hdr + rng.range(4, 400) as usize;
                specs.push((f, big, (big as i64 - t1 as i64 + d) as usize, t1));
            }
            // the first message starts behind the range
            specs.push((f, big, big + rng.below(30) as usize, hdr + 9));
            // smaller probes, same structure
            for rs in [9000usize, 20000, 70000, 131072] {
                let t1 = hdr + rng.range(4, 300) as usize;
                specs.push((f, rs, rs - t1 - rng.below(3) as usize, t1));
                specs.push((f, rs, rng.below(rs as u64 / 2) as usize, hdr + rng.range(4, (rs / 2) as u64).min(65535) as usize));
            }
        }
        // first message / its end relative to a power of two
        let n_rand = if quick { 28 } else if search { 40 } else { 400 };
        for _ in 0..n_rand {
            let f = rng.below(2) as u8;
            let hdr = if f == 0 { 16usize } else { 4 };
            let rs = *rng.pick(&[big, big, big, 131072, 70000, 20000, 9000, 3000]);
            let p2 = 1usize << rng.range(6, 19);
            let d = rng.range(0, 4) as i64 - 2;
            let t1 = match rng.below(4) { 0 => hdr + 4, 1 => hdr + rng.range(4, 100) as usize, 2 => hdr + rng.range(100, 9000) as usize, _ => hdr + rng.range(9000, 65535) as usize };
            let lead = match rng.below(3) {
                0 => p2 as i64 + d,                  // the first message starts around 2^k
                1 => p2 as i64 + d - t1 as i64,      // ... ends around 2^k
                _ => p2 as i64 + d - (hdr + 4) as i64, // its header ends around 2^k
            };
            if lead < 0 || lead as usize > rs + 64 {
                continue;
            }
            specs.push((f, rs, lead as usize, t1));
        }
        for (f, rs, lead, t1) in specs {
            let parts = probe_big_stream(rng, f, rs, lead, t1);
            let first_read = if rng.chance(1, 8) { Some(rs as u64) } else { None };
            let more = rng.range(1, 5000) as usize;
            let sp = if first_read.is_some() { spec(rng, rs + more, first_read) } else { spec(rng, rs, None) };
            record_probe(sink, Input::Stream { framing: f, start: 0, parts }, sp, &["probe_big"]);
        }
    }
    // (D) malformed streams through the probe (model vs code only)
    for _ in 0..(30 * mult) {
        let inp = gen_malformed(rng);
        let total = match &inp { Input::Raw { segs, .. } => segs_len(segs), _ => 0 };
        let rs = match rng.below(4) { 0 => rng.below(total as u64 + 2) as usize, 1 => CALL_SITE_PROBE_SIZE, _ => total + rng.below(50) as usize };
        let sp = spec(rng, rs, None);
        record_probe(sink, inp, sp, &["probe_malformed"]);
    }
}

/// garbage runs of any length (wave 7): kilobytes .. more than the 512 KiB buffer of marker-free bytes before, between
/// and behind small messages, read through a Cursor, through the crate's wiring with full reads and with sliced reads
/// (the model evaluates such streams with the accelerated iterator, Properties/C01.v C01_fast_iter_equal)
pub fn long_garbage_family(sink: &mut Sink, rng: &mut Rng, tier: &str) {
    let lens: &[usize] = if tier == "quick" { &[5000, 70000, 600000] } else { &[5000, 9000, 70000, 140000, 300000, 600000, 1100000] };
    for f in 0..2u8 {
        let hdr = if f == 0 { 16usize } else { 4 };
        for (j, &len) in lens.iter().enumerate() {
            let mut parts = vec![];
            let at = (j + f as usize) % 3; // where the long run sits: in front / between / behind
            let run = |rng: &mut Rng, long: bool| -> Part { if long { let n = len + rng.below(7) as usize; Part::G(marker_free_run(rng, n)) } else { Part::G(marker_free_gap(rng, 0, 40)) } };
            parts.push(run(rng, at == 0));
            parts.push(Part::M(ecu_msg(f, hdr + rng.range(4, 80) as usize, *b"ECU1", true, rng.below(5) as u8, 1, 0x61)));
            parts.push(run(rng, at == 1));
            parts.push(Part::M(ecu_msg(f, hdr + rng.range(4, 3000) as usize, *b"ECU2", rng.chance(1, 2), rng.below(5) as u8, 2, 0x62)));
            parts.push(Part::M(ecu_msg(f, hdr + 4, *b"ECU1", true, rng.below(5) as u8, 3, 0x63)));
            parts.push(run(rng, at == 2));
            let start = rng.below(1000) as u32;
            match (j + f as usize) % 3 {
                0 => record(sink, Input::Stream { framing: f, start, parts }, &["long_garbage", "heavy"]),
                1 => record_wired(sink, f, start, parts, rng.chance(1, 2), &["long_garbage"]),
                _ => {
                    let look4 = rng.chance(1, 2);
                    let (sched, tag) = make_sched(*rng.pick(&[2u64, 3, 7]), rng, f, &parts, look4);
                    record_sliced(sink, Input::Stream { framing: f, start, parts }, look4, (j % 2) as u8, "dlt", sched, &["long_garbage", tag]);
                }
            }
        }
    }
}

// ------------------------------------------------------------------ generators
pub fn r4(rng: &mut Rng) -> [u8; 4] {
    match rng.below(4) {
        0 => [b'E', b'C', b'U', b'0' + rng.below(10) as u8],
        1 => [rng.below(256) as u8, 0, 0, 0],
        _ => [rng.below(256) as u8, rng.below(256) as u8, rng.below(256) as u8, rng.below(256) as u8],
    }
}
pub fn rbytes(rng: &mut Rng, n: usize, mode: u64) -> Vec<u8> {
    // mode 0: uniform; 1: small alphabet made of marker letters; 2: zeros/ff; 3: printable
    (0..n)
        .map(|_| match mode {
            0 => rng.below(256) as u8,
            1 => *rng.pick(&[b'D', b'L', b'T', b'S', 1u8, 0u8]),
            2 => *rng.pick(&[0u8, 0xff]),
            _ => rng.range(0x20, 0x7e) as u8,
        })
        .collect()
}
/// special values for 4-byte id fields: the property quantifies over "any counter and id bytes", so patterns an
/// implementation might treat specially must be frequent: all zero, all 0xff, leading / trailing zero, ASCII with
/// an embedded NUL, the storage header's own ECU id, and (rarely: they put the stream outside the recovery
/// theorem's domain, where only model and code are compared) the frame markers themselves
pub fn special4(rng: &mut Rng, secu: &[u8; 4]) -> [u8; 4] {
    let x = |rng: &mut Rng| rng.range(0x41, 0x5a) as u8;
    match rng.below(13) {
        0 | 1 => [0, 0, 0, 0],
        2 | 3 => [0xff; 4],
        4 => [0, x(rng), x(rng), x(rng)],
        5 => [x(rng), x(rng), x(rng), 0],
        6 => [x(rng), 0, x(rng), 0],
        7 => [x(rng), x(rng), 0, 0],
        8 | 9 | 10 => *secu,
        11 => *b"DLT\x01",
        _ => *b"DLS\x01",
    }
}
/// an id field: with probability 1/6 a special value, else as before
pub fn id4(rng: &mut Rng, secu: &[u8; 4]) -> [u8; 4] {
    if rng.chance(1, 6) {
        special4(rng, secu)
    } else {
        r4(rng)
    }
}
pub fn num32(rng: &mut Rng) -> u32 {
    if rng.chance(1, 6) {
        *rng.pick(&[0u32, u32::MAX, 1, 0x0100_0000, 0x00ff_ffff])
    } else {
        match rng.below(4) { 0 => 0, 1 => u32::MAX, _ => rng.next() as u32 }
    }
}
pub fn byte8(rng: &mut Rng) -> u8 {
    if rng.chance(1, 6) {
        *rng.pick(&[0u8, 255])
    } else {
        rng.below(256) as u8
    }
}
pub fn gen_msg(rng: &mut Rng, max_payload: usize) -> AMsg {
    let htyp = match rng.below(6) {
        0 => 0x20 | (rng.below(32) as u8),
        1 => 0x35,
        2 => 0x21,
        _ => rng.below(256) as u8,
    };
    let n = rng.size(max_payload as u64) as usize;
    let mode = rng.below(4);
    let payload = if n == 0 { vec![] } else { vec![(1u64, rbytes(rng, n, mode))] };
    // the storage header's ECU id first (its own special pool: no "own value" there)
    let secu = if rng.chance(1, 6) { special4(rng, &[0, 0, 0, 0]) } else { r4(rng) };
    AMsg {
        secs: num32(rng),
        micros: if rng.chance(1, 6) { *rng.pick(&[0u32, 999_999, 1_000_000, u32::MAX]) } else { match rng.below(5) { 0 => 0, 1 => 999_999, 2 => u32::MAX, 3 => rng.next() as u32, _ => rng.below(1_000_000) as u32 } },
        secu,
        htyp,
        mcnt: byte8(rng),
        ecu: id4(rng, &secu),
        sid: id4(rng, &secu),
        ts: num32(rng),
        vmm: byte8(rng),
        noar: byte8(rng),
        apid: id4(rng, &secu),
        ctid: id4(rng, &secu),
        payload,
    }
}
pub fn gen_garbage(rng: &mut Rng, max: usize) -> Segs {
    let n = rng.size(max as u64) as usize;
    if n == 0 {
        return vec![];
    }
    let mode = rng.below(5);
    let mut v = if mode == 4 {
        // prefixes of the markers
        let mut v = vec![];
        while v.len() < n {
            let p: &[u8] = *rng.pick(&[&b"DLT"[..], &b"DLS"[..], &b"DL"[..], &b"D"[..], &b"LT\x01"[..], &b"LS\x01"[..], &b"\x01"[..]]);
            v.extend_from_slice(p);
            v.push(rng.below(256) as u8);
        }
        v
    } else {
        rbytes(rng, n, mode)
    };
    v.truncate(n);
    vec![(1, v)]
}
pub fn gen_stream(rng: &mut Rng, max_msgs: u64, max_payload: usize, max_garbage: usize) -> Input {
    let framing = rng.below(2) as u8;
    let n = rng.size(max_msgs);
    let garbage_mode = rng.below(4); // 0 none, 1 everywhere, 2 only between, 3 random
    let mut parts = vec![];
    for k in 0..n {
        let want = match garbage_mode {
            0 => false,
            1 => true,
            2 => k > 0,
            _ => rng.chance(1, 2),
        };
        if want {
            parts.push(Part::G(gen_garbage(rng, max_garbage)));
        }
        parts.push(Part::M(gen_msg(rng, max_payload)));
    }
    if matches!(garbage_mode, 1 | 3) && rng.chance(2, 3) {
        parts.push(Part::G(gen_garbage(rng, max_garbage)));
    }
    let start = match rng.below(8) {
        0 => 0,
        1 => u32::MAX - rng.below(4) as u32,
        _ => rng.below(100_000) as u32,
    };
    Input::Stream { framing, start, parts }
}
/// malformed family: valid streams damaged in ways that exercise the resync logic
pub fn gen_malformed(rng: &mut Rng) -> Input {
    let start = rng.below(1000) as u32;
    let base = gen_stream(rng, 5, 24, 12);
    let (framing, parts) = match base {
        Input::Stream { framing, parts, .. } => (framing, parts),
        _ => unreachable!(),
    };
    let mut data = build(framing, &parts).data;
    match rng.below(7) {
        0 => {
            // pure noise with markers sprinkled in
            let (n0, m0) = (rng.range(0, 80) as usize, rng.below(2));
            data = rbytes(rng, n0, m0);
            for _ in 0..rng.below(4) {
                let p = rng.below(data.len() as u64 + 1) as usize;
                let m: &[u8] = if rng.chance(1, 2) { b"DLT\x01" } else { b"DLS\x01" };
                data.splice(p..p, m.iter().cloned());
            }
        }
        1 => {
            // truncation
            let k = rng.below(data.len() as u64 + 1) as usize;
            data.truncate(k);
        }
        2 => {
            // marker inside (overwrite 4 bytes somewhere)
            if data.len() >= 4 {
                let p = rng.below(data.len() as u64 - 3) as usize;
                let m: &[u8] = if rng.chance(1, 2) { b"DLT\x01" } else { b"DLS\x01" };
                data[p..p + 4].copy_from_slice(m);
            }
        }
        3 => {
            // the other framing appended / prepended
            let other = gen_stream(rng, 3, 16, 8);
            if let Input::Stream { parts: p2, .. } = other {
                let d2 = build(1 - framing, &p2).data;
                if rng.chance(1, 2) {
                    data.extend_from_slice(&d2);
                } else {
                    let mut d = d2;
                    d.extend_from_slice(&data);
                    data = d;
                }
            }
        }
        4 => {
            // random byte flips
            for _ in 0..rng.range(1, 4) {
                if !data.is_empty() {
                    let p = rng.below(data.len() as u64) as usize;
                    data[p] = rng.below(256) as u8;
                }
            }
        }
        5 => {
            // drop a byte range
            if data.len() > 2 {
                let p = rng.below(data.len() as u64 - 1) as usize;
                let q = (p + rng.range(1, 6) as usize).min(data.len());
                data.drain(p..q);
            }
        }
        _ => {
            // corrupt a length field: find a marker and rewrite the len bytes after it
            let pos = pat_positions(&data, if framing == 0 { b"DLT\x01" } else { b"DLS\x01" });
            if let Some(p) = pos.first() {
                let o = p + if framing == 0 { 18 } else { 6 };
                if o + 1 < data.len() {
                    let v: u16 = match rng.below(3) { 0 => rng.below(30) as u16, 1 => 0xffff, _ => rng.next() as u16 };
                    data[o..o + 2].copy_from_slice(&v.to_be_bytes());
                }
            }
        }
    }
    Input::Raw { start, segs: if data.is_empty() { vec![] } else { vec![(1, data)] } }
}

pub fn plain(htyp: u8, payload: &[u8]) -> AMsg {
    AMsg { secs: 1_700_000_000, micros: 123_456, secu: *b"ECU1", htyp, mcnt: 7, ecu: *b"ECUX", sid: [0, 0, 0, 9], ts: 0x01020304, vmm: 0x41, noar: 1,
        apid: *b"APID", ctid: *b"CTID", payload: if payload.is_empty() { vec![] } else { vec![(1, payload.to_vec())] } }
}

pub fn corpus(sink: &mut Sink) {
    // C01-1 (DESIGN appendix A): one 11 byte serial message -- the repaired defect
    record(sink, Input::Raw { start: 0, segs: vec![(1, b"DLS\x01\x20\x07\x00\x07abc".to_vec())] }, &["corpus", "c01_1"]);
    record(sink, Input::Stream { framing: 1, start: 0, parts: vec![Part::M(plain(0x20, b"abc"))] }, &["corpus", "c01_1"]);
    record(sink, Input::Stream { framing: 1, start: 5, parts: vec![Part::G(vec![(1, vec![1, 2, 3])]), Part::M(plain(0x20, b"abcd")), Part::G(vec![(1, vec![9; 7])])] }, &["corpus", "c01_1"]);
    record(sink, Input::Stream { framing: 1, start: 5, parts: vec![Part::M(plain(0x20, b"")), Part::M(plain(0x20, b""))] }, &["corpus", "c01_1"]);
    // non-vacuity example of Properties/C01.v: three messages, garbage on all sides, both framings
    for f in 0..2u8 {
        record(sink, Input::Stream { framing: f, start: 10, parts: vec![
            Part::G(vec![(1, vec![1, 2, 3])]), Part::M(plain(0x35, b"ab")), Part::G(vec![(1, b"DLT".to_vec())]),
            Part::M(plain(0x20, b"")), Part::M(plain(0x3f, b"xyz")), Part::G(vec![(1, vec![0; 25])])] }, &["corpus"]);
    }
    // empty input, garbage only, a lone marker
    record(sink, Input::Raw { start: 3, segs: vec![] }, &["corpus"]);
    record(sink, Input::Stream { framing: 0, start: 3, parts: vec![Part::G(vec![(30, vec![0x55])])] }, &["corpus"]);
    record(sink, Input::Stream { framing: 1, start: 3, parts: vec![Part::G(vec![(30, vec![0x55])])] }, &["corpus"]);
    record(sink, Input::Raw { start: 3, segs: vec![(1, b"DLT\x01".to_vec())] }, &["corpus"]);
    // repaired position dependence (/repo 9045554, found by C04): a storage header announcing more bytes than remain
    // stops a fresh iterator as it stops a latched one: whole stream 1 message, fresh iterator on the suffix 0
    {
        let prefix: Vec<u8> = b"DLT\x01\0\0\0\0\0\0\0\0ECU1\x20\x00\x00\x04".to_vec();
        let mut suffix: Vec<u8> = b"DLT\x01\0\0\0\0\0\0\0\0ECU1\x20\x00\x20\x04".to_vec();
        suffix.extend_from_slice(b"DLT\x01\0\0\0\0\0\0\0\0ECU1\x20\x01\x00\x08\x09\x09\x09\x09");
        let mut whole = prefix.clone();
        whole.extend_from_slice(&suffix);
        for (start, data, want) in [(0u32, whole, 1usize), (1u32, suffix, 0usize)] {
            record(sink, Input::Raw { start, segs: vec![(1, data)] }, &["corpus", "incomplete_storage_frame"]);
            // expectation stated here (raw inputs have no ground truth): the number of messages yielded
            let c = sink.cases.last_mut().unwrap();
            let got = match &c.obs { O::T(v) if v.len() >= 2 => match &v[1] { O::T(ms) => ms.len(), _ => usize::MAX }, _ => usize::MAX };
            if got != want {
                c.verdict = Verdict::Fail { clause: "incomplete_storage_frame_stops_fresh_and_latched_alike".into(), detail: format!("{} messages yielded, expected {}", got, want) };
            }
        }
    }
    // index overflow
    record(sink, Input::Stream { framing: 0, start: u32::MAX, parts: vec![Part::M(plain(0x20, b""))] }, &["corpus"]);
    record(sink, Input::Stream { framing: 0, start: u32::MAX - 1, parts: vec![Part::M(plain(0x20, b""))] }, &["corpus"]);
    // payload containing a marker, followed by marker / by garbage / by nothing (heuristic)
    for tail in 0..3 {
        let mut parts = vec![Part::M(plain(0x21, b"xxDLT\x01yy"))];
        if tail == 1 {
            parts.push(Part::M(plain(0x20, b"")));
        }
        if tail == 2 {
            parts.push(Part::G(vec![(1, vec![0; 6])]));
        }
        record(sink, Input::Stream { framing: 0, start: 0, parts }, &["corpus", "marker_in_payload"]);
    }
}

/// the next-marker plausibility heuristic: a message that contains its own frame marker (inside the storage
/// header at offsets 4 and 5, at the start / the end of the payload, straddling the end of the message by 1..3
/// bytes) followed by 0..6 bytes that are not / are a marker.  Outside the property's domain; model vs code only.
pub fn heuristic_product(sink: &mut Sink) {
    for f in 0..2u8 {
        let marker: &[u8; 4] = if f == 0 { b"DLT\x01" } else { b"DLS\x01" };
        // (payload, bytes of the marker that spill over the end of the message)
        let mut shapes: Vec<(AMsg, usize)> = vec![];
        let mut pl = marker.to_vec();
        pl.extend_from_slice(b"xy");
        shapes.push((plain(0x20, &pl), 0)); // marker at payload start
        let mut pl = b"xy".to_vec();
        pl.extend_from_slice(marker);
        shapes.push((plain(0x21, &pl), 0)); // marker ends with the message
        for spill in 1..4usize {
            let mut pl = b"q".to_vec();
            pl.extend_from_slice(&marker[..4 - spill]);
            shapes.push((plain(0x20, &pl), spill));
        }
        if f == 0 {
            let mut m = plain(0x20, b"ab");
            m.secs = u32::from_le_bytes(*marker); // marker at offset 4: never scanned
            shapes.push((m, 0));
            let mut m = plain(0x20, b"ab");
            m.secs = u32::from_le_bytes([0, marker[0], marker[1], marker[2]]);
            m.micros = marker[3] as u32; // marker at offset 5: first scanned position
            shapes.push((m, 0));
        }
        if f == 1 {
            // serial: marker at offset 5 = mcnt 'L'.. no: htyp, then mcnt = 'D', len = "LS" (19539), first payload byte 1
            let mut m = plain(0x20, b"");
            m.mcnt = marker[0];
            m.payload = vec![(1, vec![marker[3]]), (19539 - 4 - 1, vec![0x2e])];
            assert_eq!(m.len(), 0x4c53);
            shapes.push((m, 0));
        }
        for (m, spill) in shapes {
            let big = m.len() > 1000;
            for k in 0..7usize {
                if big && !(k == 0 || k == 4 || k == 5) {
                    continue;
                }
                for kind in 0..2 {
                    let mut segs: Segs = vec![];
                    m.enc(f, &mut segs);
                    let mut tail: Vec<u8> = marker[4 - spill..].to_vec();
                    if kind == 0 {
                        tail.extend(std::iter::repeat(0x30u8).take(k));
                    } else {
                        // a complete following message (so a marker follows right after the spill-over bytes)
                        let mut s2: Segs = vec![];
                        plain(0x20, b"").enc(f, &mut s2);
                        tail.extend_from_slice(&flatten(&s2));
                        tail.extend(std::iter::repeat(0x31u8).take(k));
                    }
                    push_bytes(&mut segs, &tail);
                    record(sink, Input::Raw { start: 0, segs }, &["heuristic_product"]);
                }
            }
        }
    }
}

/// every special id / counter pattern in every id-like field, for header shapes with and without each optional part
pub fn special_product(sink: &mut Sink) {
    let secu = *b"ECU1";
    let pool: [[u8; 4]; 8] = [[0; 4], [0xff; 4], [0, b'B', b'C', b'D'], [b'A', b'B', b'C', 0], [b'A', 0, b'C', 0], [b'A', b'B', 0, 0], secu, [0, 0, 0, 1]];
    for f in 0..2u8 {
        for htyp in [0x3fu8, 0x24, 0x2c, 0x35, 0x21, 0x38] {
            for k in 0..pool.len() * 4 {
                // rotation r: every pool value visits every id field
                let (k, r) = (k % pool.len(), k / pool.len());
                let sp = &pool[(k + r) % pool.len()];
                let mut m1 = plain(htyp, b"ab");
                m1.secu = secu;
                m1.ecu = pool[(k + r) % pool.len()];
                m1.sid = pool[(k + r + 1) % pool.len()];
                m1.apid = pool[(k + 2 * r + 2) % pool.len()];
                m1.ctid = pool[(k + 3 * r + 3) % pool.len()];
                m1.mcnt = if k % 2 == 0 { 0 } else { 255 };
                m1.ts = if k % 3 == 0 { 0 } else if k % 3 == 1 { u32::MAX } else { 1 };
                m1.noar = if k % 2 == 0 { 0 } else { 255 };
                m1.vmm = if k % 4 < 2 { 0 } else { 255 };
                let mut m2 = plain(htyp, b"");
                m2.secu = *sp; // special storage-header ECU as well
                m2.ecu = secu;
                m2.secs = if k % 2 == 0 { 0 } else { u32::MAX };
                m2.micros = if k % 2 == 0 { u32::MAX } else { 0 };
                let parts = vec![Part::G(vec![(1, vec![0x11, 0x22])]), Part::M(m1), Part::M(m2), Part::G(vec![(1, vec![0x33])])];
                record(sink, Input::Stream { framing: f, start: 7, parts }, &["special_product"]);
            }
        }
    }
}

pub fn near_max(sink: &mut Sink, rng: &mut Rng) {
    for f in 0..2u8 {
        for htyp in [0x20u8, 0x3f] {
            let mut m = plain(htyp, b"");
            let hs = m.hs();
            m.payload = vec![(1, vec![1, 2, 3]), ((65535 - hs - 3) as u64, vec![rng.below(256) as u8])];
            let mut m2 = plain(0x21, b"");
            m2.payload = vec![(30000, vec![0xaa, 0x55])];
            record(sink, Input::Stream { framing: f, start: 1, parts: vec![Part::G(vec![(1, vec![7; 5])]), Part::M(m), Part::M(plain(0x20, b"z")), Part::M(m2), Part::G(vec![(3, vec![0xfe])])] }, &["near_max"]);
        }
    }
}

pub fn flag_product(sink: &mut Sink, rng: &mut Rng, all_garbage_lengths: bool) {
    // all 32 flag sets x both byte orders are the low 5 bits + bit 1 of htyp = all values 0..63 (version bits vary too)
    for f in 0..2u8 {
        for low in 0..32u8 {
            let vers = (rng.below(8) as u8) << 5;
            let lens: Vec<usize> = if all_garbage_lengths { (0..25).collect() } else { vec![rng.below(25) as usize] };
            for gl in lens {
                for pl in 0..3usize {
                    if !all_garbage_lengths && pl != (low as usize + gl) % 3 {
                        continue;
                    }
                    let mut m1 = gen_msg(rng, 0);
                    m1.htyp = vers | low;
                    m1.payload = if pl == 0 { vec![] } else { vec![(1, rbytes(rng, pl, 3))] };
                    let mut m2 = gen_msg(rng, 2);
                    m2.htyp = (m2.htyp & 0xe0) | low;
                    let g = |rng: &mut Rng, n: usize| -> Part { Part::G(if n == 0 { vec![] } else { vec![(1, rbytes(rng, n, 3))] }) };
                    let pos = (low as usize + gl + pl) % 3;
                    let parts = match pos {
                        0 => vec![g(rng, gl), Part::M(m1), Part::M(m2)],
                        1 => vec![Part::M(m1), g(rng, gl), Part::M(m2)],
                        _ => vec![Part::M(m1), Part::M(m2), g(rng, gl)],
                    };
                    record(sink, Input::Stream { framing: f, start: 100, parts }, &["flag_product"]);
                }
            }
        }
    }
}

fn main() {
    let a = parse_args();
    let mut sink = Sink::new("C01", &a.out);
    sink.shard_size = 24;
    if let Some(p) = &a.replay {
        let v = read_replay(p);
        let c = &v["case"];
        if c.get("probe").is_some() {
            record_probe(&mut sink, input_from_json(c), ProbeSpec::from_json(&c["probe"]), &["replay"]);
        } else if c.get("sliced").is_some() {
            let w = &c["sliced"];
            record_sliced(&mut sink, input_from_json(c), w["look4"].as_bool().unwrap_or(false), w["ctor"].as_u64().unwrap_or(0) as u8,
                w["ext"].as_str().unwrap_or("dlt"), sched_of(&w["sched"]), &["replay"]);
        } else if c.get("wiring").is_some() {
            if let Input::Stream { framing, start, parts } = input_from_json(c) {
                record_wired(&mut sink, framing, start, parts, c["wiring"]["look4"].as_bool().unwrap_or(false), &["replay"]);
            }
        } else {
            record(&mut sink, input_from_json(c), &["replay"]);
        }
        sink.finish();
        return;
    }
    let mut rng = Rng::new(a.seed);
    let quick = a.tier == "quick";
    if a.tier != "search" {
        corpus(&mut sink);
        near_max(&mut sink, &mut rng);
        heuristic_product(&mut sink);
        special_product(&mut sink);
        flag_product(&mut sink, &mut rng, false);
    }
    let n = a.count.unwrap_or(if quick { 360 } else if a.tier == "search" { 1500 } else { 6000 });
    for k in 0..n {
        let inp = if k % 3 == 2 { gen_malformed(&mut rng) } else if quick { gen_stream(&mut rng, 6, 24, 26) } else { gen_stream(&mut rng, 12, 64, 40) };
        record(&mut sink, inp, &[]);
    }
    if a.tier == "thorough" {
        flag_product(&mut sink, &mut rng, true);
    }
    wired_family(&mut sink, &mut rng, &a.tier);
    sliced_family(&mut sink, &mut rng, &a.tier);
    probe_family(&mut sink, &mut rng, &a.tier);
    if a.tier != "search" {
        long_garbage_family(&mut sink, &mut rng, &a.tier);
    }
    // the buffered cases are expensive for the model (streams > 512 KiB, near-maximum messages): spread them evenly over the shards
    let (wired, mut other): (Vec<Case>, Vec<Case>) = std::mem::take(&mut sink.cases).into_iter().partition(|c| c.tags.iter().any(|t| t == "wired" || t == "heavy"));
    let step = (other.len() / wired.len().max(1)).max(1);
    let mut merged = vec![];
    let mut w = wired.into_iter();
    other.reverse();
    let mut k = 0;
    while let Some(c) = other.pop() {
        merged.push(c);
        k += 1;
        if k % step == 0 {
            if let Some(x) = w.next() {
                merged.push(x);
            }
        }
    }
    merged.extend(w);
    sink.cases = merged;
    sink.finish();
}
