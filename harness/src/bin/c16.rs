//! C16 — remote streams: StreamContext / process_stream_new_msgs (library level), the real `adlt remote`
//! over a websocket (send step, window change, search paging, lookups), std binary search vs Remote/Stream.v
use adlt::dlt::{DltChar4, DltExtendedHeader, DltMessage, DltStandardHeader};
use adlt::utils::remote_types::{self, BinType};
use adlt::utils::remote_utils::{process_stream_new_msgs, StreamContext};
use serde::{Deserialize, Serialize};
use std::collections::BTreeMap;
use std::io::{BufRead, BufReader, Write};
use std::net::TcpStream;
use std::process::{Child, Command, Stdio};
use std::time::{Duration, Instant};
use tungstenite::stream::MaybeTlsStream;
use tungstenite::{Message, WebSocket};
use vharness::*;

const BINCODE_CONFIG: bincode::config::Configuration<bincode::config::LittleEndian, bincode::config::Fixint, bincode::config::NoLimit> =
    bincode::config::legacy();
const BASE_US: u64 = 1_700_000_000_000_000;

// ---------------------------------------------------------------- concrete filters
/// (type, field, value, enabled) as a command carries them.
/// type: 0 positive, 1 negative, 2 marker, 3 event.  field 0 ecu, 1 apid, 2 ctid: one criterion "field == value";
/// field 3: two criteria in one filter, apid == value % 3 AND ctid == value / 3.
/// enabled: 0 = "enabled":false, 1 = no "enabled" key (the default: enabled), 2 = "enabled":true
type CF = (u8, u8, u8, u8);

fn field_name(field: u8) -> &'static str {
    match field {
        0 => "ecu",
        1 => "apid",
        _ => "ctid",
    }
}
fn c4name(field: u8, v: u8) -> String {
    let p = match field {
        0 => "ECU",
        1 => "APP",
        _ => "CTX",
    };
    format!("{}{}", p, v % 10)
}
fn c4(field: u8, v: u8) -> DltChar4 {
    DltChar4::from_buf(c4name(field, v).as_bytes())
}
fn cf_json(f: &CF) -> Value {
    let mut o = serde_json::Map::new();
    o.insert("type".into(), json!(f.0));
    if f.1 <= 2 {
        o.insert(field_name(f.1).into(), json!(c4name(f.1, f.2)));
    } else {
        o.insert("apid".into(), json!(c4name(1, f.2 % 3)));
        o.insert("ctid".into(), json!(c4name(2, f.2 / 3)));
    }
    match f.3 {
        0 => {
            o.insert("enabled".into(), json!(false));
        }
        2 => {
            o.insert("enabled".into(), json!(true));
        }
        _ => {}
    }
    Value::Object(o)
}
fn cfs_json(fs: &[CF]) -> Value {
    Value::Array(fs.iter().map(cf_json).collect())
}
fn cfs_coq(fs: &[CF]) -> String {
    clist(&fs.iter().map(|f| format!("({}, {}, {}, {})", f.0, f.1, f.2, f.3)).collect::<Vec<_>>())
}
/// the criteria of one filter on a message with (ecu, apid, ctid)
fn cf_hit(f: &CF, e: u8, a: u8, c: u8) -> bool {
    match f.1 {
        0 => e % 10 == f.2 % 10,
        1 => a % 10 == f.2 % 10,
        2 => c % 10 == f.2 % 10,
        _ => a % 10 == f.2 % 3 && c % 10 == f.2 / 3,
    }
}
/// the ENABLED filters of one kind
fn cf_kind(fs: &[CF], t: u8) -> Vec<&CF> {
    fs.iter().filter(|f| f.0 == t && f.3 != 0).collect()
}
/// the harness' own statement of which messages a filter set selects (the property's "filtered message sequence" /
/// "matching positions"), from the set semantics of the enabled filters: positive = OR (none: pass), negative = veto,
/// event = at least one matches when any exist; disabled and marker filters do not count
fn cf_match(fs: &[CF], e: u8, a: u8, c: u8) -> bool {
    let (pos, neg, ev) = (cf_kind(fs, 0), cf_kind(fs, 1), cf_kind(fs, 3));
    let pos_ok = pos.is_empty() || pos.iter().filter(|f| cf_hit(f, e, a, c)).count() >= 1;
    let vetoed = neg.iter().filter(|f| cf_hit(f, e, a, c)).count() >= 1;
    let ev_ok = ev.is_empty() || ev.iter().filter(|f| cf_hit(f, e, a, c)).count() >= 1;
    pos_ok && !vetoed && ev_ok
}
fn cf_active(fs: &[CF]) -> bool {
    fs.iter().any(|f| (f.0 == 0 || f.0 == 1 || f.0 == 3) && f.3 != 0)
}
fn gen_crit(rng: &mut Rng) -> (u8, u8) {
    match rng.below(10) {
        0..=1 => (0, 1 + rng.below(2) as u8),
        2..=5 => (1, rng.below(3) as u8),
        6..=7 => (2, rng.below(2) as u8),
        _ => (3, rng.below(6) as u8),
    }
}
/// number of filters of one kind for class 0..3: 0, 1, 2, "3 or more"
fn class_count(rng: &mut Rng, class: u8) -> usize {
    match class {
        0..=2 => class as usize,
        _ => 3 + rng.below(2) as usize,
    }
}
/// how the filters of a set are enabled: 0 all enabled, 1 each disabled with probability 1/3, 2 all disabled,
/// 3 exactly one kind completely disabled
fn shaped_filters(rng: &mut Rng, classes: [u8; 3], dis_mode: u8) -> Vec<CF> {
    let kinds = [0u8, 1, 3];
    let dead_kind = kinds[rng.below(3) as usize];
    let mut fs: Vec<CF> = vec![];
    for (j, t) in kinds.iter().enumerate() {
        for _ in 0..class_count(rng, classes[j]) {
            // criteria: fresh (same field: disjoint or identical; other field: overlapping; two criteria: nested) or
            // the criteria of an earlier filter (the same condition in two kinds, duplicates inside a kind)
            let (field, v) = if !fs.is_empty() && rng.chance(1, 5) {
                let g = *rng.pick(&fs);
                (g.1, g.2)
            } else {
                gen_crit(rng)
            };
            let on = 1 + rng.below(2) as u8;
            let en = match dis_mode {
                0 => on,
                1 => {
                    if rng.chance(1, 3) {
                        0
                    } else {
                        on
                    }
                }
                2 => 0,
                _ => {
                    if *t == dead_kind {
                        0
                    } else {
                        on
                    }
                }
            };
            fs.push((*t, field, v, en));
        }
    }
    if rng.chance(1, 8) {
        let (field, v) = gen_crit(rng);
        fs.push((2, field, v, rng.below(3) as u8));
    }
    // the order of the array is part of the input
    for j in (1..fs.len()).rev() {
        let k = rng.below(j as u64 + 1) as usize;
        fs.swap(j, k);
    }
    fs
}
fn gen_dis_mode(rng: &mut Rng) -> u8 {
    match rng.below(12) {
        0..=5 => 0,
        6..=9 => 1,
        10 => 2,
        _ => 3,
    }
}
/// filter sets over the combination space: per kind 0 / 1 / 2 / 3+ filters, enabled and disabled
fn gen_filters(rng: &mut Rng) -> Vec<CF> {
    let cls = |rng: &mut Rng| -> u8 {
        match rng.below(12) {
            0..=4 => 0,
            5..=8 => 1,
            9..=10 => 2,
            _ => 3,
        }
    };
    match rng.below(10) {
        0..=1 => vec![],
        2..=4 => {
            // one kind only, 1 .. 3+ filters
            let mut classes = [0u8; 3];
            classes[rng.below(3) as usize] = 1 + rng.below(3) as u8;
            let d = gen_dis_mode(rng);
            shaped_filters(rng, classes, d)
        }
        _ => {
            let classes = [cls(rng), cls(rng), cls(rng)];
            let d = gen_dis_mode(rng);
            shaped_filters(rng, classes, d)
        }
    }
}
/// the j-th shape of the systematic sweep: (positive, negative, event) classes in 0..4 each
fn shape_of(j: u64) -> [u8; 3] {
    [(j % 4) as u8, ((j / 4) % 4) as u8, ((j / 16) % 4) as u8]
}
fn class_name(n: usize) -> &'static str {
    match n {
        0 => "0",
        1 => "1",
        2 => "2",
        _ => "3plus",
    }
}
/// where a filter set lies in the combination space, relative to the messages it is applied to
fn fs_tags(p: &str, fs: &[CF], msgs: &[(u8, u8, u8)]) -> Vec<String> {
    let mut t = vec![];
    for (name, k) in [("pos", 0u8), ("neg", 1), ("ev", 3)] {
        let en = cf_kind(fs, k);
        let dis = fs.iter().filter(|f| f.0 == k && f.3 == 0).count();
        t.push(format!("{}_{}{}", p, name, class_name(en.len())));
        if dis > 0 {
            t.push(format!("{}_{}_disabled_{}", p, name, if en.is_empty() { "alone" } else { "next_to_enabled" }));
        }
        if en.len() >= 2 {
            let cnt = |m: &(u8, u8, u8)| en.iter().filter(|f| cf_hit(f, m.0, m.1, m.2)).count();
            if msgs.iter().any(|m| cnt(m) == 0) {
                t.push(format!("{}_{}2plus_msg_matching_none", p, name));
            }
            if msgs.iter().any(|m| cnt(m) >= 1 && cnt(m) < en.len()) {
                t.push(format!("{}_{}2plus_msg_matching_some_not_all", p, name));
            }
            if msgs.iter().any(|m| cnt(m) == en.len()) {
                t.push(format!("{}_{}2plus_msg_matching_all", p, name));
            }
        }
    }
    if !fs.is_empty() && fs.iter().all(|f| f.3 == 0) {
        t.push(format!("{}_only_disabled", p));
    }
    let sel = msgs.iter().filter(|m| cf_match(fs, m.0, m.1, m.2)).count();
    t.push(format!("{}_selects_{}", p, if msgs.is_empty() { "nothing_to_select" } else if sel == 0 { "none" } else if sel == msgs.len() { "all" } else { "some" }));
    t
}

// ---------------------------------------------------------------- messages
fn mk_msg(index: u32, ecu: u8, apid: u8, ctid: u8, rt: u64, ts: u32, mcnt: u8, text: u32) -> DltMessage {
    let s = format!("m{}", text);
    let mut payload = vec![];
    payload.extend_from_slice(&0x0000_0200u32.to_le_bytes()); // STRG, ascii
    payload.extend_from_slice(&((s.len() + 1) as u16).to_le_bytes());
    payload.extend_from_slice(s.as_bytes());
    payload.push(0);
    DltMessage {
        index,
        reception_time_us: rt,
        ecu: c4(0, ecu),
        timestamp_dms: ts,
        standard_header: DltStandardHeader { htyp: 0x31, len: 0, mcnt },
        extended_header: Some(DltExtendedHeader { verb_mstp_mtin: 0x41, noar: 1, apid: c4(1, apid), ctid: c4(2, ctid) }),
        payload,
        payload_text: None,
        lifecycle: 0,
    }
}

// ================================================================ library level
#[derive(Clone, Debug, Serialize, Deserialize)]
enum LCall {
    Proto { arrive: u64, chunk: u64 },
    Raw { offset: u64, from: u64, cnt: u64, chunk: u64 },
    End { e: u64 },
}
#[derive(Clone, Debug, Serialize, Deserialize)]
struct LibCase {
    is_stream: bool,
    fs: Vec<CF>,
    start: u64,
    end: u64,
    log: Vec<(u64, u8, u8)>, // run-length: (count, ecu, apid)
    calls: Vec<LCall>,
}

fn runs(l: &[usize]) -> Vec<(u64, u64)> {
    let mut r: Vec<(u64, u64)> = vec![];
    for &x in l {
        match r.last_mut() {
            Some((a, n)) if x as u64 == *a + *n => *n += 1,
            _ => r.push((x as u64, 1)),
        }
    }
    r
}

fn null_log() -> slog::Logger {
    slog::Logger::root(slog::Discard, slog::o!())
}

fn lib_run(c: &LibCase) -> Result<Vec<(Vec<usize>, usize)>, String> {
    let c = c.clone();
    catch_loc(move || {
        let mut msgs: Vec<DltMessage> = vec![];
        for (cnt, e, a) in &c.log {
            for _ in 0..*cnt {
                let i = msgs.len() as u32;
                msgs.push(mk_msg(i, *e, *a, 0, BASE_US, 0, 0, i));
            }
        }
        let js = json!({"window": [c.start, c.end], "filters": cfs_json(&c.fs), "binary": true});
        let mut sc = StreamContext::from(&null_log(), if c.is_stream { "stream" } else { "query" }, &js.to_string()).expect("StreamContext::from");
        let mut avail = 0usize;
        let mut out = vec![];
        for call in &c.calls {
            match call {
                LCall::Proto { arrive, chunk } => {
                    avail = std::cmp::min(msgs.len(), avail + *arrive as usize);
                    let off = std::cmp::min(sc.all_msgs_last_processed_len, avail);
                    process_stream_new_msgs(&mut sc, off, &msgs[off..avail], *chunk as usize);
                }
                LCall::Raw { offset, from, cnt, chunk } => {
                    let from = std::cmp::min(*from as usize, msgs.len());
                    let to = std::cmp::min(from + *cnt as usize, msgs.len());
                    process_stream_new_msgs(&mut sc, *offset as usize, &msgs[from..to], *chunk as usize);
                }
                LCall::End { e } => sc.msgs_to_send.end = *e as usize,
            }
            out.push((sc.filtered_msgs.clone(), sc.all_msgs_last_processed_len));
        }
        out
    })
}

fn lib_oracle(c: &LibCase, r: &Result<Vec<(Vec<usize>, usize)>, String>) -> Verdict {
    let fail = |cl: &str, d: String| Verdict::Fail { clause: cl.into(), detail: d };
    let out = match r {
        Err(e) => return fail("no_panic", e.clone()),
        Ok(o) => o,
    };
    // the property talks about the server loop's protocol with max_chunk_size >= 1
    let in_domain = c.calls.iter().all(|k| match k {
        LCall::Proto { chunk, .. } => *chunk >= 1,
        LCall::End { .. } => true,
        _ => false,
    });
    if !in_domain {
        return Verdict::Ok;
    }
    let mut kinds: Vec<(u8, u8)> = vec![];
    for (cnt, e, a) in &c.log {
        for _ in 0..*cnt {
            kinds.push((*e, *a));
        }
    }
    let all_match: Vec<usize> = (0..kinds.len()).filter(|&i| cf_match(&c.fs, kinds[i].0, kinds[i].1, 0)).collect();
    let active = cf_active(&c.fs);
    let mut avail = 0usize;
    let mut end = c.end as usize;
    let mut prev_last = 0usize;
    for (k, call) in c.calls.iter().enumerate() {
        match call {
            LCall::Proto { arrive, .. } => avail = std::cmp::min(kinds.len(), avail + *arrive as usize),
            LCall::End { e } => end = *e as usize,
            _ => {}
        }
        let (filtered, last) = &out[k];
        if *last > avail {
            return fail("marker_within_arrived", format!("call {}: marker {} > {} arrived", k, last, avail));
        }
        if *last < prev_last {
            return fail("marker_monotone", format!("call {}: marker {} after {}", k, last, prev_last));
        }
        prev_last = *last;
        if active {
            // the marker never skips or repeats a position: the index is exactly the matching positions below it
            let want: Vec<usize> = all_match.iter().cloned().filter(|p| p < last).collect();
            if *filtered != want {
                return fail("index_is_matches_below_marker", format!("call {}: marker {} filtered {:?} want {:?}", k, last, runs(filtered), runs(&want)));
            }
            if !c.is_stream && *last < avail && filtered.len() < end {
                // a query stops early only when it has collected enough or the chunk limit was hit
                if let LCall::Proto { chunk, .. } = call {
                    if (*chunk as usize) > avail {
                        return fail("query_progress", format!("call {}: marker {} < {} with {} < {} matches", k, last, avail, filtered.len(), end));
                    }
                }
            }
        } else if !filtered.is_empty() {
            return fail("unfiltered_has_no_index", format!("call {}", k));
        }
    }
    // once everything is processed
    if let Some((filtered, last)) = out.last() {
        if active && avail == kinds.len() {
            if c.is_stream && *last == avail && *filtered != all_match {
                return fail("final_stream_index", format!("{:?}", runs(filtered)));
            }
            if !c.is_stream && (*last == avail || filtered.len() >= end) {
                let n = filtered.len();
                if *filtered != all_match[..std::cmp::min(n, all_match.len())] || (n < std::cmp::min(end, all_match.len())) {
                    return fail("final_query_index", format!("{:?}", runs(filtered)));
                }
            }
        }
    }
    Verdict::Ok
}

fn lib_record(sink: &mut Sink, c: LibCase, origin: &str) {
    let r = lib_run(&c);
    let verdict = lib_oracle(&c, &r);
    let obs = match &r {
        Ok(out) => O::T(out.iter().map(|(f, l)| O::T(vec![O::T(runs(f).iter().map(|(a, n)| O::T(vec![O::n(*a), O::n(*n)])).collect()), O::n(*l as u64)])).collect()),
        Err(_) => O::T(vec![O::L(99)]),
    };
    let calls: Vec<String> = c
        .calls
        .iter()
        .map(|k| match k {
            LCall::Proto { arrive, chunk } => format!("LProto {} {}", arrive, chunk),
            LCall::Raw { offset, from, cnt, chunk } => format!("LRaw {} {} {} {}", offset, from, cnt, chunk),
            LCall::End { e } => format!("LEnd {}", e),
        })
        .collect();
    let input_coq = format!(
        "(CLib {} {} {} {} {} {})",
        cbool(c.is_stream),
        cfs_coq(&c.fs),
        c.start,
        c.end,
        clist(&c.log.iter().map(|(n, e, a)| format!("({}, {}, {})", n, e, a)).collect::<Vec<_>>()),
        clist(&calls)
    );
    let total: u64 = c.log.iter().map(|x| x.0).sum();
    let mut tags = vec![format!("lib_{}", if c.is_stream { "stream" } else { "query" }), format!("origin_{}", origin)];
    if !cf_active(&c.fs) {
        tags.push("lib_unfiltered".into());
    }
    if total <= 1000 {
        let kinds: Vec<(u8, u8, u8)> = c.log.iter().filter(|r| r.0 > 0).map(|r| (r.1, r.2, 0)).collect();
        tags.extend(fs_tags("lib", &c.fs, &kinds));
    }
    if c.calls.iter().any(|k| matches!(k, LCall::Raw { .. })) {
        tags.push("lib_raw_call".into());
    }
    if c.calls.iter().any(|k| matches!(k, LCall::End { .. })) {
        tags.push("lib_end_change".into());
    }
    if total > 65536 {
        tags.push("lib_big".into());
    }
    let nontrivial = cf_active(&c.fs) && total >= 3 && c.calls.len() >= 2;
    let id = sink.next_id();
    sink.push(Case { id, key: input_coq.clone(), input_coq, input_json: json!({"kind": "lib", "lib": c}), obs, verdict, classes: vec![], tags, nontrivial });
}

/// `shape`: the filter set is the given one and the log has messages of every (ecu, apid) combination
fn gen_lib(rng: &mut Rng, big: bool, shape: Option<Vec<CF>>) -> LibCase {
    let is_stream = rng.chance(1, 2);
    let swept = shape.is_some();
    let mut fs = match shape {
        Some(fs) => fs,
        None => {
            let mut fs = gen_filters(rng);
            if rng.chance(3, 4) && fs.is_empty() {
                fs.push((0, 1, rng.below(3) as u8, 1));
            }
            fs
        }
    };
    // no ctid in the library-level log: keep to ecu/apid
    for f in fs.iter_mut() {
        if f.1 >= 2 {
            f.1 = 1;
            f.2 %= 3;
        }
    }
    let nruns = 1 + rng.size(if big { 8 } else { 10 });
    let mut log = vec![];
    for _ in 0..nruns {
        let cnt = if big { 1 + rng.below(40_000) } else { 1 + rng.size(6) };
        log.push((cnt, 1 + rng.below(2) as u8, rng.below(3) as u8));
    }
    if swept {
        for j in 0..6u8 {
            let at = rng.below(log.len() as u64 + 1) as usize;
            log.insert(at, (1 + rng.below(3), 1 + j % 2, j / 2));
        }
    }
    let total: u64 = log.iter().map(|x| x.0).sum();
    let start = rng.below(4);
    let end = match rng.below(6) {
        0 => 0,
        1 => 1,
        2 => total + 10,
        3 => 1_000_000,
        _ => rng.below(total + 2),
    };
    let ncalls = 1 + rng.size(8);
    let mut calls = vec![];
    let raw_mode = rng.chance(1, 6);
    for _ in 0..ncalls {
        let chunk = match rng.below(8) {
            0 => 1,
            1 => 2,
            2 => 3_000_000,
            3 if big => 65536 + rng.below(30_000),
            4 if big => 65536,
            5 if raw_mode => 0,
            _ => 1 + rng.below(if big { 200_000 } else { 12 }),
        };
        if raw_mode && rng.chance(1, 2) {
            calls.push(LCall::Raw { offset: rng.below(total + 20), from: rng.below(total + 1), cnt: rng.below(total + 2), chunk });
        } else if !is_stream && rng.chance(1, 6) {
            calls.push(LCall::End { e: rng.below(total + 5) });
        } else {
            let arrive = match rng.below(5) {
                0 => 0,
                1 => total,
                _ => rng.below(total / 2 + 2),
            };
            calls.push(LCall::Proto { arrive, chunk });
        }
    }
    if rng.chance(2, 3) {
        // make sure everything arrives and gets processed
        calls.push(LCall::Proto { arrive: total, chunk: 3_000_000 });
        calls.push(LCall::Proto { arrive: 0, chunk: 3_000_000 });
    }
    LibCase { is_stream, fs, start, end, log, calls }
}

// ================================================================ std binary search
fn bs_record(sink: &mut Sink, l: Vec<u64>, key: u64) {
    let r = l.binary_search_by(|x| x.cmp(&key));
    let pp = l.partition_point(|x| *x < key);
    let sorted = l.windows(2).all(|w| w[0] <= w[1]);
    let mut verdict = Verdict::Ok;
    if sorted {
        let first_ge = l.iter().position(|x| *x >= key).unwrap_or(l.len());
        let ok = match r {
            Ok(i) => l[i] == key,
            Err(i) => i == first_ge && !l.contains(&key),
        };
        if !ok || pp != first_ge {
            verdict = Verdict::Fail { clause: "std_binary_search_contract".into(), detail: format!("{:?} {:?} {}", l, r, pp) };
        }
    }
    let obs = O::T(vec![
        match r {
            Ok(i) => O::T(vec![O::L(0), O::n(i as u64)]),
            Err(i) => O::T(vec![O::L(1), O::n(i as u64)]),
        },
        O::n(pp as u64),
    ]);
    let input_coq = format!("(CBs {} {})", cnums(&l), key);
    let dup = l.iter().filter(|x| **x == key).count() >= 2;
    let mut tags = vec!["bsearch".to_string(), if sorted { "bs_sorted".into() } else { "bs_unsorted".into() }];
    if dup {
        tags.push("bs_duplicates_of_key".into());
    }
    let id = sink.next_id();
    sink.push(Case { id, key: input_coq.clone(), input_coq, input_json: json!({"kind": "bs", "l": l, "key": key}), obs, verdict, classes: vec![], tags, nontrivial: dup && sorted });
}

fn gen_bs(rng: &mut Rng) -> (Vec<u64>, u64) {
    let n = rng.size(24);
    let mut l: Vec<u64> = vec![];
    let mut v = rng.below(3);
    for _ in 0..n {
        v += *rng.pick(&[0u64, 0, 0, 1, 1, 2]);
        l.push(v);
    }
    if rng.chance(1, 6) && n > 1 {
        let i = rng.below(n) as usize;
        l[i] = rng.below(10);
    }
    let key = rng.below(v + 2);
    (l, key)
}

// ================================================================ sessions with the real `adlt remote`
#[derive(Clone, Debug, Serialize, Deserialize)]
struct FRun {
    cnt: u32,
    ecu: u8,
    apid: u8,
    ctid: u8,
    ts0: u32, // timestamp (0.1 ms) of the first message of the run
    dts: u32, // increment per message
    #[serde(default)]
    jit: u32, // reception delay (0.1 ms): reception time = BASE + (timestamp + jit) * 100 us
}
#[derive(Clone, Debug, Serialize, Deserialize)]
enum SOp {
    New { settle: bool, is_stream: bool, binary: bool, fs: Vec<CF>, start: u64, end: u64 },
    Window { settle: bool, k: usize, start: u64, end: u64 },
    Stop { k: usize },
    Search { k: usize, start: u64, maxr: u64, fs: Vec<CF> },
    Pages { k: usize, start: u64, maxr: u64, fs: Vec<CF> },
    LookIdx { k: usize, idx: u64 },
    LookTime { k: usize, t_ms: u64 },
    /// a command the server has to reject (see bad_cmd); the stream k it is addressed to (if any) must stay as it is
    Bad { k: usize, kind: u8, arg: u64 },
    /// stream_change_window with fields that are not numbers (None): the server reads them as 0
    WindowText { settle: bool, k: usize, a: Option<u64>, b: Option<u64>, junk: u8 },
    /// index= for every index 0..=n
    LookIdxAll { k: usize, n: u64 },
    /// time_ms= at t0_ms + j * step_ms, j < cnt
    LookTimeAll { k: usize, t0_ms: u64, step_ms: u64, cnt: u64 },
    /// time_ms= for every listed time
    LookTimes { k: usize, ts_ms: Vec<u64> },
}
#[derive(Clone, Debug, Serialize, Deserialize)]
struct SessCase {
    #[serde(default)]
    collect: u8, // open option "collect": 0 absent, 1 true, 2 "all"
    #[serde(default)]
    plugin: bool, // open with a plugin that does not touch these messages (FileTransfer)
    sorted: bool,
    preload: bool,
    file: Vec<FRun>,
    ops: Vec<SOp>,
}

fn expand_file(file: &[FRun]) -> Vec<DltMessage> {
    let mut v = vec![];
    for r in file {
        for j in 0..r.cnt {
            let i = v.len() as u32;
            let ts = r.ts0 + j * r.dts;
            v.push(mk_msg(i, r.ecu, r.apid, r.ctid, BASE_US + (ts + r.jit) as u64 * 100, ts, i as u8, i));
        }
    }
    v
}

pub struct Server {
    child: Child,
    pub port: u16,
}
impl Server {
    pub fn start() -> Server {
        let bin = std::env::var("VERIF_ADLT_BIN").expect("VERIF_ADLT_BIN");
        for _ in 0..20 {
            let port = portpicker::pick_unused_port().expect("no free port");
            let mut child = Command::new(&bin)
                .args(["remote", "-p", &format!("{}", port)])
                .stdin(Stdio::null())
                .stdout(Stdio::piped())
                .stderr(Stdio::null())
                .spawn()
                .expect("spawn adlt");
            let out = child.stdout.take().unwrap();
            let mut rd = BufReader::new(out);
            let mut line = String::new();
            let _ = rd.read_line(&mut line);
            if line.contains("remote server listening") {
                std::thread::spawn(move || {
                    let mut l = String::new();
                    while rd.read_line(&mut l).map(|n| n > 0).unwrap_or(false) {
                        l.clear();
                    }
                });
                return Server { child, port };
            }
            let _ = child.kill();
            let _ = child.wait();
        }
        panic!("could not start adlt remote");
    }
}
impl Drop for Server {
    fn drop(&mut self) {
        let _ = self.child.kill();
        let _ = self.child.wait();
    }
}

#[derive(Clone, Debug, PartialEq)]
pub struct RMsg {
    pub index: u32,
    pub rt: u64,
    pub ts: u32,
    pub ecu: u32,
    pub apid: u32,
    pub ctid: u32,
    pub lc: u32,
    pub htyp: u8,
    pub mcnt: u8,
    pub vmm: u8,
    pub noar: u8,
    pub text: String,
}
#[derive(Clone, Debug)]
pub enum Ev {
    Sent(String),
    Text(String),
    FileInfo(u32),
    /// (id, start_time as sent to the client, ecu, resume_time)
    Lifecycles(Vec<(u32, u64, u32, Option<u64>)>),
    Msgs(u32, Vec<RMsg>),
    StreamInfo { id: u32, nr_stream: u32, processed: u32, total: u32 },
    Other,
}

pub struct Client {
    ws: WebSocket<MaybeTlsStream<TcpStream>>,
    pub log: Vec<Ev>,
    pub dead: Option<String>,
}
impl Client {
    pub fn connect(port: u16) -> Client {
        let t0 = Instant::now();
        loop {
            match tungstenite::client::connect(format!("ws://127.0.0.1:{}", port)) {
                Ok((ws, _)) => {
                    if let MaybeTlsStream::Plain(s) = ws.get_ref() {
                        s.set_read_timeout(Some(Duration::from_millis(20_000))).unwrap();
                        s.set_nodelay(true).unwrap();
                    }
                    return Client { ws, log: vec![], dead: None };
                }
                Err(e) => {
                    if t0.elapsed() > Duration::from_secs(10) {
                        panic!("cannot connect: {:?}", e);
                    }
                    std::thread::sleep(Duration::from_millis(10));
                }
            }
        }
    }
    pub fn send(&mut self, s: &str) {
        self.log.push(Ev::Sent(s.to_string()));
        if let Err(e) = self.ws.write_message(Message::Text(s.to_string())) {
            self.dead = Some(format!("send: {:?}", e));
        }
    }
    pub fn read(&mut self) -> Option<Ev> {
        if self.dead.is_some() {
            return None;
        }
        let m = match self.ws.read_message() {
            Ok(m) => m,
            Err(e) => {
                self.dead = Some(format!("read: {:?}", e));
                return None;
            }
        };
        let ev = match m {
            Message::Text(t) => Ev::Text(t),
            Message::Binary(d) => match bincode::decode_from_slice::<remote_types::BinType, _>(&d, BINCODE_CONFIG) {
                Ok((BinType::FileInfo(f), _)) => Ev::FileInfo(f.nr_msgs),
                Ok((BinType::Lifecycles(l), _)) => Ev::Lifecycles(l.iter().map(|x| (x.id, x.start_time, x.ecu, x.resume_time)).collect()),
                Ok((BinType::DltMsgs((id, ms)), _)) => Ev::Msgs(
                    id,
                    ms.iter()
                        .map(|b| RMsg {
                            index: b.index,
                            rt: b.reception_time,
                            ts: b.timestamp_dms,
                            ecu: b.ecu,
                            apid: b.apid,
                            ctid: b.ctid,
                            lc: b.lifecycle_id,
                            htyp: b.htyp,
                            mcnt: b.mcnt,
                            vmm: b.verb_mstp_mtin,
                            noar: b.noar,
                            text: b.payload_as_text.to_string(),
                        })
                        .collect(),
                ),
                Ok((BinType::StreamInfo(s), _)) => Ev::StreamInfo { id: s.stream_id, nr_stream: s.nr_stream_msgs, processed: s.nr_file_msgs_processed, total: s.nr_file_msgs_total },
                _ => Ev::Other,
            },
            _ => Ev::Other,
        };
        // (big message frames are not copied for the caller)
        let ret = match &ev {
            Ev::Msgs(..) => Ev::Other,
            e => e.clone(),
        };
        self.log.push(ev);
        Some(ret)
    }
    /// send a command and read until its text reply (a text starting with one of the prefixes) arrives
    pub fn cmd(&mut self, s: &str, prefixes: &[&str]) -> Option<String> {
        self.send(s);
        loop {
            match self.read()? {
                Ev::Text(t) if prefixes.iter().any(|p| t.starts_with(p)) => return Some(t),
                _ => {}
            }
        }
    }
    /// the server loop runs one complete process_file_context between reading two commands, so n syncs
    /// guarantee n - 1 complete ticks after the previous command
    pub fn sync(&mut self, n: usize) {
        for _ in 0..n {
            if self.cmd("resume", &["ok: resume", "err: resume"]).is_none() {
                return;
            }
        }
    }
    /// at least two complete ticks, then "eventually": keep ticking as long as ticks still bring stream
    /// messages (whatever amount the server sends per tick)
    pub fn quiesce(&mut self) {
        self.sync(3);
        let count = |log: &Vec<Ev>| log.iter().filter(|e| matches!(e, Ev::Msgs(_, ms) if !ms.is_empty()) || matches!(e, Ev::Text(t) if t.starts_with("stream:"))).count();
        for _ in 0..10_000 {
            let before = count(&self.log);
            self.sync(2);
            if count(&self.log) == before || self.dead.is_some() {
                break;
            }
        }
    }
    /// wait until the file is completely read and the parser threads have finished: the server announces
    /// nr_msgs == n on the last batch and once more when the parser has finished
    pub fn wait_finished(&mut self, n: u32) -> bool {
        let t0 = Instant::now();
        loop {
            let k = self.log.iter().filter(|e| matches!(e, Ev::FileInfo(x) if *x == n)).count();
            if k >= 2 {
                return true;
            }
            if self.dead.is_some() || t0.elapsed() > Duration::from_secs(60) {
                return false;
            }
            self.sync(1);
        }
    }
}

fn parse_id_after(s: &str, pat: &str) -> Option<u32> {
    let i = s.find(pat)? + pat.len();
    let rest = &s[i..];
    let num: String = rest.chars().skip_while(|c| *c == ' ').take_while(|c| c.is_ascii_digit()).collect();
    num.parse().ok()
}

/// everything delivered under `id`: (message indices, text positions, end markers, binary messages, text headers)
fn delivered(log: &[Ev], id: u32) -> (Vec<u32>, Vec<u64>, u64, Vec<RMsg>, Vec<String>) {
    let (mut ix, mut ps, mut d, mut bin, mut hdrs) = (vec![], vec![], 0u64, vec![], vec![]);
    let pre = format!("stream:{} msg(", id);
    for e in log {
        match e {
            Ev::Msgs(i, ms) if *i == id => {
                if ms.is_empty() {
                    d += 1;
                } else {
                    for m in ms {
                        ix.push(m.index);
                        bin.push(m.clone());
                    }
                }
            }
            Ev::Text(t) if t.starts_with(&pre) => {
                let rest = &t[pre.len()..];
                if let Some(j) = rest.find("):") {
                    let pos: u64 = rest[..j].parse().unwrap_or(u64::MAX);
                    let hdr = &rest[j + 2..];
                    let idx: u32 = hdr.split(' ').next().unwrap_or("").parse().unwrap_or(u32::MAX);
                    ix.push(idx);
                    ps.push(pos);
                    hdrs.push(hdr.to_string());
                }
            }
            _ => {}
        }
    }
    (ix, ps, d, bin, hdrs)
}
/// long index lists are observed by (count, first, last, checksum)
fn o_ix(l: &[u64]) -> O {
    if l.len() <= 64 {
        O::T(vec![O::L(0), O::T(l.iter().map(|x| O::n(*x)).collect())])
    } else {
        let mut acc: u64 = 0;
        for (k, x) in l.iter().enumerate() {
            acc = ((acc as u128 + (*x as u128 + 1) * (k as u128 + 1)) % 1_000_000_007u128) as u64;
        }
        O::T(vec![O::L(1), O::n(l.len() as u64), O::n(l[0]), O::n(*l.last().unwrap()), O::n(acc)])
    }
}
/// number of messages delivered under the id before its first end marker (all of them if there is none)
fn before_done(log: &[Ev], id: u32) -> u64 {
    let pre = format!("stream:{} msg(", id);
    let mut n = 0u64;
    for e in log {
        match e {
            Ev::Msgs(i, ms) if *i == id => {
                if ms.is_empty() {
                    return n;
                }
                n += ms.len() as u64;
            }
            Ev::Text(t) if t.starts_with(&pre) => n += 1,
            _ => {}
        }
    }
    n
}
fn o_delivered(log: &[Ev], id: u32, with_info: bool, is_stream: bool) -> O {
    let (ix, ps, d, _, _) = delivered(log, id);
    // the last StreamInfo under the id (for a query the marker and the total depend on the batching)
    let info = log.iter().rev().find_map(|e| match e {
        Ev::StreamInfo { id: i, nr_stream, processed, total } if *i == id => Some(if is_stream { vec![O::n(*nr_stream), O::n(*processed), O::n(*total)] } else { vec![] }),
        _ => None,
    });
    // only for the first id of a stream: whether a renewed id sees a StreamInfo depends on the batching
    let info = if with_info { info } else { None };
    let ix64: Vec<u64> = ix.iter().map(|x| *x as u64).collect();
    O::T(vec![o_ix(&ix64), o_ix(&ps), O::n(d), O::n(before_done(log, id)), O::T(info.unwrap_or_default())])
}

struct StreamRec {
    is_stream: bool,
    binary: bool,
    fs: Vec<CF>,
    cur: u32, // current id
}
struct IdRec {
    id: u32,
    k: usize,
    start: u64,
    end: u64,
    settled: bool,
    announced_at: usize,          // log position of the announcing reply
    superseded_at: Option<usize>, // log position of the reply that renewed / stopped it
    must_be_complete: bool,
}

struct SessOut {
    /// lookups per branch: index x (file order | time sorted) x (filtered | unfiltered), time x (filtered | unfiltered)
    /// + time lookups checked by the oracle, of those: where the presented start times answer differently, not checked
    counts: [u64; 13],
    obs: O,
    verdict: Verdict,
    file_coq: String,
    tags: Vec<String>,
    classes: Vec<String>,
}

/// known finding (known_findings.d/C16.json): with sort:true the sort thread keys the messages of a lifecycle with the start
/// estimate it saw first (capped at the reception time); when the estimate moves afterwards (a message with a smaller delay
/// after the lifecycle was confirmed and published), the time-sorted view is not in the order of the times the lookup
/// compares (final start + timestamp) and the binary search answers a position behind a message that is not before the
/// requested time
const CLASS_STALE_SORT: &str = "sorted_view_keyed_by_stale_lifecycle_start";

/// the classifier of CLASS_STALE_SORT, on the delivered all_msgs of a sort:true session: the order IS the order of the
/// sorter's key min(S + timestamp, reception time) for some choice, per lifecycle, of an EARLIER start estimate S (one of
/// the running minima of reception - timestamp in file order), at least one of them not the final one
fn stale_start_explains_order(probe: &[RMsg]) -> bool {
    let mut by_index: Vec<&RMsg> = probe.iter().collect();
    by_index.sort_by_key(|m| m.index);
    let mut cands: BTreeMap<u32, Vec<u64>> = BTreeMap::new();
    for m in &by_index {
        let est = m.rt.saturating_sub(m.ts as u64 * 100);
        let v = cands.entry(m.lc).or_default();
        if v.last().map(|l| est < *l).unwrap_or(true) {
            v.push(est);
        }
    }
    let lcs: Vec<u32> = cands.keys().cloned().collect();
    let combos: u64 = cands.values().map(|v| v.len() as u64).product();
    if combos > 4096 || combos < 2 {
        return false;
    }
    for mut code in 0..combos {
        let mut choice: BTreeMap<u32, u64> = BTreeMap::new();
        let mut all_final = true;
        for lc in &lcs {
            let v = &cands[lc];
            let j = (code % v.len() as u64) as usize;
            code /= v.len() as u64;
            choice.insert(*lc, v[j]);
            all_final &= j + 1 == v.len();
        }
        if all_final {
            continue;
        }
        let key = |m: &RMsg| std::cmp::min(choice[&m.lc] + m.ts as u64 * 100, m.rt);
        if probe.windows(2).all(|w| key(&w[0]) <= key(&w[1])) {
            return true;
        }
    }
    false
}

fn sess_fail(c: &str, d: String) -> Verdict {
    Verdict::Fail { clause: c.into(), detail: d }
}

// replies to searches / lookups with what they were asked on, checked at the end against the ground truth
enum Chk {
    Search { k: usize, start: u64, maxr: u64, fs: Vec<CF>, idxs: Vec<u64>, next: Option<u64> },
    Pages { k: usize, start: u64, fs: Vec<CF>, pages: Vec<(u64, Vec<u64>, Option<u64>)> },
    LookIdx { k: usize, idx: u64, pos: Option<u64> },
    LookTime { k: usize, t_ms: u64, pos: u64 },
}

fn run_session(srv_port: u16, c: &SessCase, dir: &std::path::Path, uniq: u64) -> SessOut {
    let gen = expand_file(&c.file);
    let n = gen.len() as u32;
    let path = dir.join(format!("s{}.dlt", uniq));
    {
        let mut f = std::io::BufWriter::new(std::fs::File::create(&path).unwrap());
        for m in &gen {
            m.to_write(&mut f).unwrap();
        }
        f.flush().unwrap();
    }
    // ground truth: the file as the library's iterator reads it
    let truth_file: Vec<DltMessage> = {
        let rd = std::io::Cursor::new(std::fs::read(&path).unwrap());
        adlt::utils::DltMessageIterator::new(0, rd).collect()
    };
    let mut tags: Vec<String> = vec![format!("sess_{}", if c.preload { "preloaded" } else { "racing" })];
    if n >= 100_000 {
        tags.push("sess_large".into());
    }
    if c.sorted {
        tags.push("sess_sorted".into());
    }
    let mut cl = Client::connect(srv_port);
    let mut op_obs: Vec<O> = vec![];
    let mut streams: Vec<StreamRec> = vec![];
    let mut ids: Vec<IdRec> = vec![];
    let mut finished = false;
    let mut viol: Option<Verdict> = None;
    let mut chks: Vec<Chk> = vec![];

    let mut open_js = json!({"sort": c.sorted, "files": [path.to_str().unwrap()]});
    match c.collect {
        1 => open_js["collect"] = json!(true),
        2 => open_js["collect"] = json!("all"),
        _ => {}
    }
    if c.plugin {
        open_js["plugins"] = json!([{"name": "FileTransfer", "allowSave": false}]);
    }
    let open = cl.cmd(&format!("open {}", open_js), &["ok: open", "err: open"]);
    if !open.as_deref().unwrap_or("").starts_with("ok: open") {
        return SessOut { counts: [0; 13], obs: O::T(vec![O::L(97)]), verdict: sess_fail("open", format!("{:?} {:?}", open, cl.dead)), file_coq: "[] []".into(), tags, classes: vec![] };
    }
    if c.preload {
        finished = cl.wait_finished(n);
        cl.sync(2);
    }
    macro_rules! settle {
        () => {{
            if !finished {
                finished = cl.wait_finished(n);
            }
            cl.quiesce();
            for r in ids.iter_mut() {
                if r.superseded_at.is_none() {
                    r.must_be_complete = true;
                }
            }
        }};
    }
    let cur_id = |streams: &Vec<StreamRec>, k: usize| -> u32 { streams.get(k).map(|s| s.cur).unwrap_or(0) };
    for op in &c.ops {
        if cl.dead.is_some() {
            break;
        }
        match op {
            SOp::New { settle, is_stream, binary, fs, start, end } => {
                let cmd = if *is_stream { "stream" } else { "query" };
                let js = json!({"window": [start, end], "binary": binary, "filters": cfs_json(fs)});
                let r = cl.cmd(&format!("{} {}", cmd, js), &[&format!("ok: {}", cmd), &format!("err: {}", cmd)]).unwrap_or_default();
                match parse_id_after(&r, "{\"id\":") {
                    Some(id) if r.starts_with("ok:") => {
                        streams.push(StreamRec { is_stream: *is_stream, binary: *binary, fs: fs.clone(), cur: id });
                        ids.push(IdRec { id, k: streams.len() - 1, start: *start, end: *end, settled: *settle, announced_at: cl.log.len() - 1, superseded_at: None, must_be_complete: false });
                        if *settle {
                            settle!();
                            op_obs.push(O::T(vec![O::L(0), o_delivered(&cl.log, id, true, *is_stream)]));
                        } else {
                            op_obs.push(O::T(vec![O::L(0), O::T(vec![])]));
                        }
                    }
                    _ => {
                        streams.push(StreamRec { is_stream: *is_stream, binary: *binary, fs: fs.clone(), cur: 0 });
                        op_obs.push(O::T(vec![O::L(1)]));
                    }
                }
            }
            SOp::Window { settle, k, start, end } => {
                let old = cur_id(&streams, *k);
                let r = cl.cmd(&format!("stream_change_window {} {},{}", old, start, end), &["ok: stream_change_window", "err: stream_change_window"]).unwrap_or_default();
                match parse_id_after(&r, "={\"id\":") {
                    Some(id) if r.starts_with("ok:") => {
                        let at = cl.log.len() - 1;
                        for rr in ids.iter_mut() {
                            if rr.id == old {
                                rr.superseded_at = Some(at);
                            }
                        }
                        streams[*k].cur = id;
                        ids.push(IdRec { id, k: *k, start: *start, end: *end, settled: *settle, announced_at: at, superseded_at: None, must_be_complete: false });
                        if *settle {
                            settle!();
                            op_obs.push(O::T(vec![O::L(0), o_delivered(&cl.log, id, false, streams[*k].is_stream)]));
                        } else {
                            op_obs.push(O::T(vec![O::L(0), O::T(vec![])]));
                        }
                    }
                    _ => op_obs.push(O::T(vec![O::L(1)])),
                }
            }
            SOp::Bad { k, kind, arg } => {
                let id = cur_id(&streams, *k);
                let text = bad_cmd(*kind, id, *arg);
                let c0 = text.split(' ').next().unwrap_or("").to_string();
                let r = cl.cmd(&text, &[&format!("ok: {}", c0), &format!("err: {}", c0)]).unwrap_or_default();
                if r.starts_with("err:") {
                    op_obs.push(O::T(vec![O::L(1)]));
                } else {
                    op_obs.push(O::T(vec![O::L(0)]));
                    if viol.is_none() {
                        viol = Some(sess_fail("rejected_command_gets_err", format!("{:?} was answered {:?}", text, r)));
                    }
                }
            }
            SOp::WindowText { settle, k, a, b, junk } => {
                let old = cur_id(&streams, *k);
                let at_ = a.map(|x| x.to_string()).unwrap_or_else(|| junk_text(*junk).to_string());
                let bt_ = b.map(|x| x.to_string()).unwrap_or_else(|| junk_text(*junk / 4).to_string());
                let (start, end) = (a.unwrap_or(0), b.unwrap_or(0));
                let r = cl.cmd(&format!("stream_change_window {} {},{}", old, at_, bt_), &["ok: stream_change_window", "err: stream_change_window"]).unwrap_or_default();
                match parse_id_after(&r, "={\"id\":") {
                    Some(id) if r.starts_with("ok:") => {
                        let at = cl.log.len() - 1;
                        for rr in ids.iter_mut() {
                            if rr.id == old {
                                rr.superseded_at = Some(at);
                            }
                        }
                        streams[*k].cur = id;
                        ids.push(IdRec { id, k: *k, start, end, settled: *settle, announced_at: at, superseded_at: None, must_be_complete: false });
                        if *settle {
                            settle!();
                            op_obs.push(O::T(vec![O::L(0), o_delivered(&cl.log, id, false, streams[*k].is_stream)]));
                        } else {
                            op_obs.push(O::T(vec![O::L(0), O::T(vec![])]));
                        }
                    }
                    _ => op_obs.push(O::T(vec![O::L(1)])),
                }
            }
            SOp::Stop { k } => {
                if !finished {
                    settle!();
                }
                let old = cur_id(&streams, *k);
                let r = cl.cmd(&format!("stop {}", old), &["ok: stop", "err: stop"]).unwrap_or_default();
                if r.starts_with("ok:") {
                    let at = cl.log.len() - 1;
                    for rr in ids.iter_mut() {
                        if rr.id == old {
                            rr.superseded_at = Some(at);
                        }
                    }
                    op_obs.push(O::T(vec![O::L(0)]));
                } else {
                    op_obs.push(O::T(vec![O::L(1)]));
                }
            }
            SOp::Search { k, start, maxr, fs } => {
                if !finished {
                    settle!();
                }
                let id = cur_id(&streams, *k);
                let js = json!({"start_idx": start, "max_results": maxr, "filters": cfs_json(fs)});
                let r = cl.cmd(&format!("stream_search {} {}", id, js), &["ok: stream_search", "err: stream_search"]).unwrap_or_default();
                match parse_search(&r) {
                    Some((idxs, next)) => {
                        op_obs.push(O::T(vec![O::L(0), O::T(idxs.iter().map(|x| O::n(*x)).collect()), O::opt(next.map(O::n))]));
                        chks.push(Chk::Search { k: *k, start: *start, maxr: *maxr, fs: fs.clone(), idxs, next });
                    }
                    None => op_obs.push(O::T(vec![O::L(1)])),
                }
            }
            SOp::Pages { k, start, maxr, fs } => {
                if !finished {
                    settle!();
                }
                let id = cur_id(&streams, *k);
                let mut pages_o = vec![];
                let mut pages = vec![];
                let mut from = *start;
                for _ in 0..(n as usize + 3) {
                    let js = json!({"start_idx": from, "max_results": maxr, "filters": cfs_json(fs)});
                    let r = cl.cmd(&format!("stream_search {} {}", id, js), &["ok: stream_search", "err: stream_search"]).unwrap_or_default();
                    match parse_search(&r) {
                        Some((idxs, next)) => {
                            pages_o.push(O::T(vec![O::L(0), O::T(idxs.iter().map(|x| O::n(*x)).collect()), O::opt(next.map(O::n))]));
                            pages.push((from, idxs, next));
                            match next {
                                Some(nx) => from = nx,
                                None => break,
                            }
                        }
                        None => {
                            pages_o.push(O::T(vec![O::L(1)]));
                            break;
                        }
                    }
                }
                op_obs.push(O::T(pages_o));
                if !pages.is_empty() {
                    chks.push(Chk::Pages { k: *k, start: *start, fs: fs.clone(), pages });
                }
            }
            SOp::LookIdx { k, idx } => {
                if !finished {
                    settle!();
                }
                let id = cur_id(&streams, *k);
                let r = cl.cmd(&format!("stream_binary_search {} index={}", id, idx), &["ok: stream_binary_search", "err: stream_binary_search"]).unwrap_or_default();
                match parse_id_after(&r, "{\"filtered_msg_index\":") {
                    Some(p) if r.starts_with("ok:") => {
                        op_obs.push(O::T(vec![O::L(0), O::n(p)]));
                        chks.push(Chk::LookIdx { k: *k, idx: *idx, pos: Some(p as u64) });
                    }
                    _ => {
                        op_obs.push(O::T(vec![O::L(1)]));
                        if r.contains("all_msgs#=") {
                            chks.push(Chk::LookIdx { k: *k, idx: *idx, pos: None });
                        }
                    }
                }
            }
            SOp::LookIdxAll { k, n: upto } => {
                if !finished {
                    settle!();
                }
                let id = cur_id(&streams, *k);
                let mut os = vec![];
                for idx in 0..=*upto {
                    let r = cl.cmd(&format!("stream_binary_search {} index={}", id, idx), &["ok: stream_binary_search", "err: stream_binary_search"]).unwrap_or_default();
                    match parse_id_after(&r, "{\"filtered_msg_index\":") {
                        Some(p) if r.starts_with("ok:") => {
                            os.push(O::T(vec![O::L(0), O::n(p)]));
                            chks.push(Chk::LookIdx { k: *k, idx, pos: Some(p as u64) });
                        }
                        _ => {
                            os.push(O::T(vec![O::L(1)]));
                            if r.contains("all_msgs#=") {
                                chks.push(Chk::LookIdx { k: *k, idx, pos: None });
                            }
                        }
                    }
                }
                op_obs.push(O::T(os));
            }
            SOp::LookTimeAll { k, t0_ms, step_ms, cnt } => {
                if !finished {
                    settle!();
                }
                let id = cur_id(&streams, *k);
                let mut os = vec![];
                for j in 0..*cnt {
                    let t_ms = t0_ms + j * step_ms;
                    let r = cl.cmd(&format!("stream_binary_search {} time_ms={}", id, t_ms), &["ok: stream_binary_search", "err: stream_binary_search"]).unwrap_or_default();
                    match parse_id_after(&r, "{\"filtered_msg_index\":") {
                        Some(p) if r.starts_with("ok:") => {
                            os.push(O::T(vec![O::L(0), O::n(p)]));
                            chks.push(Chk::LookTime { k: *k, t_ms, pos: p as u64 });
                        }
                        _ => os.push(O::T(vec![O::L(1)])),
                    }
                }
                op_obs.push(O::T(os));
            }
            SOp::LookTimes { k, ts_ms } => {
                if !finished {
                    settle!();
                }
                let id = cur_id(&streams, *k);
                let mut os = vec![];
                for t_ms in ts_ms {
                    let r = cl.cmd(&format!("stream_binary_search {} time_ms={}", id, t_ms), &["ok: stream_binary_search", "err: stream_binary_search"]).unwrap_or_default();
                    match parse_id_after(&r, "{\"filtered_msg_index\":") {
                        Some(p) if r.starts_with("ok:") => {
                            os.push(O::T(vec![O::L(0), O::n(p)]));
                            chks.push(Chk::LookTime { k: *k, t_ms: *t_ms, pos: p as u64 });
                        }
                        _ => os.push(O::T(vec![O::L(1)])),
                    }
                }
                op_obs.push(O::T(os));
            }
            SOp::LookTime { k, t_ms } => {
                if !finished {
                    settle!();
                }
                let id = cur_id(&streams, *k);
                let r = cl.cmd(&format!("stream_binary_search {} time_ms={}", id, t_ms), &["ok: stream_binary_search", "err: stream_binary_search"]).unwrap_or_default();
                match parse_id_after(&r, "{\"filtered_msg_index\":") {
                    Some(p) if r.starts_with("ok:") => {
                        op_obs.push(O::T(vec![O::L(0), O::n(p)]));
                        chks.push(Chk::LookTime { k: *k, t_ms: *t_ms, pos: p as u64 });
                    }
                    _ => op_obs.push(O::T(vec![O::L(1)])),
                }
            }
        }
    }
    // final settle, then a probe stream over everything: the order of all_msgs, lifecycle ids
    settle!();
    let totals: Vec<O> = ids
        .iter()
        .map(|r| {
            if r.settled {
                let (ix, _, d, _, _) = delivered(&cl.log, r.id);
                O::T(vec![O::n(ix.len() as u64), O::n(d)])
            } else {
                O::T(vec![])
            }
        })
        .collect();
    let probe_reply = cl.cmd(&format!("stream {}", json!({"window": [0, n as u64 + 5], "binary": true})), &["ok: stream", "err: stream"]).unwrap_or_default();
    let probe_id = parse_id_after(&probe_reply, "{\"id\":").unwrap_or(0);
    cl.quiesce();
    let (_, _, _, probe, _) = delivered(&cl.log, probe_id);
    let _ = cl.cmd(&format!("stop {}", probe_id), &["ok: stop", "err: stop"]);
    let _ = cl.cmd("close", &["ok: 'close'", "err: close"]);
    if let Some(d) = &cl.dead {
        viol = Some(sess_fail("connection_lost", d.clone()));
    }
    if !finished {
        viol = Some(sess_fail("file_loaded", format!("the server never announced all {} messages twice", n)));
    }
    if cl.log.iter().any(|e| matches!(e, Ev::FileInfo(k) if *k < n) || matches!(e, Ev::StreamInfo { processed, .. } if *processed < n)) {
        tags.push("sess_saw_partial_load".into());
    }
    // the lifecycle table (see lc_table): start times computed from the delivered messages, independently of what the
    // server announces; the time of a message = start of its lifecycle + timestamp
    let lct = lc_table(&cl.log, &probe);
    tags.extend(lct.tags());
    // ---------------- oracle
    // (1) the probe is the file: same messages (index, times, ids, counters, payload text), file order unless sorted
    let key_of = |m: &RMsg| -> u64 { lct.time_of(m) };
    if viol.is_none() {
        if probe.len() != truth_file.len() {
            viol = Some(sess_fail("unfiltered_stream_is_file", format!("{} messages streamed, file has {}", probe.len(), truth_file.len())));
        } else {
            let mut seen = vec![false; truth_file.len()];
            for (p, m) in probe.iter().enumerate() {
                let t = match truth_file.get(m.index as usize) {
                    Some(t) => t,
                    None => {
                        viol = Some(sess_fail("message_intact", format!("index {} not in file", m.index)));
                        break;
                    }
                };
                if seen[m.index as usize] {
                    viol = Some(sess_fail("each_once", format!("index {} twice in the unfiltered stream", m.index)));
                    break;
                }
                seen[m.index as usize] = true;
                if !c.sorted && m.index as usize != p {
                    viol = Some(sess_fail("in_order", format!("position {} has index {}", p, m.index)));
                    break;
                }
                if let Some(d) = msg_diff(m, t) {
                    viol = Some(sess_fail("message_intact", format!("index {}: {}", m.index, d)));
                    break;
                }
            }
        }
    }
    let keys_monotone = probe.windows(2).all(|w| key_of(&w[0]) <= key_of(&w[1]));
    if keys_monotone {
        tags.push("sess_time_ordered".into());
    }
    // stream sequence of a filter set: positions of all_msgs (probe order) matching it
    let kind = |m: &RMsg| -> (u8, u8, u8) { (((m.ecu >> 24) as u8).wrapping_sub(b'0'), ((m.apid >> 24) as u8).wrapping_sub(b'0'), ((m.ctid >> 24) as u8).wrapping_sub(b'0')) };
    let seq_of = |fs: &Vec<CF>| -> Vec<usize> {
        (0..probe.len())
            .filter(|&p| {
                let (e, a, ct) = kind(&probe[p]);
                cf_match(fs, e, a, ct)
            })
            .collect()
    };
    // (1b) ids over the whole connection
    if viol.is_none() {
        viol = check_ids(&cl.log);
    }
    // (2) deliveries per announced id
    if viol.is_none() {
        for r in &ids {
            let st = &streams[r.k];
            let seq = seq_of(&st.fs);
            let lo = std::cmp::min(r.start as usize, seq.len());
            let hi = std::cmp::max(lo, std::cmp::min(r.end as usize, seq.len()));
            let want: Vec<u32> = seq[lo..hi].iter().map(|p| probe[*p].index).collect();
            let (ix, ps, d, bin, hdrs) = delivered(&cl.log, r.id);
            // nothing under this id before the reply announcing it, nothing after it was renewed / stopped
            let first = cl.log.iter().position(|e| ev_has_id(e, r.id));
            if let Some(f) = first {
                if f < r.announced_at {
                    viol = Some(sess_fail("not_before_reply", format!("id {} used at event {} before its reply at {}", r.id, f, r.announced_at)));
                    break;
                }
            }
            if let Some(s) = r.superseded_at {
                if let Some(l) = cl.log.iter().rposition(|e| ev_has_id(e, r.id)) {
                    if l > s {
                        viol = Some(sess_fail("nothing_after_renewal", format!("id {} used at event {} after it was replaced at {}", r.id, l, s)));
                        break;
                    }
                }
            }
            let is_query_done = d > 0;
            if ix.len() > want.len() || ix[..] != want[..ix.len()] {
                viol = Some(sess_fail("window_exact_once_in_order", format!("id {} filters {:?} window [{},{}) delivered {} want {}", r.id, st.fs, r.start, r.end, summ(&ix, &want), summ(&want, &ix))));
                break;
            }
            if (r.must_be_complete || is_query_done) && ix != want {
                viol = Some(sess_fail("window_complete", format!("id {} filters {:?} window [{},{}) delivered {} want {}", r.id, st.fs, r.start, r.end, summ(&ix, &want), summ(&want, &ix))));
                break;
            }
            if !st.binary {
                let wantp: Vec<u64> = (lo as u64..lo as u64 + ix.len() as u64).collect();
                if ps != wantp {
                    viol = Some(sess_fail("text_positions", format!("id {} positions {:?}", r.id, ps)));
                    break;
                }
                for (h, idx) in hdrs.iter().zip(ix.iter()) {
                    let mut buf = vec![];
                    truth_file[*idx as usize].header_as_text_to_write(&mut buf).unwrap();
                    if *h != String::from_utf8_lossy(&buf) {
                        viol = Some(sess_fail("message_intact", format!("text header of {}: {:?}", idx, h)));
                        break;
                    }
                }
            } else {
                for m in &bin {
                    if let Some(dd) = msg_diff(m, &truth_file[m.index as usize]) {
                        viol = Some(sess_fail("message_intact", format!("index {}: {}", m.index, dd)));
                        break;
                    }
                }
            }
            if viol.is_some() {
                break;
            }
            if st.is_stream && d != 0 {
                viol = Some(sess_fail("no_end_marker_for_streams", format!("id {}", r.id)));
                break;
            }
            if !st.is_stream && r.must_be_complete && r.superseded_at.is_none() && d != 1 {
                viol = Some(sess_fail("query_ends_once", format!("id {}: {} end markers", r.id, d)));
                break;
            }
            if d > 1 {
                viol = Some(sess_fail("query_ends_once", format!("id {}: {} end markers", r.id, d)));
                break;
            }
            if d == 1 {
                // the end marker is the last frame of the id
                let lastm = cl.log.iter().rposition(|e| matches!(e, Ev::Msgs(i, ms) if *i == r.id && !ms.is_empty()));
                let done = cl.log.iter().position(|e| matches!(e, Ev::Msgs(i, ms) if *i == r.id && ms.is_empty()));
                if let (Some(a), Some(b)) = (lastm, done) {
                    if a > b {
                        viol = Some(sess_fail("end_marker_last", format!("id {}", r.id)));
                        break;
                    }
                }
            }
        }
    }
    // (3) searches and lookups (they were asked in settled states: the stream's sequence is complete)
    let (mut n_time_checked, mut n_time_discriminating, mut n_time_unchecked, mut n_time_unchecked_not_linear) = (0u64, 0u64, 0u64, 0u64);
    let mut n_time_sorted_view_unordered = 0u64; // sort:true lookups in a view that is unordered for a reason other than the known finding: not judged
    let mut known_viol: Option<Verdict> = None;
    if viol.is_none() {
        for ch in &chks {
            match ch {
                Chk::Search { k, start, maxr, fs, idxs, next } => {
                    let seq = seq_of(&streams[*k].fs);
                    let (wi, wn) = search_truth(&probe, &seq, *start, *maxr, fs, &kind);
                    if *idxs != wi || *next != wn {
                        viol = Some(sess_fail("search_page", format!("search filters {:?} (stream filters {:?}) start {} max {}: got {:?} next {:?}, want {:?} next {:?}", fs, streams[*k].fs, start, maxr, idxs, next, wi, wn)));
                    }
                }
                Chk::Pages { k, start, fs, pages } => {
                    let seq = seq_of(&streams[*k].fs);
                    let all_hits: Vec<u64> = (0..seq.len() as u64)
                        .filter(|p| {
                            *p >= *start && {
                                let (e, a, ct) = kind(&probe[seq[*p as usize]]);
                                cf_match(fs, e, a, ct)
                            }
                        })
                        .collect();
                    let union: Vec<u64> = pages.iter().flat_map(|p| p.1.iter().cloned()).collect();
                    if union != all_hits {
                        viol = Some(sess_fail("search_pages_partition", format!("search filters {:?} (stream filters {:?}) start {}: union of pages {:?}, positions selected by the enabled filters {:?}", fs, streams[*k].fs, start, union, all_hits)));
                    }
                    // every position examined exactly once: page i examines [from_i, next_i)
                    for w in pages.windows(2) {
                        if w[0].2 != Some(w[1].0) {
                            viol = Some(sess_fail("search_pages_partition", "pages not contiguous".into()));
                        }
                    }
                    for (from, idxs, next) in pages {
                        let to = next.unwrap_or(std::cmp::max(*from, seq.len() as u64));
                        if idxs.iter().any(|i| *i < *from || *i >= to) || (next.is_some() && to <= *from) {
                            viol = Some(sess_fail("search_pages_partition", format!("page from {} next {:?} idxs {:?}", from, next, idxs)));
                        }
                    }
                    if pages.last().map(|p| p.2.is_some()).unwrap_or(true) {
                        viol = Some(sess_fail("search_pages_partition", "paging did not end".into()));
                    }
                }
                Chk::LookIdx { k, idx, pos } => {
                    let seq = seq_of(&streams[*k].fs);
                    let ai = probe.iter().position(|m| m.index as u64 == *idx);
                    match (ai, pos) {
                        (Some(ai), Some(p)) => {
                            let want = seq.iter().filter(|q| **q < ai).count() as u64;
                            if *p != want {
                                viol = Some(sess_fail("lookup_index_first_not_before", format!("index {}: got {}, first stream message not before it is at {}", idx, p, want)));
                            }
                        }
                        (Some(_), None) => viol = Some(sess_fail("lookup_index_first_not_before", format!("index {} exists but the lookup failed", idx))),
                        (None, Some(p)) => viol = Some(sess_fail("lookup_index_first_not_before", format!("index {} does not exist but the lookup returned {}", idx, p))),
                        (None, None) => {}
                    }
                }
                Chk::LookTime { k, t_ms, pos } => {
                    // the clause presupposes that all_msgs is partitioned by "time < requested" (a log ordered by time is,
                    // for every requested time): no message not before the requested time is followed by one before it
                    let t = t_ms * 1000;
                    let first = probe.iter().position(|m| key_of(m) >= t).unwrap_or(probe.len());
                    let partitioned = probe[first..].iter().all(|m| key_of(m) >= t);
                    if lct.usable && partitioned {
                        let seq = seq_of(&streams[*k].fs);
                        let want = seq.iter().position(|q| key_of(&probe[*q]) >= t).unwrap_or(seq.len()) as u64;
                        n_time_checked += 1;
                        // would the start times as sent to the client (BinLifecycle.start_time) give another answer?
                        let alt = seq.iter().position(|q| lct.presented_time_of(&probe[*q]) >= t).unwrap_or(seq.len()) as u64;
                        if alt != want {
                            n_time_discriminating += 1;
                        }
                        if *pos != want {
                            viol = Some(sess_fail(
                                "lookup_time_first_not_before",
                                format!(
                                    "time {} ms: got {}, first stream message not before it is at {} (message times = start of the lifecycle + timestamp, start = min(reception - timestamp) over the lifecycle's messages; lifecycles {:?})",
                                    t_ms, pos, want, lct.rows.iter().map(|r| (r.rank, r.start, r.resume)).collect::<Vec<_>>()
                                ),
                            ));
                        }
                    } else {
                        n_time_unchecked += 1;
                        // outside the clause's domain (see docs/C16.md): what does the server answer, compared with a linear
                        // scan of the delivered stream for the first message whose time is not before the requested one?
                        if lct.usable {
                            let seq = seq_of(&streams[*k].fs);
                            let linear = seq.iter().position(|q| key_of(&probe[*q]) >= t).unwrap_or(seq.len()) as u64;
                            if linear != *pos && c.sorted {
                                // with sort:true the order of all_msgs is the server's doing: the clause applies.  The one known
                                // way in which the time-sorted view is not in time order: the sorter keyed the messages with an
                                // earlier start estimate of a lifecycle than the final one (known finding)
                                let v = sess_fail(
                                    "lookup_time_first_not_before",
                                    format!(
                                        "sort:true, time {} ms: got {}, but the stream message at {} is not before it (all_msgs is not in the order of start + timestamp: positions, indices, time - requested around it: {:?})",
                                        t_ms,
                                        pos,
                                        linear,
                                        (first.saturating_sub(1)..std::cmp::min(probe.len(), first + 4)).map(|q| (q, probe[q].index, key_of(&probe[q]) as i64 - t as i64)).collect::<Vec<_>>()
                                    ),
                                );
                                if stale_start_explains_order(&probe) {
                                    if known_viol.is_none() {
                                        known_viol = Some(v);
                                    }
                                } else {
                                    // a time-sorted view that is not in the order of the final message times for another reason
                                    // (the streaming sorter promises order only under its bounded-delay hypotheses, C10: messages
                                    // delayed beyond its window, start estimates of several lifecycles moving) is outside the
                                    // lookup clause's domain exactly like an unsorted file: the clause presupposes a view
                                    // partitioned at the requested time.  Counted, not judged (first seen in the thorough tier,
                                    // where it had been reported as a violation although the property does not promise it).
                                    n_time_sorted_view_unordered += 1;
                                    let _ = v;
                                }
                            }
                            if linear != *pos {
                                n_time_unchecked_not_linear += 1;
                                if std::env::var("VERIF_C16_DEBUG").is_ok() {
                                    let around: Vec<(usize, u32, i64)> = (first.saturating_sub(2)..std::cmp::min(probe.len(), first + 8)).map(|q| (q, probe[q].index, key_of(&probe[q]) as i64 - t as i64)).collect();
                                    eprintln!("C16DEBUG sorted={} t_ms={} stream {} answer {} linear {} (all_msgs pos, index, time - t) around the first not-before: {:?}", c.sorted, t_ms, k, pos, linear, around);
                                }
                            }
                        }
                    }
                }
            }
            if viol.is_some() {
                break;
            }
        }
    }
    // the file as the model sees it: all_msgs order (ecu, apid, ctid, time key, index), run-length encoded
    let file_coq = format!("{} {}", lct.coq(), file_runs_coq(&probe, &lct, &kind));
    if n_time_checked > 0 {
        tags.push("look_time_checked".into());
    }
    if n_time_discriminating > 0 {
        tags.push("look_time_where_presented_start_answers_differently".into());
    }
    if n_time_unchecked > 0 {
        tags.push("look_time_not_partitioned_at_requested_time".into());
    }
    let mut counts = [0u64; 13];
    counts[6] = n_time_checked;
    counts[7] = n_time_discriminating;
    counts[8] = n_time_unchecked;
    counts[9 + c.sorted as usize] = n_time_unchecked;
    counts[11 + c.sorted as usize] = n_time_unchecked_not_linear;
    if c.sorted && n_time_unchecked > 0 {
        tags.push("look_time_not_partitioned_in_sorted_file".into());
    }
    if n_time_sorted_view_unordered > 0 {
        tags.push("look_time_sorted_view_unordered_not_judged".into());
    }
    for ch in &chks {
        match ch {
            Chk::LookIdx { k, .. } => counts[(c.sorted as usize) * 2 + (!cf_active(&streams[*k].fs)) as usize] += 1,
            Chk::LookTime { k, .. } => counts[4 + (!cf_active(&streams[*k].fs)) as usize] += 1,
            _ => {}
        }
    }
    // does the time sort reorder this file (msg.index not ascending along all_msgs)?
    if probe.windows(2).any(|w| w[0].index > w[1].index) {
        tags.push("sess_index_not_monotone".into());
    }
    if c.plugin {
        tags.push("open_plugin".into());
    }
    tags.push(format!("open_collect{}", c.collect));
    // a failure of the known class is the verdict only if nothing else failed
    let mut classes = vec![];
    if viol.is_none() && known_viol.is_some() {
        viol = known_viol;
        classes.push(CLASS_STALE_SORT.to_string());
    }
    SessOut { counts, obs: O::T(vec![O::T(op_obs), O::T(totals)]), verdict: viol.unwrap_or(Verdict::Ok), file_coq, tags, classes }
}

/// short rendering of a possibly very long list of indices, with the first position where it differs from `other`
fn summ(v: &[u32], other: &[u32]) -> String {
    if v.len() <= 40 {
        return format!("{:?}", v);
    }
    let d = v.iter().zip(other.iter()).position(|(a, b)| a != b).unwrap_or(std::cmp::min(v.len(), other.len()));
    format!("[{} entries, first {}, last {}; first difference at position {}]", v.len(), v[0], v[v.len() - 1], d)
}

const N_BAD_KINDS: u8 = 20;
/// the text of a command that the server has to reject; `id` = the announced id of the addressed stream
fn bad_cmd(kind: u8, id: u32, arg: u64) -> String {
    let unknown = 4_000_000_000u64 + arg % 1000;
    match kind % N_BAD_KINDS {
        0 => format!("stream_change_window {}", id),
        1 => format!("stream_change_window {} {}", id, arg),
        2 => format!("stream_change_window {} abc", id),
        3 => format!("stream_change_window {} {};{}", id, arg, arg + 3),
        4 => format!("stream_search {} {{bad", id),
        5 => format!("stream_search {} {{\"start_idx\":\"x\"}}", id),
        6 => format!("stream_search {} {{\"filters\":5}}", id),
        7 => format!("stream_search {} {{\"max_results\":[1]}}", id),
        8 => format!("stream_binary_search {} foo={}", id, arg),
        9 => format!("stream_binary_search {}", id),
        10 => format!("stream_binary_search {} index", id),
        11 => format!("stop {}", unknown),
        12 => format!("stream_change_window {} 1,2", unknown),
        13 => format!("stream_search {} {{}}", unknown),
        14 => format!("stream_binary_search {} index=1", unknown),
        15 => "stop abc".to_string(),
        16 => "stream {\"window\":[1]}".to_string(),
        17 => "stream {bad".to_string(),
        18 => "query {\"filters\":5}".to_string(),
        _ => "stream {\"window\":\"x\"}".to_string(),
    }
}
fn junk_text(j: u8) -> &'static str {
    match j % 4 {
        0 => "x",
        1 => "",
        2 => "-3",
        _ => "99999999999999999999999",
    }
}

/// ids over the whole connection: every frame travels under an id that a reply announced before, and a command
/// addressed to the announced id of a live stream is never answered "not found"
fn check_ids(log: &[Ev]) -> Option<Verdict> {
    let mut live: BTreeMap<u32, bool> = BTreeMap::new(); // id -> is_stream
    let mut announced: std::collections::BTreeSet<u32> = Default::default();
    let mut last_sent = String::new();
    for (at, e) in log.iter().enumerate() {
        let frame_id = match e {
            Ev::Msgs(i, _) => Some(*i),
            Ev::StreamInfo { id, .. } => Some(*id),
            Ev::Text(t) if t.starts_with("stream:") => t[7..].split(' ').next().and_then(|x| x.parse().ok()),
            _ => None,
        };
        if let Some(i) = frame_id {
            if !announced.contains(&i) {
                return Some(sess_fail("frame_under_unannounced_id", format!("event {} carries id {} which no reply has announced (after {:?})", at, i, last_sent)));
            }
        }
        match e {
            Ev::Sent(c) => last_sent = c.clone(),
            Ev::Text(t) => {
                if t.starts_with("ok: stream_change_window") {
                    let old = parse_id_after(t, "ok: stream_change_window").unwrap_or(0);
                    if let Some(new) = parse_id_after(t, "={\"id\":") {
                        let kind = live.remove(&old).unwrap_or(true);
                        live.insert(new, kind);
                        announced.insert(new);
                    }
                } else if t.starts_with("ok: stream ") || t.starts_with("ok: query ") {
                    if let Some(id) = parse_id_after(t, "{\"id\":") {
                        live.insert(id, t.starts_with("ok: stream "));
                        announced.insert(id);
                    }
                } else if t.starts_with("ok: stop") {
                    if let Some(id) = parse_id_after(t, "stream_id") {
                        live.remove(&id);
                    }
                } else if t.starts_with("err:") && t.contains("not found") {
                    let addressed: Option<u32> = last_sent.split(' ').nth(1).and_then(|x| x.parse().ok());
                    if let Some(id) = addressed {
                        if live.get(&id) == Some(&true) {
                            return Some(sess_fail("announced_id_usable", format!("{:?} on the announced id of a live stream was answered {:?}", last_sent, t)));
                        }
                    }
                }
            }
            _ => {}
        }
    }
    None
}

fn ev_has_id(e: &Ev, id: u32) -> bool {
    match e {
        Ev::Msgs(i, _) => *i == id,
        Ev::StreamInfo { id: i, .. } => *i == id,
        Ev::Text(t) => t.starts_with(&format!("stream:{} ", id)),
        _ => false,
    }
}

fn msg_diff(m: &RMsg, t: &DltMessage) -> Option<String> {
    let text = t.payload_as_text().unwrap_or_default().to_string();
    let want = RMsg {
        index: t.index,
        rt: t.reception_time_us,
        ts: t.timestamp_dms,
        ecu: t.ecu.as_u32le(),
        apid: t.apid().map(|a| a.as_u32le()).unwrap_or(0),
        ctid: t.ctid().map(|a| a.as_u32le()).unwrap_or(0),
        lc: m.lc,
        htyp: t.standard_header.htyp,
        mcnt: t.standard_header.mcnt,
        vmm: t.extended_header.as_ref().map(|e| e.verb_mstp_mtin).unwrap_or(0),
        noar: t.noar(),
        text,
    };
    if *m == want {
        None
    } else {
        Some(format!("got {:?} want {:?}", m, want))
    }
}

fn parse_search(r: &str) -> Option<(Vec<u64>, Option<u64>)> {
    if !r.starts_with("ok:") {
        return None;
    }
    let js = &r[r.find('=')? + 1..];
    let v: Value = serde_json::from_str(js).ok()?;
    let idxs = v["search_idxs"].as_array()?.iter().map(|x| x.as_u64().unwrap_or(u64::MAX)).collect();
    Some((idxs, v["next_search_idx"].as_u64()))
}

/// the search as the property describes it: examine positions from start, stop after maxr hits (at least one)
fn search_truth(probe: &[RMsg], seq: &[usize], start: u64, maxr: u64, fs: &Vec<CF>, kind: &dyn Fn(&RMsg) -> (u8, u8, u8)) -> (Vec<u64>, Option<u64>) {
    let mut idxs = vec![];
    let mut i = start as usize;
    while i < seq.len() {
        let (e, a, c) = kind(&probe[seq[i]]);
        i += 1;
        if cf_match(fs, e, a, c) {
            idxs.push(i as u64 - 1);
            if idxs.len() as u64 >= maxr {
                break;
            }
        }
    }
    (idxs, if i < seq.len() { Some(i as u64) } else { None })
}

fn file_runs_coq(probe: &[RMsg], lct: &LcTable, kind: &dyn Fn(&RMsg) -> (u8, u8, u8)) -> String {
    // (cnt, ecu, apid, ctid, lifecycle, ts0, dts, rt0, drt, idx0): messages of a run share the ids and the lifecycle;
    // timestamp, reception time and index advance linearly
    struct R {
        cnt: u64,
        k: (u8, u8, u8),
        lc: u64,
        ts0: u64,
        dts: u64,
        rt0: u64,
        drt: u64,
        i0: u64,
    }
    let mut runs: Vec<R> = vec![];
    for m in probe {
        let k = kind(m);
        let lc = lct.rank_of(m.lc);
        let (ts, rt, idx) = (m.ts as u64, m.rt, m.index as u64);
        if let Some(r) = runs.last_mut() {
            let same = r.k == k && r.lc == lc && idx == r.i0 + r.cnt;
            if same && r.cnt == 1 && ts >= r.ts0 && rt >= r.rt0 {
                r.dts = ts - r.ts0;
                r.drt = rt - r.rt0;
                r.cnt = 2;
                continue;
            }
            if same && r.cnt >= 2 && ts == r.ts0 + r.cnt * r.dts && rt == r.rt0 + r.cnt * r.drt {
                r.cnt += 1;
                continue;
            }
        }
        runs.push(R { cnt: 1, k, lc, ts0: ts, dts: 0, rt0: rt, drt: 0, i0: idx });
    }
    clist(&runs.iter().map(|r| format!("({}, {}, {}, {}, {}, {}, {}, {}, {}, {})", r.cnt, r.k.0, r.k.1, r.k.2, r.lc, r.ts0, r.dts, r.rt0, r.drt, r.i0)).collect::<Vec<_>>())
}

// ---------------------------------------------------------------- the lifecycle table of a session
/// One lifecycle as the oracle sees it.  `start` is computed from the delivered messages only: the minimum of
/// (reception time - timestamp) over the messages that carry the lifecycle id (the documented meaning of
/// `Lifecycle::start_time`, the reference of the message timestamps) - NOT what the server announces in `BinLifecycle`
/// (that is `resume_start_time()`, a presentation value).
struct LcRow {
    id: u32,
    rank: u64, // 1 + order of first appearance in all_msgs
    ecu: u32,
    start: u64,
    first_idx: u32,
    n: u64,
    announced: Option<(u64, Option<u64>)>, // latest BinLifecycle: (start_time, resume_time)
    /// for a lifecycle announced as resumed: the start of the lifecycle it resumes (the preceding lifecycle of the ECU)
    resume: Option<u64>,
    explained: bool,
}
struct LcTable {
    rows: Vec<LcRow>,
    by_id: BTreeMap<u32, usize>,
    /// the announcements are what the computed table explains (see lc_table); otherwise no time lookup is judged
    usable: bool,
    from_announcements: bool,
}
fn presented_start(start: u64, resume: Option<u64>) -> u64 {
    match resume {
        Some(o) if start <= o => o + 1,
        _ => start,
    }
}
impl LcTable {
    fn time_of(&self, m: &RMsg) -> u64 {
        match self.by_id.get(&m.lc) {
            Some(j) => self.rows[*j].start + m.ts as u64 * 100,
            None => m.rt,
        }
    }
    /// the time computed from the start time as sent to the client
    fn presented_time_of(&self, m: &RMsg) -> u64 {
        match self.by_id.get(&m.lc) {
            Some(j) => presented_start(self.rows[*j].start, self.rows[*j].resume) + m.ts as u64 * 100,
            None => m.rt,
        }
    }
    fn rank_of(&self, id: u32) -> u64 {
        self.by_id.get(&id).map(|j| self.rows[*j].rank).unwrap_or(0)
    }
    fn coq(&self) -> String {
        clist(&self.rows.iter().map(|r| format!("({}, {}, {})", r.rank, r.start, match r.resume { Some(o) => format!("Some {}", o), None => "None".to_string() })).collect::<Vec<_>>())
    }
    fn tags(&self) -> Vec<String> {
        let mut t = vec![format!("lc_count_{}", if self.rows.len() >= 5 { "5plus".to_string() } else { self.rows.len().to_string() })];
        let ecus: std::collections::BTreeSet<u32> = self.rows.iter().map(|r| r.ecu).collect();
        if ecus.len() >= 2 {
            t.push("lc_several_ecus".into());
        }
        if ecus.iter().any(|e| self.rows.iter().filter(|r| r.ecu == *e).count() >= 2) {
            t.push("lc_several_per_ecu".into());
        }
        for r in &self.rows {
            if let Some(o) = r.resume {
                t.push(if r.start > o { "lc_resumed_start_later".into() } else if r.start == o { "lc_resumed_start_equal_origin".into() } else { "lc_resumed_start_before_origin".into() });
                // a chain: the origin is itself a resumed lifecycle
                if self.rows.iter().any(|q| q.ecu == r.ecu && q.first_idx < r.first_idx && q.resume.is_some()) {
                    t.push("lc_resume_chain".into());
                }
            }
        }
        if self.rows.iter().any(|r| r.resume.is_none()) && self.rows.iter().any(|r| r.resume.is_some()) {
            t.push("lc_plain_and_resumed".into());
        }
        if !self.usable {
            t.push("lc_table_not_explained".into());
        }
        if self.from_announcements {
            t.push("lc_table_from_announcements".into());
        }
        t.sort();
        t.dedup();
        t
    }
}
/// The table is built from the messages of the unfiltered probe stream (lifecycle id, reception time, timestamp, ecu).
/// The server's announcements (`Lifecycles` frames, latest wins) are used for two things only: which lifecycles are
/// resumed ones (`resume_time` present; the origin is the preceding lifecycle of that ECU), and a consistency check -
/// every announced start must be `resume_start_time()` of the computed entry.  If that fails (a lifecycle whose start the
/// detector did not take from all of its messages, ...) the time lookups of the session are not judged.
fn lc_table(log: &[Ev], probe: &[RMsg]) -> LcTable {
    let mut ann: BTreeMap<u32, (u64, Option<u64>)> = BTreeMap::new();
    for e in log {
        if let Ev::Lifecycles(l) = e {
            for (id, st, _, res) in l {
                ann.insert(*id, (*st, *res));
            }
        }
    }
    let mut rows: Vec<LcRow> = vec![];
    let mut by_id: BTreeMap<u32, usize> = BTreeMap::new();
    for m in probe {
        let j = *by_id.entry(m.lc).or_insert_with(|| {
            rows.push(LcRow { id: m.lc, rank: rows.len() as u64 + 1, ecu: m.ecu, start: u64::MAX, first_idx: u32::MAX, n: 0, announced: ann.get(&m.lc).cloned(), resume: None, explained: false });
            rows.len() - 1
        });
        let r = &mut rows[j];
        r.start = std::cmp::min(r.start, m.rt.saturating_sub(m.ts as u64 * 100));
        r.first_idx = std::cmp::min(r.first_idx, m.index);
        r.n += 1;
    }
    for j in 0..rows.len() {
        if let Some((_, Some(_))) = rows[j].announced {
            let origin = (0..rows.len()).filter(|q| rows[*q].ecu == rows[j].ecu && rows[*q].first_idx < rows[j].first_idx).max_by_key(|q| rows[*q].first_idx);
            rows[j].resume = origin.map(|q| rows[q].start);
        }
    }
    for r in rows.iter_mut() {
        r.explained = match r.announced {
            Some((st, res)) => st == presented_start(r.start, r.resume) && res.is_some() == r.resume.is_some(),
            None => false,
        };
    }
    let mut usable = rows.iter().all(|r| r.explained);
    let mut from_announcements = false;
    if !usable && rows.iter().all(|r| matches!(r.announced, Some((_, None)))) {
        // no resumed lifecycle anywhere: the announced start IS start_time (what the check used before it computed the table)
        for r in rows.iter_mut() {
            r.start = r.announced.unwrap().0;
        }
        usable = true;
        from_announcements = true;
    }
    LcTable { rows, by_id, usable, from_announcements }
}

fn sop_coq(o: &SOp) -> String {
    match o {
        SOp::New { settle, is_stream, binary, fs, start, end } => format!("SNew {} {} {} {} {} {}", cbool(*settle), cbool(*is_stream), cbool(*binary), cfs_coq(fs), start, end),
        SOp::Window { settle, k, start, end } => format!("SWindow {} {} {} {}", cbool(*settle), k, start, end),
        SOp::Stop { k } => format!("SStop {}", k),
        SOp::Search { k, start, maxr, fs } => format!("SSearch {} {} {} {}", k, start, maxr, cfs_coq(fs)),
        SOp::Pages { k, start, maxr, fs } => format!("SPages {} {} {} {}", k, start, maxr, cfs_coq(fs)),
        SOp::LookIdx { k, idx } => format!("SLookIdx {} {}", k, idx),
        SOp::LookTime { k, t_ms } => format!("SLookTime {} {}", k, t_ms * 1000),
        SOp::Bad { kind, .. } => format!("SBad {}", kind % N_BAD_KINDS),
        SOp::WindowText { settle, k, a, b, .. } => format!("SWindow {} {} {} {}", cbool(*settle), k, a.unwrap_or(0), b.unwrap_or(0)),
        SOp::LookIdxAll { k, n } => format!("SLookIdxAll {} {}", k, n),
        SOp::LookTimeAll { k, t0_ms, step_ms, cnt } => format!("SLookTimeAll {} {} {} {}", k, t0_ms * 1000, step_ms * 1000, cnt),
        SOp::LookTimes { k, ts_ms } => format!("SLookTimes {} {}", k, cnums(&ts_ms.iter().map(|t| t * 1000).collect::<Vec<u64>>())),
    }
}

fn sess_record(sink: &mut Sink, c: SessCase, out: SessOut) {
    // out.file_coq = the lifecycle table and the file
    let input_coq = format!("(CSess {} {} {} {})", cbool(c.sorted), cbool(c.preload), out.file_coq, clist(&c.ops.iter().map(sop_coq).collect::<Vec<_>>()));
    let mut tags = out.tags.clone();
    for o in &c.ops {
        tags.push(
            match o {
                SOp::New { is_stream: true, binary: true, .. } => "op_stream_bin",
                SOp::New { is_stream: true, binary: false, .. } => "op_stream_text",
                SOp::New { is_stream: false, .. } => "op_query",
                SOp::Window { .. } => "op_window",
                SOp::Stop { .. } => "op_stop",
                SOp::Search { .. } => "op_search",
                SOp::Pages { .. } => "op_pages",
                SOp::LookIdx { .. } => "op_lookup_index",
                SOp::LookTime { .. } => "op_lookup_time",
                SOp::Bad { .. } => "op_rejected",
                SOp::WindowText { .. } => "op_window_text",
                SOp::LookIdxAll { .. } => "op_lookup_index_all",
                SOp::LookTimeAll { .. } => "op_lookup_time_all",
                SOp::LookTimes { .. } => "op_lookup_times",
            }
            .to_string(),
        );
    }
    for o in &c.ops {
        if let SOp::Bad { kind, .. } = o {
            tags.push(format!("rejected_kind{:02}", kind % N_BAD_KINDS));
        }
        if let SOp::New { start, end, .. } | SOp::Window { start, end, .. } = o {
            let w = end.saturating_sub(*start);
            tags.push(if w == 0 { "win_empty".to_string() } else { format!("win_1e{}", w.to_string().len() - 1) });
        }
    }
    // where the filter sets of the streams / queries and of the searches lie in the combination space
    {
        let kinds: Vec<(u8, u8, u8)> = c.file.iter().filter(|r| r.cnt > 0).map(|r| (r.ecu, r.apid, r.ctid)).collect();
        let news: Vec<&Vec<CF>> = c.ops.iter().filter_map(|o| if let SOp::New { fs, .. } = o { Some(fs) } else { None }).collect();
        for o in &c.ops {
            match o {
                SOp::New { fs, .. } => tags.extend(fs_tags("new", fs, &kinds)),
                SOp::Search { k, fs, .. } | SOp::Pages { k, fs, .. } => {
                    let empty = vec![];
                    let sfs: &Vec<CF> = news.get(*k).copied().unwrap_or(&empty);
                    let seen: Vec<(u8, u8, u8)> = kinds.iter().cloned().filter(|m| cf_match(sfs, m.0, m.1, m.2)).collect();
                    tags.extend(fs_tags("search", fs, &seen));
                }
                _ => {}
            }
        }
    }
    let nontrivial = c.ops.len() >= 3 && c.ops.iter().any(|o| matches!(o, SOp::New { fs, .. } if cf_active(fs)));
    let id = sink.next_id();
    let key = format!("{:?}", c);
    sink.push(Case { id, input_coq, input_json: json!({"kind": "sess", "sess": c}), obs: out.obs, verdict: out.verdict, classes: out.classes.clone(), tags, nontrivial, key });
}

fn gen_window(rng: &mut Rng, n: u64) -> (u64, u64) {
    match rng.below(8) {
        0 => (if n > 200 { n - 30 } else { 0 }, n + 5),
        1 => {
            let a = rng.below(n + 1);
            (a, a)
        }
        2 => (n + 2, n + 9),
        3 => {
            let a = rng.below(n + 1);
            (a + 2, a)
        }
        4 => (0, 20),
        _ => {
            let a = rng.below(n + 1);
            (a, a + 1 + rng.below(std::cmp::min(n, 40) + 1))
        }
    }
}

fn gen_file(rng: &mut Rng, big: bool) -> Vec<FRun> {
    let mut ts = rng.below(50) as u32;
    let mut v = vec![];
    if big {
        let nruns = 8 + rng.below(12);
        for _ in 0..nruns {
            let cnt = 3000 + rng.below(6000) as u32;
            let dts = *rng.pick(&[0u32, 0, 1, 2]);
            v.push(FRun { cnt, ecu: 1, apid: rng.below(3) as u8, ctid: rng.below(2) as u8, ts0: ts, dts, jit: 0 });
            ts += cnt * dts + rng.below(3) as u32;
        }
    } else {
        let n = 1 + rng.size(30);
        let two_ecus = rng.chance(1, 4);
        let unordered = rng.chance(1, 8);
        for _ in 0..n {
            ts += *rng.pick(&[0u32, 0, 0, 10, 10, 20]);
            let t = if unordered && rng.chance(1, 3) { rng.below(40) as u32 } else { ts };
            v.push(FRun { cnt: 1, ecu: if two_ecus { 1 + rng.below(2) as u8 } else { 1 }, apid: rng.below(3) as u8, ctid: rng.below(2) as u8, ts0: t, dts: 0, jit: 0 });
        }
    }
    v
}

/// small files whose calculated-time order differs from the index (file) order: timestamps swapped within pairs,
/// rotated within triples, shuffled in small windows, delayed receptions (jitter) of one or two ECUs with different
/// offsets, plus ties
fn gen_file_reordered(rng: &mut Rng) -> Vec<FRun> {
    let n = 4 + rng.below(22) as usize;
    let step = *rng.pick(&[10u32, 10, 20, 5]);
    let t0 = 40 + rng.below(30) as u32;
    let mut ts: Vec<u32> = (0..n as u32).map(|i| t0 + step * i).collect();
    let mut jit: Vec<u32> = vec![0; n];
    let two_ecus = rng.chance(1, 3);
    match rng.below(5) {
        0 => {
            for i in (0..n - 1).step_by(2) {
                ts.swap(i, i + 1);
            }
        }
        1 => {
            for i in (0..n.saturating_sub(2)).step_by(3) {
                ts[i..i + 3].rotate_left(1 + rng.below(2) as usize);
            }
        }
        2 => {
            let mut i = 0;
            while i < n {
                let w = std::cmp::min(2 + rng.below(3) as usize, n - i);
                for j in (1..w).rev() {
                    let k = rng.below(j as u64 + 1) as usize;
                    ts.swap(i + j, i + k);
                }
                i += w;
            }
        }
        3 => {
            // receptions in file order, some messages were delayed: timestamp = reception - delay
            for i in 0..n {
                jit[i] = *rng.pick(&[0u32, 0, 0, 7, 13, 25, 38]);
                ts[i] = t0 + step * i as u32 + 40 - jit[i];
            }
        }
        _ => {
            for i in 0..n {
                if rng.chance(1, 3) && i > 0 {
                    ts[i] = ts[i - 1]; // ties
                } else if rng.chance(1, 4) {
                    ts[i] = t0 + rng.below((step as u64) * n as u64) as u32;
                }
            }
        }
    }
    (0..n)
        .map(|i| {
            let ecu = if two_ecus { 1 + (i % 2) as u8 } else { 1 };
            // the second ECU booted later: smaller timestamps at the same reception times
            let off = if ecu == 2 { 30 } else { 0 };
            FRun { cnt: 1, ecu, apid: rng.below(3) as u8, ctid: rng.below(2) as u8, ts0: ts[i] - off, dts: 0, jit: jit[i] + off }
        })
        .collect()
}

/// every lookup kind at every position: index= for every index of the file and two beyond, time_ms= from before the
/// first to after the last message, on an unfiltered stream, a stream with a positive and one with a negative filter
fn gen_lookup_sess(rng: &mut Rng, sorted: bool, collect: u8, plugin: bool) -> SessCase {
    let file = if sorted || rng.chance(1, 2) { gen_file_reordered(rng) } else { gen_file(rng, false) };
    let n: u64 = file.iter().map(|r| r.cnt as u64).sum();
    let max_t: u64 = file.iter().map(|r| (r.ts0 + r.jit) as u64).max().unwrap_or(0);
    let mut ops = vec![
        SOp::New { settle: true, is_stream: true, binary: true, fs: vec![], start: 0, end: 3 },
        SOp::New { settle: true, is_stream: true, binary: true, fs: vec![(0, 1, rng.below(3) as u8, 1)], start: 0, end: 3 },
        SOp::New { settle: true, is_stream: true, binary: rng.chance(1, 2), fs: vec![(1, 1, rng.below(3) as u8, 1), (*rng.pick(&[1u8, 3]), 2, rng.below(2) as u8, 1)], start: 1, end: 2 },
    ];
    let span_ms = max_t / 10 + 4;
    let step_ms = (span_ms + 47) / 48;
    for k in 0..3usize {
        ops.push(SOp::Bad { k, kind: rng.below(N_BAD_KINDS as u64) as u8, arg: rng.below(50) });
        ops.push(SOp::LookIdxAll { k, n: n + 1 });
    }
    for k in 0..3usize {
        ops.push(SOp::LookTimeAll { k, t0_ms: BASE_US / 1000 - 1, step_ms, cnt: span_ms / step_ms + 2 });
    }
    SessCase { collect, plugin, sorted, preload: rng.chance(2, 3), file, ops }
}


// ---------------------------------------------------------------- logs whose lifecycle table has entries of every kind
/// Kinds of lifecycle segments of one ECU (the detector decides; the oracle takes the lifecycles from what is delivered):
/// 0 plain: the first lifecycle, or a reboot (timestamps restart after a pause of 2-9 s);
/// 1 resumed, start later than the origin's: the reception times jump by 12-36 s, the timestamps go on;
/// 2 resumed, start moved BEFORE the origin's: as 1, then the timestamp clock runs ahead and the later messages arrive
///   with a delay that is `back` smaller than the origin's smallest delay (min(reception - timestamp) moves before the
///   origin's start: `resume_start_time()` = origin's start + 1 differs from `start_time`);
/// 3 as 2 with `back` = 0: start exactly equal to the origin's.
/// Returns the file (reception order over all ECUs) and the times (ms) at and next to every message time, before the
/// first / after the last message of every segment.
fn gen_lc_file(rng: &mut Rng, plan: &[Vec<u8>]) -> (Vec<FRun>, Vec<u64>) {
    // (reception in 0.1 ms relative to BASE, ecu index, timestamp, delay)
    let mut all: Vec<(u64, usize, u32, u32)> = vec![];
    let mut times: Vec<u64> = vec![];
    for (ei, segs) in plan.iter().enumerate() {
        let mut jit_lc: u32 = 700_000 + rng.below(30) as u32 * 1_000 + ei as u32 * 3_330;
        let mut ts: u32 = 1_000 + rng.below(50) as u32 * 10;
        let mut last_rt: u64 = 0;
        for (si, kind) in segs.iter().enumerate() {
            let n = 3 + rng.below(5) as u32;
            let step = *rng.pick(&[1_000u32, 2_500, 5_000, 10_000]);
            // the message with the smallest delay of the segment (it defines the start) is not always the first one: the
            // start estimate of a lifecycle moves while its messages arrive
            let z = if rng.chance(1, 3) { 0 } else { rng.below(n as u64) as u32 };
            let jitter = |rng: &mut Rng, first: bool| -> u32 {
                if first {
                    0
                } else {
                    *rng.pick(&[0u32, 0, 10, 30, 70, 200, 3, 1])
                }
            };
            let mut seg: Vec<(u32, u32)> = vec![]; // (timestamp, delay)
            match *kind {
                0 => {
                    if si > 0 {
                        let pause = 20_000 + rng.below(8) as u64 * 10_000;
                        ts = 1_000 + rng.below(30) as u32 * 10;
                        jit_lc = (last_rt + pause - ts as u64) as u32;
                    }
                    for j in 0..n {
                        seg.push((ts, jit_lc + jitter(rng, j == z)));
                        ts += step;
                    }
                }
                1 => {
                    jit_lc += 120_000 + rng.below(25) as u32 * 10_000;
                    for j in 0..n {
                        seg.push((ts, jit_lc + jitter(rng, j == z)));
                        ts += step;
                    }
                }
                _ => {
                    let gap = 120_000 + rng.below(20) as u32 * 10_000;
                    let back = if *kind == 3 { 0 } else { *rng.pick(&[1u32, 10, 1_000, 10_000, 30_000, 50_000, 100_000, 200_000]) };
                    let back = std::cmp::min(back, jit_lc);
                    for _ in 0..(1 + rng.below(2)) {
                        seg.push((ts, jit_lc + gap + jitter(rng, false)));
                        ts += step;
                    }
                    ts += gap + back + 200; // the timestamps run ahead: the reception times keep increasing
                    jit_lc -= back;
                    for j in 0..n {
                        seg.push((ts, jit_lc + jitter(rng, j == z)));
                        ts += step;
                    }
                }
            }
            // the times of the segment's messages (intended lifecycle start = BASE + smallest delay)
            let key_ms = |t: u32| -> u64 { (BASE_US + (jit_lc as u64 + t as u64) * 100) / 1000 };
            times.push(key_ms(seg[0].0).saturating_sub(1 + rng.below(40)));
            times.push(key_ms(seg[seg.len() - 1].0) + 2 + rng.below(40));
            for (t, d) in &seg {
                times.push(key_ms(*t));
                times.push(key_ms(*t) + 1);
                if rng.chance(1, 3) {
                    times.push(key_ms(*t) + 1 + rng.below(step as u64 / 10));
                }
                last_rt = *t as u64 + *d as u64;
                all.push((last_rt, ei, *t, *d));
            }
        }
    }
    all.sort_by_key(|m| (m.0, m.1));
    times.sort();
    times.dedup();
    let file = all.iter().map(|(_, ei, t, d)| FRun { cnt: 1, ecu: 1 + *ei as u8, apid: rng.below(3) as u8, ctid: rng.below(2) as u8, ts0: *t, dts: 0, jit: *d }).collect();
    (file, times)
}

fn lc_plan(rng: &mut Rng, j: u64) -> Vec<Vec<u8>> {
    match j % 8 {
        0 => vec![vec![0, 2]],
        1 => vec![vec![0, 1], vec![0]],
        2 => vec![vec![0, 3], vec![0, 0]],
        3 => vec![vec![0, 2, 1]],
        4 => vec![vec![0, 1, 2], vec![0, 2]],
        5 => vec![vec![0, 2, 2]],
        6 => vec![vec![0, 0, 2], vec![0, 1, 3]],
        _ => (0..(1 + rng.below(2)))
            .map(|_| {
                let mut v = vec![0u8];
                for _ in 0..(1 + rng.below(3)) {
                    v.push(rng.below(4) as u8);
                }
                v
            })
            .collect(),
    }
}

/// lookups on logs whose lifecycle table has entries of every kind (plain, resumed with a later start, resumed with the
/// start moved to / before the origin's, chains, several ECUs in parallel): index= for every index, time_ms= swept across
/// every lifecycle (before its first message, on and between the message times, after the last), on an unfiltered stream
/// and on filtered ones (one apid; everything but one ECU / ctid), crossed with the open options (sort on / off)
fn gen_lc_sess(rng: &mut Rng, j: u64, sorted: bool, collect: u8, plugin: bool) -> SessCase {
    let plan = lc_plan(rng, j);
    let (file, times) = gen_lc_file(rng, &plan);
    let n = file.len() as u64;
    let neg = if plan.len() >= 2 && rng.chance(2, 3) { (1u8, 0u8, 1 + rng.below(2) as u8, 1u8) } else { (1, 2, rng.below(2) as u8, 1) };
    let mut ops = vec![
        SOp::New { settle: true, is_stream: true, binary: true, fs: vec![], start: 0, end: n + 5 },
        SOp::New { settle: true, is_stream: true, binary: rng.chance(3, 4), fs: vec![(0, 1, rng.below(3) as u8, 1)], start: 0, end: 4 },
        SOp::New { settle: true, is_stream: true, binary: true, fs: vec![neg], start: 1, end: 3 },
    ];
    for k in 0..3usize {
        ops.push(SOp::LookIdxAll { k, n: n + 1 });
        ops.push(SOp::LookTimes { k, ts_ms: times.clone() });
    }
    // the rest of the machinery on such a log
    let (start, end) = gen_window(rng, n);
    ops.push(SOp::Window { settle: true, k: 1, start, end });
    ops.push(SOp::Pages { k: 0, start: rng.below(3), maxr: 1 + rng.below(4), fs: gen_filters(rng) });
    ops.push(SOp::New { settle: true, is_stream: false, binary: true, fs: gen_filters(rng), start: 0, end: n });
    ops.push(SOp::LookTime { k: 1, t_ms: *rng.pick(&times) });
    SessCase { collect, plugin, sorted, preload: rng.chance(3, 4), file, ops }
}

/// a small file with messages of all 12 (ecu, apid, ctid) combinations, shuffled, some of them several times
fn gen_file_combos(rng: &mut Rng) -> Vec<FRun> {
    let mut combos: Vec<(u8, u8, u8)> = vec![];
    for e in 1..=2u8 {
        for a in 0..3u8 {
            for c in 0..2u8 {
                combos.push((e, a, c));
            }
        }
    }
    for _ in 0..rng.below(10) {
        combos.push((1 + rng.below(2) as u8, rng.below(3) as u8, rng.below(2) as u8));
    }
    for j in (1..combos.len()).rev() {
        let k = rng.below(j as u64 + 1) as usize;
        combos.swap(j, k);
    }
    let mut ts = rng.below(50) as u32;
    combos
        .iter()
        .map(|(e, a, c)| {
            ts += *rng.pick(&[0u32, 0, 10, 10, 20]);
            FRun { cnt: 1, ecu: *e, apid: *a, ctid: *c, ts0: ts, dts: 0, jit: 0 }
        })
        .collect()
}

/// the combination space of filter sets, swept: session j creates streams / queries with the shapes 8j .. 8j+7
/// (0 / 1 / 2 / 3+ positive x negative x event filters, enabled / disabled mixes) on a file with messages of every
/// combination, and searches (single pages and paging) with a permutation of the shapes in unfiltered and filtered streams
fn gen_combo_sess(rng: &mut Rng, j: u64) -> SessCase {
    let file = gen_file_combos(rng);
    let n: u64 = file.len() as u64;
    let mut ops = vec![SOp::New { settle: true, is_stream: true, binary: true, fs: vec![], start: 0, end: n + 5 }];
    let mut stream_ks: Vec<usize> = vec![0];
    for i in 0..8u64 {
        let d = gen_dis_mode(rng);
        let fs = shaped_filters(rng, shape_of(8 * j + i), d);
        let (start, end) = if rng.chance(2, 3) { (0, n + 3) } else { gen_window(rng, n) };
        let is_stream = rng.chance(1, 2);
        if is_stream {
            stream_ks.push(1 + i as usize);
        }
        ops.push(SOp::New { settle: true, is_stream, binary: rng.chance(3, 4), fs, start, end });
        let d = gen_dis_mode(rng);
        let gs = shaped_filters(rng, shape_of((8 * j + i) * 37 + 11), d);
        let k = if rng.chance(1, 2) { 0 } else { *rng.pick(&stream_ks) };
        if rng.chance(2, 3) {
            ops.push(SOp::Pages { k, start: rng.below(3), maxr: *rng.pick(&[1u64, 2, 3, 5, 100]), fs: gs });
        } else {
            ops.push(SOp::Search { k, start: rng.below(n / 2 + 1), maxr: *rng.pick(&[0u64, 1, 2, 3, 100]), fs: gs });
        }
    }
    SessCase { collect: (j % 3) as u8, plugin: j % 5 == 4, sorted: j % 4 == 3, preload: j % 6 != 5, file, ops }
}

fn gen_sess(rng: &mut Rng, racing: bool, sorted: bool) -> SessCase {
    let file = if sorted && !racing { gen_file_reordered(rng) } else { gen_file(rng, racing) };
    let n: u64 = file.iter().map(|r| r.cnt as u64).sum();
    let max_ts: u64 = file.iter().map(|r| (r.ts0 + r.cnt * r.dts) as u64).max().unwrap_or(0);
    let mut ops = vec![];
    let mut kinds: Vec<bool> = vec![]; // is_stream of the k-th stream
    let nraced = if racing { 1 + rng.below(3) } else { 0 };
    let nops = nraced + 2 + rng.below(6);
    for j in 0..nops {
        let raced = j < nraced;
        let settle = !raced;
        let choice = if kinds.is_empty() { 0 } else { rng.below(13) };
        let streams_k: Vec<usize> = (0..kinds.len()).filter(|k| kinds[*k]).collect();
        match choice {
            0 | 1 => {
                let (start, end) = gen_window(rng, n);
                let is_stream = rng.chance(2, 3);
                kinds.push(is_stream);
                ops.push(SOp::New { settle, is_stream, binary: rng.chance(3, 4) || racing, fs: gen_filters(rng), start, end });
            }
            2 | 3 if !streams_k.is_empty() => {
                let (start, end) = gen_window(rng, n);
                ops.push(SOp::Window { settle, k: *rng.pick(&streams_k), start, end });
            }
            10 | 11 if !streams_k.is_empty() => {
                // a rejected command on a live stream, then the session goes on with valid commands on the SAME announced id
                let k = *rng.pick(&streams_k);
                ops.push(SOp::Bad { k, kind: rng.below(N_BAD_KINDS as u64) as u8, arg: rng.below(50) });
                if rng.chance(1, 3) {
                    ops.push(SOp::Bad { k, kind: rng.below(11) as u8, arg: rng.below(50) });
                }
                let (start, end) = gen_window(rng, n);
                match rng.below(if raced { 1 } else { 5 }) {
                    0 | 1 => ops.push(SOp::Window { settle, k, start, end }),
                    2 => ops.push(SOp::LookIdx { k, idx: rng.below(n + 1) }),
                    3 => ops.push(SOp::Search { k, start: if racing { n.saturating_sub(rng.below(400)) } else { rng.below(n + 1) }, maxr: 2, fs: gen_filters(rng) }),
                    _ => ops.push(SOp::Stop { k }),
                }
            }
            12 if !streams_k.is_empty() => {
                let (start, end) = gen_window(rng, n);
                let (a, b) = match rng.below(3) {
                    0 => (None, Some(end)),
                    1 => (Some(start), None),
                    _ => (None, None),
                };
                ops.push(SOp::WindowText { settle, k: *rng.pick(&streams_k), a, b, junk: rng.below(16) as u8 });
            }
            _ if raced => {
                let (start, end) = gen_window(rng, n);
                kinds.push(true);
                ops.push(SOp::New { settle, is_stream: true, binary: true, fs: gen_filters(rng), start, end });
            }
            4 => ops.push(SOp::Search { k: rng.below(kinds.len() as u64) as usize, start: if racing { n.saturating_sub(rng.below(400)) } else { rng.below(n + 2) }, maxr: *rng.pick(&[0u64, 1, 1, 2, 3, 100]), fs: gen_filters(rng) }),
            5 | 6 => ops.push(SOp::Pages { k: rng.below(kinds.len() as u64) as usize, start: if racing { n.saturating_sub(1 + rng.below(400)) } else { rng.below(n / 2 + 1) }, maxr: if racing { 40 + rng.below(100) } else { *rng.pick(&[1u64, 1, 2, 3, 5]) }, fs: gen_filters(rng) }),
            7 if !racing && rng.chance(1, 2) => ops.push(SOp::LookIdxAll { k: rng.below(kinds.len() as u64) as usize, n: n + 1 }),
            7 => ops.push(SOp::LookIdx { k: rng.below(kinds.len() as u64) as usize, idx: rng.below(n + 2) }),
            8 => ops.push(SOp::LookTime { k: rng.below(kinds.len() as u64) as usize, t_ms: BASE_US / 1000 + rng.below(max_ts / 10 + 3) }),
            _ => {
                if rng.chance(1, 3) {
                    ops.push(SOp::Stop { k: rng.below(kinds.len() as u64) as usize })
                } else {
                    ops.push(SOp::LookTime { k: rng.below(kinds.len() as u64) as usize, t_ms: BASE_US / 1000 + rng.below(max_ts / 10 + 3) })
                }
            }
        }
    }
    SessCase { collect: rng.below(3) as u8, plugin: rng.chance(1, 4), sorted, preload: !racing, file, ops }
}

/// window sizes over several orders of magnitude: log-uniform, neighbours of powers of ten and of two,
/// a few fixed multiples, and "beyond the end"
fn sweep_size(rng: &mut Rng, n: u64) -> u64 {
    match rng.below(6) {
        0 => {
            // log-uniform in [1, 4n)
            let bits = 1 + rng.below(64 - (4 * n).leading_zeros() as u64);
            1 + rng.below(1u64 << bits.min(40)) % (4 * n)
        }
        1 => {
            let p = 10u64.pow(2 + rng.below(4) as u32); // 10^2 .. 10^5
            p + rng.below(3) - 1
        }
        2 => {
            let p = 1u64 << (9 + rng.below(10)); // 2^9 .. 2^18
            p + rng.below(3) - 1
        }
        3 => *rng.pick(&[1u64, 1000, 50_000, 99_999, 100_000, 100_001, 110_000, 250_000]),
        4 => n + rng.below(1000),      // the whole file and beyond
        _ => n / (1 + rng.below(4)) + rng.below(3), // fractions of the file
    }
}

/// a session on a file of 120k..300k tiny messages: queries and streams with windows of all sizes, with and
/// without filters, issued while the file is parsed and after the parser has finished; no searches (the
/// model's search is quadratic on such a file)
fn gen_large_sess(rng: &mut Rng, n_target: u64) -> SessCase {
    let nruns = 3 + rng.below(4);
    let mut file = vec![];
    let mut ts = rng.below(50) as u32;
    let mut left = n_target;
    for j in 0..nruns {
        let cnt = if j + 1 == nruns { left } else { (left / (nruns - j)) / 2 + rng.below(left / (nruns - j)) };
        let cnt = cnt.max(1).min(left);
        left -= cnt;
        let dts = *rng.pick(&[0u32, 0, 1, 1, 2]);
        file.push(FRun { cnt: cnt as u32, ecu: 1, apid: (j % 3) as u8, ctid: rng.below(2) as u8, ts0: ts, dts, jit: 0 });
        ts += cnt as u32 * dts + rng.below(3) as u32;
        if left == 0 {
            break;
        }
    }
    let n: u64 = file.iter().map(|r| r.cnt as u64).sum();
    let max_ts: u64 = file.iter().map(|r| (r.ts0 + r.cnt * r.dts) as u64).max().unwrap_or(0);
    let filt = |rng: &mut Rng| -> Vec<CF> {
        match rng.below(7) {
            0 | 1 => vec![],
            2 => vec![(1, 1, rng.below(3) as u8, 1)],                   // everything but one apid
            3 => vec![(0, 1, rng.below(3) as u8, 1), (0, 2, rng.below(2) as u8, 1)], // one apid or one ctid
            4 => {
                // two event filters: the union of two apids
                let a = rng.below(3) as u8;
                vec![(3, 1, a, 1), (3, 1, (a + 1 + rng.below(2) as u8) % 3, 2)]
            }
            5 => vec![(0, 1, rng.below(3) as u8, 0), (1, 2, rng.below(2) as u8, 1), (3, 1, rng.below(3) as u8, 0)], // disabled positive / event next to a negative
            _ => vec![(3, 3, rng.below(6) as u8, 1), (3, 1, rng.below(3) as u8, 1), (0, 0, 1, 2)],
        }
    };
    let win = |rng: &mut Rng| -> (u64, u64) {
        let w = sweep_size(rng, n);
        let start = match rng.below(4) {
            0 => 0,
            1 => rng.below(2000),
            2 => n.saturating_sub(w / 2 + rng.below(1000)), // crosses the end
            _ => rng.below(n),
        };
        (start, start + w)
    };
    let mut ops = vec![];
    // while the file is parsed
    let nraced = 1 + rng.below(3);
    for _ in 0..nraced {
        let (start, end) = win(rng);
        ops.push(SOp::New { settle: false, is_stream: rng.chance(1, 2), binary: true, fs: filt(rng), start, end });
    }
    // after the parser has finished (a settled command first: the settled command itself is still sent while the
    // file is parsed): always a query over the whole file and beyond, and one over the whole filtered stream
    ops.push(SOp::New { settle: true, is_stream: true, binary: true, fs: vec![], start: 0, end: 1 });
    ops.push(SOp::New { settle: true, is_stream: false, binary: true, fs: vec![], start: rng.below(3), end: n + 1 + rng.below(1000) });
    ops.push(SOp::New { settle: true, is_stream: false, binary: true, fs: vec![(1, 1, rng.below(3) as u8, 1)], start: 0, end: 4 * n });
    let mut kinds: Vec<bool> = ops.iter().map(|o| matches!(o, SOp::New { is_stream: true, .. })).collect();
    for _ in 0..(3 + rng.below(4)) {
        let streams_k: Vec<usize> = (0..kinds.len()).filter(|k| kinds[*k]).collect();
        match rng.below(8) {
            0..=3 => {
                let (start, end) = win(rng);
                let is_stream = rng.chance(1, 3);
                kinds.push(is_stream);
                ops.push(SOp::New { settle: true, is_stream, binary: true, fs: filt(rng), start, end });
            }
            4 | 5 if !streams_k.is_empty() => {
                let (start, end) = win(rng);
                ops.push(SOp::Window { settle: true, k: *rng.pick(&streams_k), start, end });
            }
            6 => ops.push(SOp::LookIdx { k: rng.below(kinds.len() as u64) as usize, idx: rng.below(n + 2) }),
            _ => ops.push(SOp::LookTime { k: rng.below(kinds.len() as u64) as usize, t_ms: BASE_US / 1000 + rng.below(max_ts / 10 + 3) }),
        }
    }
    SessCase { collect: 0, plugin: false, sorted: false, preload: false, file, ops }
}

fn run_sessions(cases: Vec<SessCase>) -> Vec<(SessCase, SessOut)> {
    if cases.is_empty() {
        return vec![];
    }
    let dir = tempfile::tempdir().unwrap();
    let srv = Server::start();
    let port = srv.port;
    let par = 4usize;
    let mut outs: Vec<Option<SessOut>> = (0..cases.len()).map(|_| None).collect();
    let dpath = dir.path().to_path_buf();
    for (chunk_no, chunk) in cases.chunks(par).enumerate() {
        let hs: Vec<_> = chunk
            .iter()
            .enumerate()
            .map(|(j, c)| {
                let c = c.clone();
                let d = dpath.clone();
                let uniq = (chunk_no * par + j) as u64;
                std::thread::spawn(move || run_session(port, &c, &d, uniq))
            })
            .collect();
        for (j, h) in hs.into_iter().enumerate() {
            outs[chunk_no * par + j] = Some(h.join().unwrap_or_else(|_| SessOut { counts: [0; 13], obs: O::T(vec![O::L(96)]), verdict: sess_fail("harness_panic", "session thread panicked".into()), file_coq: "[] []".into(), tags: vec![], classes: vec![] }));
        }
    }
    drop(srv);
    cases.into_iter().zip(outs.into_iter().map(|o| o.unwrap())).collect()
}

// ================================================================ corpus
fn corpus_lib() -> Vec<LibCase> {
    let p1 = |a: u8| vec![(0u8, 1u8, a, 1u8)];
    // messages of every (ecu, apid) combination, twice
    let all6: Vec<(u64, u8, u8)> = (0..12u8).map(|j| (1 + (j % 2) as u64, 1 + j % 2, (j / 2) % 3)).collect();
    let two_calls = vec![LCall::Proto { arrive: 7, chunk: 4 }, LCall::Proto { arrive: 100, chunk: 3 }, LCall::Proto { arrive: 0, chunk: 3_000_000 }, LCall::Proto { arrive: 0, chunk: 3_000_000 }];
    vec![
        // the unit tests' shapes
        LibCase { is_stream: true, fs: p1(1), start: 0, end: 20, log: vec![(1, 1, 1), (3, 1, 0), (2, 1, 1)], calls: vec![LCall::Proto { arrive: 0, chunk: 10 }, LCall::Proto { arrive: 1, chunk: 10 }, LCall::Proto { arrive: 1, chunk: 1 }, LCall::Proto { arrive: 9, chunk: 10000 }] },
        LibCase { is_stream: false, fs: p1(1), start: 1, end: 2, log: vec![(3, 1, 1)], calls: vec![LCall::Raw { offset: 0, from: 0, cnt: 1, chunk: 10 }, LCall::Raw { offset: 10, from: 1, cnt: 1, chunk: 1 }, LCall::Raw { offset: 20, from: 2, cnt: 1, chunk: 10 }, LCall::End { e: 1000 }, LCall::Raw { offset: 20, from: 2, cnt: 1, chunk: 10 }] },
        // query: more matches in a chunk than wanted -> marker at the first unwanted one, then a larger window resumes there
        LibCase { is_stream: false, fs: p1(1), start: 0, end: 2, log: vec![(1, 1, 0), (4, 1, 1), (2, 1, 0), (3, 1, 1)], calls: vec![LCall::Proto { arrive: 10, chunk: 100 }, LCall::Proto { arrive: 0, chunk: 100 }, LCall::End { e: 5 }, LCall::Proto { arrive: 0, chunk: 3 }, LCall::Proto { arrive: 0, chunk: 3 }, LCall::Proto { arrive: 0, chunk: 100 }] },
        // chunk size 1, stream
        LibCase { is_stream: true, fs: vec![(0, 1, 1, 1), (1, 0, 2, 1)], start: 0, end: 20, log: vec![(2, 1, 1), (2, 2, 1), (2, 1, 0)], calls: (0..8).map(|_| LCall::Proto { arrive: 1, chunk: 1 }).collect() },
        // no filters: only the marker moves
        LibCase { is_stream: true, fs: vec![], start: 0, end: 20, log: vec![(5, 1, 1)], calls: vec![LCall::Proto { arrive: 2, chunk: 1 }, LCall::Proto { arrive: 3, chunk: 1 }] },
        // marker filter only: not active
        LibCase { is_stream: false, fs: vec![(2, 1, 1, 1)], start: 0, end: 2, log: vec![(5, 1, 1)], calls: vec![LCall::Proto { arrive: 5, chunk: 10 }] },
        // window end 0: a query never collects
        LibCase { is_stream: false, fs: p1(1), start: 0, end: 0, log: vec![(5, 1, 1)], calls: vec![LCall::Proto { arrive: 5, chunk: 10 }, LCall::Proto { arrive: 0, chunk: 10 }] },
        // more than PART_CHUNK_SIZE messages in one call: several part chunks, truncation inside the second one
        LibCase { is_stream: false, fs: p1(1), start: 0, end: 66000, log: vec![(65000, 1, 1), (2000, 1, 0), (3000, 1, 1), (10, 1, 0)], calls: vec![LCall::Proto { arrive: 70010, chunk: 3_000_000 }, LCall::Proto { arrive: 0, chunk: 3_000_000 }, LCall::End { e: 70000 }, LCall::Proto { arrive: 0, chunk: 3_000_000 }] },
        LibCase { is_stream: false, fs: p1(1), start: 0, end: 1_000_000, log: vec![(65536, 1, 0), (1, 1, 1), (65535, 1, 0), (1, 1, 1)], calls: vec![LCall::Proto { arrive: 200000, chunk: 65537 }, LCall::Proto { arrive: 0, chunk: 65537 }, LCall::Proto { arrive: 0, chunk: 70000 }] },
        LibCase { is_stream: true, fs: p1(1), start: 0, end: 10, log: vec![(70000, 1, 1), (70000, 1, 0)], calls: vec![LCall::Proto { arrive: 140000, chunk: 100000 }, LCall::Proto { arrive: 0, chunk: 100000 }] },
        // filter sets: two / three event filters (a union), every kind at once, disabled filters alone and next to enabled ones
        LibCase { is_stream: true, fs: vec![(3, 0, 1, 1), (3, 1, 2, 1)], start: 0, end: 20, log: all6.clone(), calls: two_calls.clone() },
        LibCase { is_stream: false, fs: vec![(3, 1, 0, 1), (3, 1, 1, 2), (3, 1, 2, 1)], start: 0, end: 4, log: all6.clone(), calls: two_calls.clone() },
        LibCase { is_stream: false, fs: vec![(3, 1, 0, 1), (0, 0, 1, 1), (1, 1, 2, 1), (3, 1, 1, 1), (0, 1, 1, 1), (2, 0, 2, 1)], start: 1, end: 100, log: all6.clone(), calls: two_calls.clone() },
        LibCase { is_stream: true, fs: vec![(0, 1, 1, 0)], start: 0, end: 20, log: all6.clone(), calls: two_calls.clone() },
        LibCase { is_stream: true, fs: vec![(3, 1, 1, 0), (1, 0, 2, 1)], start: 0, end: 20, log: all6.clone(), calls: two_calls.clone() },
        LibCase { is_stream: false, fs: vec![(0, 1, 1, 0), (3, 1, 2, 0), (3, 0, 1, 2), (1, 1, 0, 0)], start: 0, end: 20, log: all6.clone(), calls: two_calls.clone() },
        LibCase { is_stream: true, fs: vec![(1, 1, 0, 1), (1, 0, 2, 1), (1, 1, 0, 0)], start: 0, end: 20, log: all6, calls: two_calls },
    ]
}

fn corpus_overtaking(sorted: bool) -> SessCase {
    let d = 50_000u32; // 5 s
    let ts_prev = 1_000 + 699 * 1_000;
    let ts_b = ts_prev + d + 1_000;
    let file = vec![
        FRun { cnt: 700, ecu: 1, apid: 0, ctid: 0, ts0: 1_000, dts: 1_000, jit: 100_000 },
        FRun { cnt: 1, ecu: 1, apid: 1, ctid: 0, ts0: ts_b, dts: 0, jit: 100_000 - d },
        FRun { cnt: 100, ecu: 1, apid: 2, ctid: 0, ts0: ts_prev + 1_000, dts: 1_000, jit: 100_000 },
        // (the rest of the file keeps the lifecycle thread busy while the sort thread sees its first message)
        FRun { cnt: 30_000, ecu: 1, apid: 0, ctid: 1, ts0: ts_prev + 101_000, dts: 10, jit: 100_000 },
    ];
    // times = final start (10 s - 5 s) + timestamp
    let t = |ts: u32| BASE_US / 1000 + 5_000 + ts as u64 / 10;
    let mut times: Vec<u64> = vec![t(ts_b) - 6_000, t(ts_b) - 5_001, t(ts_b) - 5_000, t(ts_b) - 4_999, t(ts_b) - 1, t(ts_b), t(ts_b) + 1, t(ts_b) + 5_000];
    for j in (0..100u32).step_by(7) {
        times.push(t(ts_prev + 1_000 + j * 1_000));
    }
    SessCase {
        collect: 0,
        plugin: false,
        sorted,
        preload: true,
        file,
        ops: vec![
            SOp::New { settle: true, is_stream: true, binary: true, fs: vec![], start: 695, end: 705 },
            SOp::New { settle: true, is_stream: true, binary: true, fs: vec![(0, 1, 2, 1)], start: 0, end: 5 },
            SOp::LookTimes { k: 0, ts_ms: times.clone() },
            SOp::LookTimes { k: 1, ts_ms: times },
            SOp::LookIdx { k: 0, idx: 700 },
            SOp::LookIdx { k: 1, idx: 700 },
            SOp::LookIdx { k: 0, idx: 750 },
            SOp::LookIdx { k: 1, idx: 750 },
        ],
    }
}

fn corpus_resumed(sorted: bool) -> SessCase {
    let mut file: Vec<FRun> = (0..6u32).map(|i| FRun { cnt: 1, ecu: 1, apid: (i % 3) as u8, ctid: 0, ts0: 10_000 + i * 2_000, dts: 0, jit: 100_000 }).collect();
    file.push(FRun { cnt: 1, ecu: 1, apid: 1, ctid: 0, ts0: 22_000, dts: 0, jit: 300_000 });
    for j in 0..8u32 {
        file.push(FRun { cnt: 1, ecu: 1, apid: (j % 3) as u8, ctid: 1, ts0: 273_000 + j * 1_000, dts: 0, jit: 50_000 });
    }
    let t = |ms: u64| BASE_US / 1000 + ms;
    // message times: 11.0 .. 21.0 s (first lifecycle, start 10 s), 7.2 s (the message that opened the resumed lifecycle,
    // start 5 s), 32.3 .. 33.0 s
    let times: Vec<u64> = vec![t(0), t(7_200), t(10_999), t(11_000), t(11_001), t(13_000), t(20_500), t(21_000), t(21_001), t(25_000), t(32_299), t(32_300), t(32_301), t(32_650), t(32_700), t(32_999), t(33_000), t(33_001), t(37_300), t(60_000)];
    SessCase {
        collect: 0,
        plugin: false,
        sorted,
        preload: true,
        file,
        ops: vec![
            SOp::New { settle: true, is_stream: true, binary: true, fs: vec![], start: 0, end: 100 },
            SOp::New { settle: true, is_stream: true, binary: true, fs: vec![(0, 1, 1, 1)], start: 0, end: 100 },
            SOp::LookTimes { k: 0, ts_ms: times.clone() },
            SOp::LookTimes { k: 1, ts_ms: times },
            SOp::LookIdxAll { k: 0, n: 16 },
            SOp::LookIdxAll { k: 1, n: 16 },
        ],
    }
}

fn corpus_sess() -> Vec<SessCase> {
    let f12: Vec<FRun> = (0..12u32).map(|i| FRun { cnt: 1, ecu: 1, apid: (i % 3) as u8, ctid: 0, ts0: 10 * (i / 3), dts: 0, jit: 0 }).collect();
    let app12: Vec<CF> = vec![(0, 1, 1, 1), (0, 1, 2, 1)];
    let t = |ms: u64| BASE_US / 1000 + ms;
    // messages of all 12 (ecu, apid, ctid) combinations
    let f_all: Vec<FRun> = (0..12u32).map(|i| FRun { cnt: 1, ecu: 1 + (i % 2) as u8, apid: (i % 3) as u8, ctid: ((i / 6) % 2) as u8, ts0: 10 * (i / 2), dts: 0, jit: 0 }).collect();
    let mut filter_ops = vec![
        SOp::New { settle: true, is_stream: true, binary: true, fs: vec![], start: 0, end: 100 },
        // two event filters: the union of two apids; three event filters with overlapping criteria
        SOp::New { settle: true, is_stream: true, binary: true, fs: vec![(3, 1, 1, 1), (3, 1, 2, 1)], start: 0, end: 100 },
        SOp::New { settle: true, is_stream: false, binary: true, fs: vec![(3, 1, 0, 1), (3, 2, 1, 2), (3, 0, 1, 1)], start: 0, end: 100 },
        // only disabled filters: the stream is the whole file
        SOp::New { settle: true, is_stream: true, binary: false, fs: vec![(0, 1, 1, 0), (3, 2, 0, 0)], start: 0, end: 100 },
        // every kind, enabled and disabled ones
        SOp::New { settle: true, is_stream: true, binary: true, fs: vec![(0, 1, 1, 0), (3, 1, 2, 1), (1, 2, 1, 0), (3, 3, 3, 1), (0, 0, 1, 2), (1, 3, 5, 1), (2, 1, 0, 1)], start: 1, end: 100 },
    ];
    for ty in 0..4u8 {
        // a disabled filter of each kind in the search request: alone, next to an enabled one of the same kind, next to
        // an enabled one of another kind; in the unfiltered stream and in filtered ones
        let other = [3u8, 0, 3, 0][ty as usize];
        filter_ops.push(SOp::Pages { k: 0, start: 0, maxr: 5, fs: vec![(ty, 1, 1, 0)] });
        filter_ops.push(SOp::Pages { k: 0, start: 0, maxr: 2, fs: vec![(ty, 1, 1, 0), (ty, 1, 2, 1)] });
        filter_ops.push(SOp::Pages { k: 1, start: 0, maxr: 100, fs: vec![(other, 2, 0, 2), (ty, 0, 2, 0)] });
        filter_ops.push(SOp::Search { k: 4, start: 0, maxr: 100, fs: vec![(ty, 3, 4, 0), (ty, 1, 0, 0)] });
    }
    filter_ops.push(SOp::Pages { k: 0, start: 0, maxr: 2, fs: vec![(3, 1, 0, 1), (3, 1, 1, 1)] });
    filter_ops.push(SOp::Pages { k: 0, start: 1, maxr: 3, fs: vec![(3, 1, 0, 1), (3, 0, 2, 1), (3, 2, 1, 1)] });
    filter_ops.push(SOp::Pages { k: 3, start: 0, maxr: 1, fs: vec![(0, 1, 0, 1), (0, 1, 1, 1), (1, 0, 2, 1), (1, 2, 1, 1), (3, 0, 1, 1), (3, 1, 1, 1)] });
    filter_ops.push(SOp::Search { k: 1, start: 0, maxr: 100, fs: vec![(3, 1, 1, 1), (3, 0, 1, 1), (0, 1, 1, 0)] });
    vec![
        SessCase { collect: 0, plugin: false, sorted: false, preload: true, file: f_all, ops: filter_ops },
        // the witnesses of the repaired defects: search in an unfiltered stream, paging, lookups on equal times
        SessCase {
            collect: 0, plugin: false, sorted: false,
            preload: true,
            file: f12.clone(),
            ops: vec![
                SOp::New { settle: true, is_stream: true, binary: true, fs: vec![], start: 0, end: 100 },
                SOp::New { settle: true, is_stream: true, binary: true, fs: app12.clone(), start: 0, end: 100 },
                SOp::Search { k: 0, start: 0, maxr: 1, fs: vec![(0, 1, 1, 1)] },
                SOp::Pages { k: 0, start: 0, maxr: 2, fs: vec![] },
                SOp::Pages { k: 1, start: 0, maxr: 1, fs: vec![(0, 1, 1, 1)] },
                SOp::Pages { k: 1, start: 0, maxr: 2, fs: vec![] },
                // pages that fill at the second-to-last / last position
                SOp::Pages { k: 0, start: 1, maxr: 2, fs: vec![] },
                SOp::Pages { k: 1, start: 0, maxr: 1, fs: vec![] },
                SOp::Pages { k: 1, start: 0, maxr: 7, fs: vec![] },
                SOp::LookIdx { k: 0, idx: 4 },
                SOp::LookIdx { k: 1, idx: 3 },
                SOp::LookIdx { k: 1, idx: 50 },
                SOp::LookTime { k: 0, t_ms: t(1) },
                SOp::LookTime { k: 1, t_ms: t(1) },
                SOp::LookTime { k: 1, t_ms: t(9) },
            ],
        },
        // the same on a file sorted by time
        SessCase {
            collect: 0, plugin: false, sorted: true,
            preload: true,
            file: f12.clone(),
            ops: vec![
                SOp::New { settle: true, is_stream: true, binary: true, fs: app12.clone(), start: 2, end: 5 },
                SOp::LookIdx { k: 0, idx: 4 },
                SOp::LookIdx { k: 0, idx: 7 },
                SOp::LookIdx { k: 0, idx: 3 },
                SOp::LookTime { k: 0, t_ms: t(2) },
            ],
        },
        // windows: change, overlap, empty, beyond the end, text mode, query with end marker
        SessCase {
            collect: 0, plugin: false, sorted: false,
            preload: true,
            file: f12.clone(),
            ops: vec![
                SOp::New { settle: true, is_stream: true, binary: false, fs: app12.clone(), start: 1, end: 4 },
                SOp::Window { settle: true, k: 0, start: 2, end: 7 },
                SOp::Window { settle: true, k: 0, start: 5, end: 5 },
                SOp::Window { settle: true, k: 0, start: 9, end: 20 },
                SOp::New { settle: true, is_stream: false, binary: true, fs: vec![(0, 1, 1, 1)], start: 1, end: 3 },
                SOp::Window { settle: true, k: 1, start: 0, end: 2 },
                SOp::New { settle: true, is_stream: false, binary: true, fs: vec![(1, 1, 1, 1)], start: 6, end: 100 },
                SOp::Stop { k: 0 },
                SOp::Window { settle: true, k: 0, start: 0, end: 2 },
            ],
        },
        // every class of rejected command on a live stream, each followed by a valid command on the SAME announced id
        SessCase {
            collect: 0,
            plugin: false,
            sorted: false,
            preload: true,
            file: f12.clone(),
            ops: {
                let mut v = vec![SOp::New { settle: true, is_stream: true, binary: true, fs: app12.clone(), start: 0, end: 3 }, SOp::New { settle: true, is_stream: true, binary: false, fs: vec![], start: 1, end: 2 }];
                for kind in 0..N_BAD_KINDS {
                    let k = (kind % 2) as usize;
                    v.push(SOp::Bad { k, kind, arg: 7 });
                    match kind % 4 {
                        0 => v.push(SOp::Window { settle: true, k, start: (kind as u64) % 5, end: (kind as u64) % 5 + 3 }),
                        1 => v.push(SOp::LookIdx { k, idx: (kind as u64) % 12 }),
                        2 => v.push(SOp::Search { k, start: 0, maxr: 2, fs: vec![(0, 1, 1, 1)] }),
                        _ => v.push(SOp::LookTime { k, t_ms: t(1) }),
                    }
                }
                v.push(SOp::WindowText { settle: true, k: 0, a: None, b: Some(4), junk: 0 });
                v.push(SOp::WindowText { settle: true, k: 0, a: Some(2), b: None, junk: 7 });
                v.push(SOp::Stop { k: 0 });
                v.push(SOp::Stop { k: 1 });
                v
            },
        },
        // rejected commands while the file is parsed: the stream keeps getting its messages under the announced id
        SessCase {
            collect: 0,
            plugin: false,
            sorted: false,
            preload: false,
            file: vec![FRun { cnt: 40000, ecu: 1, apid: 0, ctid: 0, ts0: 0, dts: 1, jit: 0 }, FRun { cnt: 40000, ecu: 1, apid: 1, ctid: 0, ts0: 40000, dts: 1, jit: 0 }],
            ops: vec![
                SOp::New { settle: false, is_stream: true, binary: true, fs: vec![(0, 1, 1, 1)], start: 39990, end: 40010 },
                SOp::Bad { k: 0, kind: 1, arg: 7 },
                SOp::Bad { k: 0, kind: 4, arg: 0 },
                SOp::Bad { k: 0, kind: 8, arg: 1 },
                SOp::New { settle: false, is_stream: true, binary: true, fs: vec![], start: 79990, end: 80010 },
                SOp::Bad { k: 1, kind: 3, arg: 5 },
                SOp::Window { settle: true, k: 0, start: 5, end: 15 },
                SOp::Window { settle: true, k: 1, start: 100, end: 110 },
            ],
        },
        // sort:true on a file whose time order is not the index order (timestamps swapped within pairs): index
        // lookups for every index, also of messages that are not in the filtered stream
        SessCase {
            collect: 0,
            plugin: false,
            sorted: true,
            preload: true,
            file: (0..12u32).map(|i| FRun { cnt: 1, ecu: 1, apid: (i % 3) as u8, ctid: 0, ts0: 50 + 10 * (i ^ 1), dts: 0, jit: 0 }).collect(),
            ops: vec![
                SOp::New { settle: true, is_stream: true, binary: true, fs: vec![], start: 0, end: 100 },
                SOp::New { settle: true, is_stream: true, binary: true, fs: vec![(0, 1, 0, 1)], start: 0, end: 100 },
                SOp::LookIdxAll { k: 0, n: 13 },
                SOp::LookIdxAll { k: 1, n: 13 },
                SOp::LookTimeAll { k: 1, t0_ms: t(0) - 1, step_ms: 1, cnt: 20 },
            ],
        },
        // a lifecycle that resumes the first one (reception gap of 20 s, timestamps go on) and whose start is then moved 5 s
        // BEFORE the first one's by messages with a smaller delay; time lookups across both, file order and sorted by time
        corpus_resumed(false),
        corpus_resumed(true),
        // sort:true; one message of a lifecycle that has been running for 70 s gets through 5 s faster than the others (the
        // start estimate moves 5 s after the lifecycle was published): the witness of the known finding
        // sorted_view_keyed_by_stale_lifecycle_start - and the same file in file order
        corpus_overtaking(true),
        corpus_overtaking(false),
        // a query sent right after open on a file that takes a while to parse (repaired: it used to end empty)
        SessCase {
            collect: 0, plugin: false, sorted: false,
            preload: false,
            file: vec![FRun { cnt: 30000, ecu: 1, apid: 0, ctid: 0, ts0: 0, dts: 1, jit: 0 }, FRun { cnt: 30000, ecu: 1, apid: 1, ctid: 0, ts0: 30000, dts: 0, jit: 0 }, FRun { cnt: 30000, ecu: 1, apid: 2, ctid: 1, ts0: 30000, dts: 2, jit: 0 }],
            ops: vec![
                SOp::New { settle: false, is_stream: false, binary: true, fs: vec![(0, 1, 1, 1)], start: 29990, end: 30010 },
                SOp::New { settle: false, is_stream: true, binary: true, fs: vec![(1, 1, 0, 1)], start: 59990, end: 60010 },
                SOp::Window { settle: true, k: 1, start: 29995, end: 30005 },
                SOp::Pages { k: 1, start: 59200, maxr: 300, fs: vec![(0, 2, 1, 1)] },
                SOp::LookTime { k: 1, t_ms: t(3000) },
                SOp::LookIdx { k: 1, idx: 100 },
            ],
        },
    ]
}

fn main() {
    let a = parse_args();
    let mut sink = Sink::new("C16", &a.out);
    sink.shard_size = 60;
    if let Some(p) = &a.replay {
        let v = read_replay(p);
        let c = &v["case"];
        match c["kind"].as_str().unwrap_or("") {
            "lib" => lib_record(&mut sink, serde_json::from_value(c["lib"].clone()).unwrap(), "replay"),
            "bs" => bs_record(&mut sink, serde_json::from_value(c["l"].clone()).unwrap(), c["key"].as_u64().unwrap()),
            _ => {
                for (c, o) in run_sessions(vec![serde_json::from_value(c["sess"].clone()).unwrap()]) {
                    sess_record(&mut sink, c, o);
                }
            }
        }
        sink.finish();
        return;
    }
    let quick = a.tier != "thorough";
    let mut rng = Rng::new(a.seed);
    // sessions with the binary (run first; the large ones are spread over the shards so that coqc evaluates them in parallel)
    let mut srng = rng.fork();
    let mut sess = corpus_sess();
    let nsess = if a.count.is_some() { 0 } else if quick { 18 } else { 300 };
    for i in 0..nsess {
        let racing = i % 6 == 5;
        let sorted = i % 3 == 1 && !racing;
        sess.push(gen_sess(&mut srng, racing, sorted));
    }
    // every lookup kind at every position, crossed with the open options
    let nlook = if a.count.is_some() { 0 } else if quick { 6 } else { 60 };
    for i in 0..nlook {
        sess.push(gen_lookup_sess(&mut srng, i % 2 == 0, (i % 3) as u8, i % 4 == 1));
    }
    // lookups on logs whose lifecycle table has entries of every kind, crossed with sort on / off
    let nlc = if a.count.is_some() { 0 } else if quick { 8 } else { 96 };
    for i in 0..nlc {
        let j = i + a.seed;
        sess.push(gen_lc_sess(&mut srng, j, (i + j / 8) % 2 == 1, (i % 3) as u8, i % 4 == 2));
    }
    // the combination space of filter sets (streams, queries, searches)
    let ncombo = if a.count.is_some() { 0 } else if quick { 8 } else { 64 };
    let combo0 = if quick { a.seed.wrapping_sub(1).wrapping_mul(8) } else { 0 };
    for i in 0..ncombo {
        sess.push(gen_combo_sess(&mut srng, combo0 + i));
    }
    // large sessions: windows over several orders of magnitude
    let nlarge = if a.count.is_some() { 0 } else if quick { 3 } else { 16 };
    for i in 0..nlarge {
        let n_target = match i % 3 {
            0 => 120_000 + srng.below(20_000),
            1 => 150_000 + srng.below(100_000),
            _ => 260_000 + srng.below(40_000),
        };
        sess.push(gen_large_sess(&mut srng, n_target));
    }
    let done = run_sessions(sess);
    let mut counts = [0u64; 13];
    for (_, o) in &done {
        for j in 0..13 {
            counts[j] += o.counts[j];
        }
    }
    sink.extra_stats.insert(
        "lookups_per_branch".into(),
        json!({"index_file_order_filtered": counts[0], "index_file_order_unfiltered": counts[1], "index_time_sorted_filtered": counts[2],
               "index_time_sorted_unfiltered": counts[3], "time_filtered": counts[4], "time_unfiltered": counts[5],
               "time_checked_by_oracle": counts[6], "time_checked_where_presented_start_answers_differently": counts[7], "time_not_partitioned_at_requested_time": counts[8],
               "time_not_partitioned_file_order": counts[9], "time_not_partitioned_sort_true": counts[10],
               "time_not_partitioned_file_order_answer_differs_from_linear_scan": counts[11], "time_not_partitioned_sort_true_answer_differs_from_linear_scan": counts[12]}),
    );
    let (mut large, normal): (Vec<_>, Vec<_>) = done.into_iter().partition(|(c, _)| c.file.iter().map(|r| r.cnt as u64).sum::<u64>() >= 100_000);
    // library level
    for c in corpus_lib() {
        lib_record(&mut sink, c, "corpus");
    }
    // the combination space of filter sets at library level: every shape as stream / query
    if a.count.is_none() {
        for j in 0..(if quick { 128u64 } else { 1280 }) {
            let d = gen_dis_mode(&mut rng);
            let fs = shaped_filters(&mut rng, shape_of(j), d);
            let mut c = gen_lib(&mut rng, false, Some(fs));
            c.is_stream = (j / 64) % 2 == 0;
            lib_record(&mut sink, c, "sweep");
        }
    }
    let nlib = a.count.unwrap_or(if quick { 700 } else { 12000 });
    let every = std::cmp::max(1, nlib / (large.len() as u64 + 1));
    for i in 0..nlib {
        if i % every == every / 2 {
            if let Some((c, o)) = large.pop() {
                sess_record(&mut sink, c, o);
            }
        }
        let big = i % (if quick { 120 } else { 300 }) == 7;
        let c = gen_lib(&mut rng, big, None);
        lib_record(&mut sink, c, "gen");
    }
    // std binary search
    bs_record(&mut sink, vec![1, 2, 2, 2, 3], 2);
    bs_record(&mut sink, vec![], 0);
    for _ in 0..(if quick { 150 } else { 3000 }) {
        let (l, k) = gen_bs(&mut rng);
        bs_record(&mut sink, l, k);
    }
    for (c, o) in large.into_iter().chain(normal.into_iter()) {
        sess_record(&mut sink, c, o);
    }
    sink.finish();
}
