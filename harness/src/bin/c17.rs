//! C17 — FileTransferPlugin (src/plugins/file_transfer.rs) vs FileTransfer/Ft.v
//!
//! A case = plugin configuration + a list of messages (compact standard transfer messages or explicit
//! argument lists) + the generator's *intents* (which files were meant to be transferred with which
//! single fault) that only the oracle reads.  The real plugin is built with `from_json`, fed through
//! `Plugin::process_msg`, observed through `state()` (tree items, generation), the `save` command
//! (`apply_command`) and the contents of the auto-save directory.
use adlt::dlt::{DltChar4, DltExtendedHeader, DltMessage, DltStandardHeader};
use adlt::plugins::file_transfer::FileTransferPlugin;
use adlt::plugins::plugin::Plugin;
use serde::{Deserialize, Serialize};
use std::collections::BTreeMap;
use std::path::{Path, PathBuf};
use vharness::*;

const TI_BOOL: u32 = 0x10;
const TI_SINT: u32 = 0x20;
const TI_UINT: u32 = 0x40;
const TI_FLOA: u32 = 0x80;
const TI_STRG: u32 = 0x200;
const TI_RAWD: u32 = 0x400;
const TI_VARI: u32 = 0x800;
const TI_FIXP: u32 = 0x1000;
const SCOD_UTF8: u32 = 0x8000;
const SCOD_HEX: u32 = 0x10000;
const ABS_PROBE: &str = "/tmp/c17_abs_probe";
const MISSING_FLST: &[u8] = b"<missing_flst>";

// ------------------------------------------------------------------ case description
#[derive(Clone, Debug, Serialize, Deserialize, PartialEq)]
enum Body {
    Flst { be: bool, sty: u8, serial: u64, name: Vec<u8>, size: u64, nr: u64, bs: u64 },
    Flda { be: bool, sty: u8, sty2: u8, serial: u64, pnr: u64, raw_ti: u32, payload: Vec<u8> },
    /// FLDA whose payload is described structurally: byte i = a + b*i (mod 256)
    FldaPat { be: bool, sty: u8, sty2: u8, serial: u64, pnr: u64, raw_ti: u32, a: u8, b: u8, len: u32 },
    Flfi { be: bool, sty: u8, serial: u64 },
    /// explicit arguments (type_info, raw payload); all share the message's endianness
    Args { be: bool, args: Vec<(u32, Vec<u8>)> },
}

#[derive(Clone, Debug, Serialize, Deserialize, PartialEq)]
struct Msg {
    ecu: u32,
    lc: u32,
    /// apid, ctid, verb_mstp_mtin, noar
    ext: Option<(u32, u32, u8, u8)>,
    body: Body,
}

#[derive(Clone, Debug, Serialize, Deserialize, PartialEq)]
struct Cfg {
    enabled: bool,
    allow_save: bool,
    keep_flda: bool,
    apid: Option<u32>,
    ctid: Option<u32>,
    /// Some(suffix): autoSavePath = <fresh dir> + suffix ("" or "/"); the model sees "/D" + suffix
    dir: Option<String>,
    glob: Option<String>,
    /// files present in the auto-save directory before the run
    pre: Vec<(Vec<u8>, Vec<u8>)>,
    /// the auto-save directory does not exist yet (the plugin creates it)
    dir_missing: bool,
    /// directories present in the auto-save directory before the run
    #[serde(default)]
    pre_dirs: Vec<Vec<u8>>,
}

/// what the generator meant to transfer; only the oracle reads this
#[derive(Clone, Debug, Serialize, Deserialize, PartialEq)]
struct Intent {
    ecu: u32,
    lc: u32,
    serial: u64,
    name: Vec<u8>,
    file: Vec<u8>,
    /// large contents: the file is the concatenation of these linear patterns (then `file` is empty)
    #[serde(default)]
    pats: Vec<(u8, u8, u32)>,
    bs: u64,
    /// none | dup | drop_flfi  (must complete);  drop | swap | resize | trunc (must not complete);  drop_flst (complete => exact).
    /// Several intents may share one key (ecu, lc, serial): they are transfers sent one after the other under that key and
    /// are listed in log order; the k-th of them belongs to the k-th transfer the plugin shows for the key.
    fault: String,
}

#[derive(Clone, Debug, Serialize, Deserialize, PartialEq)]
struct CaseIn {
    cfg: Cfg,
    msgs: Vec<Msg>,
    intents: Vec<Intent>,
    /// run in a child process (announcements that may make the allocator abort)
    #[serde(default)]
    isolate: bool,
    /// oracle-only probe of the pre-allocation cap: an announced transfer of nr packages of bs bytes
    /// (nr * bs above MAX_PREALLOC_SIZE), run on the real code and compared with the original content;
    /// far too large for the Coq side, whose shard entry is the empty log
    #[serde(default)]
    probe: Option<(u64, u64)>,
    /// prior state of the directory the manual save commands write to ("/S" for the model): files (name, content) ...
    #[serde(default)]
    spre: Vec<(Vec<u8>, Vec<u8>)>,
    /// ... directories ...
    #[serde(default)]
    sdirs: Vec<Vec<u8>>,
    /// ... files without write permission (only meaningful when the process is not privileged)
    #[serde(default)]
    sreadonly: Vec<Vec<u8>>,
    /// the save commands issued after the log through PluginState.apply_command: (transfer number, saveAs name below "/S")
    #[serde(default)]
    saves: Vec<(u64, Vec<u8>)>,
    /// the messages reach the plugin through the real lifecycle stage (see `Pipe`); `Msg.lc` then is the generator's ground
    /// truth: the number (1, 2, ..) of the boot of its ECU the message was sent in
    #[serde(default)]
    pipe: Option<Pipe>,
}

/// The plugin behind the real lifecycle stage, wired as in `adlt convert` and the remote server:
/// messages (with reception times and timestamps) -> `parse_lifecycles_buffered_from_stream` -> `plugins_process_msgs([FileTransfer])`.
/// The lifecycle ids the plugin sees are those the stage assigns; the generator only knows the history (boots per ECU).
#[derive(Clone, Debug, Serialize, Deserialize, PartialEq)]
struct Pipe {
    /// 1 = the library pipeline; 2 = additionally `adlt convert --file_transfer=.. --file_transfer_path ..` on a file with these messages
    mode: u8,
    /// per message: reception time (us), timestamp (0.1 ms)
    times: Vec<(u64, u32)>,
    /// what the history contains (generator's description, tags only)
    #[serde(default)]
    tags: Vec<String>,
}

impl Intent {
    fn content(&self) -> Vec<u8> {
        if self.pats.is_empty() {
            self.file.clone()
        } else {
            self.pats.iter().flat_map(|(a, b, l)| pat(*a, *b, *l as usize)).collect()
        }
    }
    fn size(&self) -> u64 {
        if self.pats.is_empty() {
            self.file.len() as u64
        } else {
            self.pats.iter().map(|p| p.2 as u64).sum()
        }
    }
}

fn c4(s: &str) -> u32 {
    let b = s.as_bytes();
    u32::from_be_bytes([b[0], b[1], b[2], b[3]])
}
fn std_ext() -> Option<(u32, u32, u8, u8)> {
    Some((c4("APID"), c4("CTID"), 0x41, 0))
}

// ------------------------------------------------------------------ argument encoding (own encoder) and expansion
fn sty_bytes(sty: u8) -> usize {
    match sty % 4 {
        0 => 1,
        1 => 2,
        2 => 4,
        _ => 8,
    }
}
fn enc_int(be: bool, sty: u8, v: u64) -> (u32, Vec<u8>) {
    let n = sty_bytes(sty);
    let ti = (if sty % 8 < 4 { TI_UINT } else { TI_SINT }) + (sty % 4) as u32 + 1;
    let mut b: Vec<u8> = v.to_le_bytes()[..n].to_vec();
    if be {
        b.reverse();
    }
    (ti, b)
}
fn enc_str(s: &[u8]) -> (u32, Vec<u8>) {
    let mut v = s.to_vec();
    v.push(0);
    (TI_STRG, v)
}
/// linear byte pattern (mirrors Exec/C17.v pat)
fn pat(a: u8, b: u8, len: usize) -> Vec<u8> {
    let mut v = Vec::with_capacity(len);
    let mut x = a;
    for _ in 0..len {
        v.push(x);
        x = x.wrapping_add(b);
    }
    v
}
/// the (a, b, len) of a payload that is such a pattern
fn as_pat(p: &[u8]) -> Option<(u8, u8, u32)> {
    if p.is_empty() {
        return None;
    }
    let a = p[0];
    let b = if p.len() > 1 { p[1].wrapping_sub(p[0]) } else { 0 };
    if pat(a, b, p.len()) == p {
        Some((a, b, p.len() as u32))
    } else {
        None
    }
}
/// large FLDA payloads that follow a linear pattern are described structurally (keeps the Coq shards and the replay files small)
fn compress(m: &Msg) -> Msg {
    if let Body::Flda { be, sty, sty2, serial, pnr, raw_ti, payload } = &m.body {
        if payload.len() > 24 {
            if let Some((a, b, len)) = as_pat(payload) {
                return Msg { body: Body::FldaPat { be: *be, sty: *sty, sty2: *sty2, serial: *serial, pnr: *pnr, raw_ti: *raw_ti, a, b, len }, ..m.clone() };
            }
        }
    }
    m.clone()
}
/// the argument list a body stands for (mirrors Exec/C17.v expand_body)
fn expand(b: &Body) -> (bool, Vec<(u32, Vec<u8>)>) {
    match b {
        Body::Flst { be, sty, serial, name, size, nr, bs } => (
            *be,
            vec![enc_str(b"FLST"), enc_int(*be, *sty, *serial), enc_str(name), enc_int(*be, *sty, *size), enc_str(b"D"), enc_int(*be, *sty, *nr), enc_int(*be, *sty, *bs), enc_str(b"FLST")],
        ),
        Body::Flda { be, sty, sty2, serial, pnr, raw_ti, payload } => (
            *be,
            vec![enc_str(b"FLDA"), enc_int(*be, *sty, *serial), enc_int(*be, *sty2, *pnr), (*raw_ti, payload.clone()), enc_str(b"FLDA")],
        ),
        Body::FldaPat { be, sty, sty2, serial, pnr, raw_ti, a, b, len } => (
            *be,
            vec![enc_str(b"FLDA"), enc_int(*be, *sty, *serial), enc_int(*be, *sty2, *pnr), (*raw_ti, pat(*a, *b, *len as usize)), enc_str(b"FLDA")],
        ),
        Body::Flfi { be, sty, serial } => (*be, vec![enc_str(b"FLFI"), enc_int(*be, *sty, *serial), enc_str(b"FLFI")]),
        Body::Args { be, args } => (*be, args.clone()),
    }
}
fn natural_noar(b: &Body) -> u8 {
    match b {
        Body::Flst { .. } => 8,
        Body::Flda { .. } | Body::FldaPat { .. } => 5,
        Body::Flfi { .. } => 3,
        Body::Args { args, .. } => args.len().min(255) as u8,
    }
}
/// payload bytes of a verbose message carrying these arguments (format read by DltMessageArgIterator)
fn encode_args(be: bool, args: &[(u32, Vec<u8>)]) -> Vec<u8> {
    let mut p = vec![];
    for (ti, raw) in args {
        p.extend_from_slice(&if be { ti.to_be_bytes() } else { ti.to_le_bytes() });
        let is_num = ti & (TI_BOOL | TI_SINT | TI_UINT | TI_FLOA) != 0;
        if !is_num && ti & (TI_STRG | TI_RAWD) != 0 {
            let l = raw.len() as u16;
            p.extend_from_slice(&if be { l.to_be_bytes() } else { l.to_le_bytes() });
        }
        p.extend_from_slice(raw);
    }
    p
}
fn build_msg(index: u32, m: &Msg) -> DltMessage {
    let (be, args) = expand(&m.body);
    let payload = encode_args(be, &args);
    let ext = m.ext.map(|(apid, ctid, vmm, noar)| DltExtendedHeader {
        verb_mstp_mtin: vmm,
        noar,
        apid: DltChar4::from_buf(&apid.to_be_bytes()),
        ctid: DltChar4::from_buf(&ctid.to_be_bytes()),
    });
    DltMessage {
        index,
        reception_time_us: 0,
        ecu: DltChar4::from_buf(&m.ecu.to_be_bytes()),
        timestamp_dms: 0,
        standard_header: DltStandardHeader { htyp: 0x20 | (if ext.is_some() { 1 } else { 0 }) | (if be { 2 } else { 0 }), mcnt: 0, len: 0 },
        extended_header: ext,
        payload,
        payload_text: None,
        lifecycle: m.lc,
    }
}
/// the arguments the real iterator decodes from the built message (verbose messages only)
fn decoded_args(m: &Msg) -> Vec<(u32, bool, Vec<u8>)> {
    let dm = build_msg(0, m);
    if !dm.is_verbose() {
        return vec![];
    }
    (&dm).into_iter().map(|a| (a.type_info, a.is_big_endian, a.payload_raw.to_vec())).collect()
}
/// normalise a message: explicit argument lists are replaced by what the iterator really yields;
/// for the compact bodies the expansion must equal the decoding (checked)
fn normalise(m: &Msg) -> Msg {
    let verbose = m.ext.map(|e| e.2 & 1 == 1).unwrap_or(false);
    let (be, args) = expand(&m.body);
    if !verbose {
        // the plugin (and the model) never look at the arguments of a non-verbose message: keep the
        // transfer-shaped payload in the real message so that a lost `is_verbose` test would show
        return m.clone();
    }
    let dec = decoded_args(m);
    let same = dec.len() == args.len() && dec.iter().zip(args.iter()).all(|(d, a)| d.0 == a.0 && d.1 == be && d.2 == a.1);
    match &m.body {
        Body::Args { .. } => Msg { body: Body::Args { be, args: dec.into_iter().map(|d| (d.0, d.2)).collect() }, ..m.clone() },
        _ => {
            if same {
                m.clone()
            } else {
                // e.g. a payload argument whose type the iterator does not decode: fall back to explicit arguments
                Msg { body: Body::Args { be, args: dec.into_iter().map(|d| (d.0, d.2)).collect() }, ..m.clone() }
            }
        }
    }
}

// ------------------------------------------------------------------ running the implementation
#[derive(Clone, Debug, PartialEq)]
struct Item {
    state: u8, // 0 MissingStart 1 Started 2 Complete 3 Incomplete
    ecu: u32,
    lc: u64,
    serial: u64,
    name: Vec<u8>,
    size: u64,
    next: u64,
    recvd: u64,
    nr: u64,
    saved_to: Option<Vec<u8>>,
    basename: Option<Vec<u8>>,
    bytes: Option<Vec<u8>>,
}
#[derive(Clone, Debug)]
struct RunObs {
    rets: Vec<bool>,
    generation: u64,
    items: Vec<Item>,
    /// files in the auto-save directory after the run: (symbolic path, content), sorted
    files: Vec<(Vec<u8>, Vec<u8>)>,
    /// problems seen by the harness itself (file system escapes, unparsable items)
    problems: Vec<String>,
    /// the manual save commands, in order
    saves: Vec<SaveObs>,
    /// pipeline cases: what the lifecycle stage did
    pipe: Option<PipeObs>,
    /// the labels of the tree items as published (compared with what `adlt convert` prints)
    labels: Vec<String>,
    /// pipeline cases of mode 2: what the binary did
    conv: Option<ConvObs>,
}
/// what the lifecycle stage did with the messages of a pipeline case
#[derive(Clone, Debug)]
struct PipeObs {
    /// per message (input order) the lifecycle it was forwarded with, as label: the k-th (by id) lifecycle of its ECU in the
    /// final lifecycle table = k (1, 2, ..); an id that is not in the final table = 1000 + (id - first id of the run)
    lc_actual: Vec<u32>,
    /// the final lifecycle table -- computed by the stage independently of the labels on the forwarded messages -- has exactly
    /// one lifecycle per boot of the generator's history, holding as many messages as the boot has: the ground truth applies
    truth_ok: bool,
    /// lifecycles created during the run / lifecycles in the final table (created > final: lifecycles were merged)
    created: u32,
    finals: usize,
    /// every message forwarded exactly once, in input order
    forwarded_ok: bool,
}
#[derive(Clone, Debug)]
struct ConvObs {
    ok: bool,
    /// the "LC# n: <label> [, saved as: '<path>']" lines without the "LC# n: " prefix
    lines: Vec<String>,
    /// the files in --file_transfer_path afterwards
    files: Vec<(String, Option<Vec<u8>>)>,
}
#[derive(Clone, Debug)]
struct SaveObs {
    idx: u64,
    target: Vec<u8>,
    /// the file-system oracle handed to the model: can a file be created and written at the target?
    creatable: bool,
    ok: bool,
    before: Option<Vec<u8>>,
    after: Option<Vec<u8>>,
    /// some other entry of the directory changed during this command
    others_changed: bool,
}

/// does this process ignore file permissions (root)?  Then read-only targets are writable.
fn perms_ignored() -> bool {
    use std::os::unix::fs::PermissionsExt;
    let f = tempfile::NamedTempFile::new().unwrap();
    let _ = std::fs::set_permissions(f.path(), std::fs::Permissions::from_mode(0o444));
    std::fs::OpenOptions::new().write(true).open(f.path()).is_ok()
}
fn creatable(c: &CaseIn, target: &[u8], perms_ignored: bool) -> bool {
    if c.sdirs.iter().any(|d| d == target) {
        return false;
    }
    if let Some(p) = target.iter().rposition(|b| *b == b'/') {
        // the directory part must be an existing directory
        if !c.sdirs.iter().any(|d| d[..] == target[..p]) {
            return false;
        }
    }
    if !perms_ignored && c.sreadonly.iter().any(|d| d == target) {
        return false;
    }
    true
}
fn list_flat(dir: &Path) -> Vec<(String, Option<Vec<u8>>)> {
    let mut v = vec![];
    walk(dir, "", &mut v);
    v.sort();
    v
}

fn sym_dir(cfg: &Cfg) -> Vec<u8> {
    match &cfg.dir {
        Some(sfx) => format!("/D{}", sfx).into_bytes(),
        None => b"./".to_vec(),
    }
}
fn path_join(dir: &[u8], base: &[u8]) -> Vec<u8> {
    let mut v = dir.to_vec();
    if !v.is_empty() && *v.last().unwrap() != b'/' {
        v.push(b'/');
    }
    v.extend_from_slice(base);
    v
}

fn walk(root: &Path, rel: &str, out: &mut Vec<(String, Option<Vec<u8>>)>) {
    if let Ok(rd) = std::fs::read_dir(root) {
        for e in rd.flatten() {
            let n = e.file_name().to_string_lossy().to_string();
            let r = if rel.is_empty() { n.clone() } else { format!("{}/{}", rel, n) };
            let p = e.path();
            if p.is_dir() {
                out.push((r.clone(), None));
                walk(&p, &r, out);
            } else {
                out.push((r, Some(std::fs::read(&p).unwrap_or_default())));
            }
        }
    }
}

fn parse_item(v: &Value, problems: &mut Vec<String>) -> Item {
    let label = v["label"].as_str().unwrap_or("").to_string();
    let tooltip = v["tooltip"].as_str().unwrap_or("").to_string();
    let num = |s: &str| s.parse::<u64>().unwrap_or(u64::MAX);
    let (mut next, mut recvd, mut nr) = (0, 0, 0);
    let state;
    if let Some(rest) = label.strip_prefix("Incomplete file transfer '") {
        state = 1;
        // '<name>', missing N got R/T   (parsed from the end)
        if let Some(p) = rest.rfind("', missing ") {
            let tail = &rest[p + "', missing ".len()..];
            let mut it = tail.split(" got ");
            next = num(it.next().unwrap_or(""));
            let rt = it.next().unwrap_or("");
            let mut it2 = rt.split('/');
            recvd = num(it2.next().unwrap_or(""));
            nr = num(it2.next().unwrap_or(""));
        } else {
            problems.push(format!("unparsable label {:?}", label));
        }
    } else if let Some(rest) = label.strip_prefix("Incomplete file transfer. Missing FLST. Got ") {
        state = 0;
        recvd = num(rest.trim_end_matches(" packages."));
    } else if let Some(rest) = label.strip_prefix("Incomplete file transfer. Missed package ") {
        state = 3;
        next = num(rest);
    } else if label.starts_with('\'') {
        state = 2;
    } else {
        state = 9;
        problems.push(format!("unparsable label {:?}", label));
    }
    let icon_file = v["iconPath"].as_str() == Some("file");
    if icon_file != (state == 2) {
        problems.push(format!("icon/state mismatch for {:?}", label));
    }
    // "{ecu}, LC id={lc}, serial #{serial}, '{name}', created at '{date}', file size {size} "
    let mut it = Item { state, ecu: 0, lc: 0, serial: 0, name: vec![], size: 0, next, recvd, nr, saved_to: None, basename: None, bytes: None };
    let parsed = (|| {
        let p1 = tooltip.find(", LC id=")?;
        let ecu = &tooltip[..p1];
        let r = &tooltip[p1 + 8..];
        let p2 = r.find(", serial #")?;
        let lc = &r[..p2];
        let r = &r[p2 + 10..];
        let p3 = r.find(", '")?;
        let serial = &r[..p3];
        let r = &r[p3 + 3..];
        let p4 = r.rfind("', created at '")?;
        let name = &r[..p4];
        let r = &r[p4..];
        let p5 = r.rfind("', file size ")?;
        let size = r[p5 + 13..].trim_end();
        let mut e = [0u8; 4];
        for (i, b) in ecu.bytes().take(4).enumerate() {
            e[i] = b;
        }
        Some((u32::from_be_bytes(e), lc.parse::<u64>().ok()?, serial.parse::<u64>().ok()?, name.as_bytes().to_vec(), size.parse::<u64>().ok()?))
    })();
    match parsed {
        Some((ecu, lc, serial, name, size)) => {
            it.ecu = ecu;
            it.lc = lc;
            it.serial = serial;
            it.name = name;
            it.size = size;
        }
        None => problems.push(format!("unparsable tooltip {:?}", tooltip)),
    }
    it.basename = v["cmdCtx"]["save"]["basename"].as_str().map(|s| s.as_bytes().to_vec());
    if (v["contextValue"].as_str() == Some("canSave")) != it.basename.is_some() {
        problems.push("contextValue/cmdCtx mismatch".into());
    }
    it
}

fn run_impl_inner(c: &CaseIn) -> RunObs {
    let root = tempfile::tempdir().expect("tempdir");
    let save = root.path().join("save");
    if !c.cfg.dir_missing {
        std::fs::create_dir_all(&save).unwrap();
        for (n, d) in &c.cfg.pre {
            std::fs::write(save.join(String::from_utf8_lossy(n).to_string()), d).unwrap();
        }
    }
    if !c.cfg.dir_missing {
        for d in &c.cfg.pre_dirs {
            std::fs::create_dir_all(save.join(String::from_utf8_lossy(d).to_string())).unwrap();
        }
    }
    let cmd = root.path().join("cmd");
    std::fs::create_dir_all(&cmd).unwrap();
    for d in &c.sdirs {
        std::fs::create_dir_all(cmd.join(String::from_utf8_lossy(d).to_string())).unwrap();
    }
    for (n, d) in &c.spre {
        std::fs::write(cmd.join(String::from_utf8_lossy(n).to_string()), d).unwrap();
    }
    let ignored = perms_ignored();
    {
        use std::os::unix::fs::PermissionsExt;
        for n in &c.sreadonly {
            let _ = std::fs::set_permissions(cmd.join(String::from_utf8_lossy(n).to_string()), std::fs::Permissions::from_mode(0o444));
        }
    }
    let _ = std::fs::create_dir_all(ABS_PROBE);
    let real_dir = c.cfg.dir.as_ref().map(|sfx| format!("{}{}", save.to_str().unwrap(), sfx));
    let mut j = serde_json::Map::new();
    j.insert("name".into(), json!("ft"));
    j.insert("enabled".into(), json!(c.cfg.enabled));
    j.insert("allowSave".into(), json!(c.cfg.allow_save));
    j.insert("keepFLDA".into(), json!(c.cfg.keep_flda));
    let c4s = |v: u32| String::from_utf8_lossy(&v.to_be_bytes()).to_string();
    if let Some(a) = c.cfg.apid {
        j.insert("apid".into(), json!(c4s(a)));
    }
    if let Some(a) = c.cfg.ctid {
        j.insert("ctid".into(), json!(c4s(a)));
    }
    if let Some(d) = &real_dir {
        j.insert("autoSavePath".into(), json!(d));
    }
    if let Some(g) = &c.cfg.glob {
        j.insert("autoSaveGlob".into(), json!(g));
    }
    let p = FileTransferPlugin::from_json(&j).expect("plugin config");
    let mut problems = vec![];
    let (p, rets, pipe_obs): (Box<dyn Plugin + Send>, Vec<bool>, Option<PipeRun>) = match &c.pipe {
        None => {
            let mut p = p;
            let mut rets = vec![];
            for (i, m) in c.msgs.iter().enumerate() {
                let mut dm = build_msg(i as u32, m);
                rets.push(p.process_msg(&mut dm));
            }
            (Box::new(p), rets, None)
        }
        Some(pp) => {
            let (p, rets, po) = run_pipeline(c, pp, p, &mut problems);
            (p, rets, Some(po))
        }
    };
    let state = p.state();
    let state = state.read().unwrap();
    let generation = state.generation as u64;
    let tree = state.value["treeItems"].as_array().cloned().unwrap_or_default();
    let mut items = vec![];
    if !tree.is_empty() {
        if tree[0]["label"].as_str() != Some("Sorted by name") || tree[0]["children"].as_array().map(|a| a.len()) != Some(tree.len() - 1) {
            problems.push("tree layout".into());
        }
        for v in &tree[1..] {
            items.push(parse_item(v, &mut problems));
        }
    }
    let labels: Vec<String> = tree.iter().skip(1).map(|v| v["label"].as_str().unwrap_or("").to_string()).collect();
    if let Some(po) = &pipe_obs {
        // lifecycle ids are process-global counters: show the label of the lifecycle instead
        for it in items.iter_mut() {
            it.lc = po.label_of(it.lc as u32) as u64;
        }
    }
    // the save command for every transfer number
    let tmp_out = root.path().join("saved_by_cmd.bin");
    for (idx, it) in items.iter_mut().enumerate() {
        let _ = std::fs::remove_file(&tmp_out);
        let params = json!({"saveAs": tmp_out.to_str().unwrap()});
        let ctx = json!({"save": {"idx": idx}});
        let ok = match state.apply_command {
            Some(f) => f(&state.internal_data, "save", params.as_object(), ctx.as_object()),
            None => false,
        };
        if ok {
            it.bytes = Some(std::fs::read(&tmp_out).unwrap_or_default());
        }
        let meta_saved = tree[idx + 1]["meta"]["autoSavedTo"].as_str().map(|s| s.to_string());
        if let Some(s) = meta_saved {
            // map the real directory to the symbolic one
            let real = real_dir.clone().unwrap_or_else(|| "./".into());
            if let Some(rest) = s.strip_prefix(&real) {
                let mut v = sym_dir(&c.cfg);
                v.extend_from_slice(rest.as_bytes());
                it.saved_to = Some(v);
            } else {
                problems.push(format!("autoSavedTo {:?} not below the configured directory", s));
                it.saved_to = Some(s.into_bytes());
            }
        }
    }
    let _ = std::fs::remove_file(&tmp_out);
    // the manual save commands on the prepared directory, through the public entry point PluginState.apply_command
    let mut saves = vec![];
    for (idx, target) in &c.saves {
        let tp = cmd.join(String::from_utf8_lossy(target).to_string());
        let before_all = list_flat(&cmd);
        let before = if tp.is_file() { std::fs::read(&tp).ok() } else { None };
        let params = json!({"saveAs": tp.to_str().unwrap()});
        let ctx = json!({"save": {"idx": idx}});
        let ok = match state.apply_command {
            Some(f) => f(&state.internal_data, "save", params.as_object(), ctx.as_object()),
            None => false,
        };
        let after = if tp.is_file() { std::fs::read(&tp).ok() } else { None };
        let after_all = list_flat(&cmd);
        let tname = String::from_utf8_lossy(target).to_string();
        let strip = |l: &Vec<(String, Option<Vec<u8>>)>| l.iter().filter(|e| e.0 != tname).cloned().collect::<Vec<_>>();
        saves.push(SaveObs { idx: *idx, target: target.clone(), creatable: creatable(c, target, ignored), ok, before, after, others_changed: strip(&before_all) != strip(&after_all) });
    }
    // file system after the run
    let mut all = vec![];
    walk(root.path(), "", &mut all);
    let mut files = vec![];
    let is_predir = |n: &str| !c.cfg.dir_missing && c.cfg.pre_dirs.iter().any(|d| String::from_utf8_lossy(d) == n);
    let is_sdir = |n: &str| c.sdirs.iter().any(|d| String::from_utf8_lossy(d) == n);
    for (rel, content) in all {
        if (rel == "save" || rel == "cmd") && content.is_none() {
            continue;
        }
        if let Some(n) = rel.strip_prefix("cmd/") {
            match content {
                Some(d) if !n.contains('/') => files.push((path_join(b"/S", n.as_bytes()), d)),
                None if is_sdir(n) => {}
                _ => problems.push(format!("unexpected entry in the save command directory: {:?}", rel)),
            }
            continue;
        }
        match (rel.strip_prefix("save/"), content) {
            (Some(n), Some(d)) if !n.contains('/') => files.push((path_join(&sym_dir(&c.cfg), n.as_bytes()), d)),
            (Some(n), None) if is_predir(n) => {}
            (_, _) => problems.push(format!("file system entry outside the auto-save directory: {:?}", rel)),
        }
    }
    files.sort();
    let mut probe = vec![];
    walk(Path::new(ABS_PROBE), "", &mut probe);
    if !probe.is_empty() {
        problems.push(format!("written outside the configured directory: {}/{}", ABS_PROBE, probe[0].0));
        let _ = std::fs::remove_dir_all(ABS_PROBE);
    }
    let conv = match &c.pipe {
        Some(pp) if pp.mode == 2 => run_convert(c, pp),
        _ => None,
    };
    RunObs { rets, generation, items, files, problems, saves, pipe: pipe_obs.map(|p| p.obs), labels, conv }
}

/// message of a pipeline case: as `build_msg`, with reception time and timestamp (WTMS set); the lifecycle is the stage's business
fn build_timed(index: u32, m: &Msg, t: (u64, u32)) -> DltMessage {
    let mut dm = build_msg(index, m);
    dm.reception_time_us = t.0;
    dm.timestamp_dms = t.1;
    dm.standard_header.htyp |= 0x10;
    dm.lifecycle = 0;
    dm
}
struct PipeRun {
    obs: PipeObs,
    /// real lifecycle id -> label
    map: BTreeMap<u32, u32>,
    base: u32,
}
impl PipeRun {
    fn label_of(&self, id: u32) -> u32 {
        match self.map.get(&id) {
            Some(l) => *l,
            None => 1000 + id.wrapping_sub(self.base),
        }
    }
}
/// the wiring of `adlt convert` (src/bin/adlt/convert.rs: parser -> lc_thread -> plugin_thread) and of the remote server
/// with the real stages, run one after the other on unbounded channels
fn run_pipeline(c: &CaseIn, pp: &Pipe, plugin: FileTransferPlugin, problems: &mut Vec<String>) -> (Box<dyn Plugin + Send>, Vec<bool>, PipeRun) {
    use adlt::lifecycle::{parse_lifecycles_buffered_from_stream, Lifecycle, LifecycleId, LifecycleItem};
    use std::sync::mpsc::channel;
    let n = c.msgs.len();
    assert_eq!(pp.times.len(), n, "pipeline case without times");
    // ids are global; we are the only creator of lifecycles in this process right now
    let base = {
        let mut m = build_timed(0, &Msg { ecu: c4("ZZZZ"), lc: 0, ext: None, body: Body::Args { be: false, args: vec![] } }, (1, 0));
        Lifecycle::new(&mut m).id()
    };
    let (tx, rx) = channel();
    for (i, m) in c.msgs.iter().enumerate() {
        tx.send(build_timed(i as u32, m, pp.times[i])).unwrap();
    }
    drop(tx);
    let (tx2, rx2) = channel();
    let (lcs_r, lcs_w) = evmap::new::<LifecycleId, LifecycleItem>();
    let seen = std::cell::RefCell::new(Vec::<(u32, u32)>::new());
    let lcs_w = parse_lifecycles_buffered_from_stream(lcs_w, rx, &|m: DltMessage| {
        seen.borrow_mut().push((m.index, m.lifecycle));
        tx2.send(m)
    });
    drop(tx2);
    let (tx3, rx3) = channel();
    let plugins = adlt::plugins::plugins_process_msgs(rx2, &|m: DltMessage| tx3.send(m), vec![Box::new(plugin) as Box<dyn Plugin + Send>]).expect("plugin stage");
    drop(tx3);
    let fwd: Vec<u32> = rx3.into_iter().map(|m| m.index).collect();
    let seen = seen.into_inner();
    let forwarded_ok = seen.len() == n && seen.iter().enumerate().all(|(i, s)| s.0 as usize == i);
    if !forwarded_ok {
        problems.push(format!("lifecycle stage forwarded {} of {} messages or not in order", seen.len(), n));
    }
    let rets: Vec<bool> = (0..n as u32).map(|i| fwd.contains(&i)).collect();
    // the final table: (id, ecu, nr_msgs)
    let mut table: Vec<(u32, u32, u32)> = vec![];
    if let Some(a) = lcs_r.read() {
        for (id, b) in a.iter() {
            if let Some(lc) = b.get_one() {
                table.push((*id, u32::from_be_bytes(*lc.ecu.as_buf()), lc.nr_msgs));
            }
        }
    }
    drop(lcs_w);
    table.sort();
    let mut map = BTreeMap::new();
    let mut truth_ok = forwarded_ok;
    let mut ecus: Vec<u32> = c.msgs.iter().map(|m| m.ecu).collect();
    ecus.sort();
    ecus.dedup();
    for e in &ecus {
        let rows: Vec<&(u32, u32, u32)> = table.iter().filter(|r| r.1 == *e).collect();
        for (k, r) in rows.iter().enumerate() {
            map.insert(r.0, k as u32 + 1);
        }
        let boots = c.msgs.iter().filter(|m| m.ecu == *e).map(|m| m.lc).max().unwrap_or(0) as usize;
        if rows.len() != boots {
            truth_ok = false;
        }
        for (k, r) in rows.iter().enumerate() {
            if c.msgs.iter().filter(|m| m.ecu == *e && m.lc == k as u32 + 1).count() as u32 != r.2 {
                truth_ok = false;
            }
        }
    }
    if table.iter().any(|r| !ecus.contains(&r.1)) {
        truth_ok = false;
    }
    let created = {
        let mut m = build_timed(0, &Msg { ecu: c4("ZZZZ"), lc: 0, ext: None, body: Body::Args { be: false, args: vec![] } }, (1, 0));
        Lifecycle::new(&mut m).id().wrapping_sub(base).wrapping_sub(1)
    };
    let mut run = PipeRun { obs: PipeObs { lc_actual: vec![], truth_ok, created, finals: table.len(), forwarded_ok }, map, base };
    let mut lc_actual = vec![0u32; n];
    for (idx, id) in &seen {
        if (*idx as usize) < n {
            lc_actual[*idx as usize] = run.label_of(*id);
        }
    }
    run.obs.lc_actual = lc_actual;
    (plugins.into_iter().next().expect("plugin returned"), rets, run)
}

/// `adlt convert --file_transfer=<glob> --file_transfer_path <dir> [--file_transfer_apid ..] [--file_transfer_ctid ..] <file>` on a
/// file holding the messages of the case (storage header = reception time and ECU, standard header with timestamp)
fn run_convert(c: &CaseIn, pp: &Pipe) -> Option<ConvObs> {
    let bin = std::env::var("VERIF_ADLT_BIN").ok()?;
    if !Path::new(&bin).exists() {
        return None;
    }
    let root = tempfile::tempdir().ok()?;
    let file = root.path().join("in.dlt");
    {
        use std::io::Write;
        let mut f = std::io::BufWriter::new(std::fs::File::create(&file).ok()?);
        for (i, m) in c.msgs.iter().enumerate() {
            build_timed(i as u32, m, pp.times[i]).to_write(&mut f).ok()?;
        }
        f.flush().ok()?;
    }
    let out = root.path().join("saved");
    let mut cmd = std::process::Command::new(&bin);
    cmd.arg("convert").arg(format!("--file_transfer={}", c.cfg.glob.clone().unwrap_or("*".into()))).arg("--file_transfer_path").arg(&out);
    let c4s = |v: u32| String::from_utf8_lossy(&v.to_be_bytes()).to_string();
    if let Some(a) = c.cfg.apid {
        cmd.arg("--file_transfer_apid").arg(c4s(a));
    }
    if let Some(a) = c.cfg.ctid {
        cmd.arg("--file_transfer_ctid").arg(c4s(a));
    }
    cmd.arg(&file).current_dir(root.path()).stdin(std::process::Stdio::null());
    let o = cmd.output().ok()?;
    let stdout = String::from_utf8_lossy(&o.stdout).to_string();
    let mut lines = vec![];
    // the lifecycles are listed with the same prefix: the transfers follow the line "have N file transfers:"
    let mut in_transfers = false;
    for l in stdout.lines() {
        if l.starts_with("have ") && l.trim_end().ends_with("file transfers:") {
            in_transfers = true;
            continue;
        }
        if !in_transfers {
            continue;
        }
        if let Some(r) = l.strip_prefix("LC# ") {
            if let Some(p) = r.find(": ") {
                lines.push(r[p + 2..].to_string());
            }
        }
    }
    Some(ConvObs { ok: o.status.success(), lines, files: list_flat(&out) })
}

/// file contents in the observation (mirrors Exec/C17.v o_blob): literal up to 48 bytes, else length, checksum, head, tail
fn blob(d: &[u8]) -> O {
    if d.len() <= 48 {
        return O::bytes(d);
    }
    let mut h: u64 = 7;
    for b in d {
        h = (h * 131 + *b as u64 + 1) % 4294967291;
    }
    O::T(vec![O::n(d.len() as u64), O::n(h), O::bytes(&d[..8]), O::bytes(&d[d.len() - 8..])])
}
fn obs_tree(r: &Result<RunObs, String>) -> O {
    match r {
        Err(_) => O::T(vec![O::L(1)]),
        Ok(o) => O::T(vec![
            O::L(0),
            O::T(o.rets.iter().map(|b| O::b(*b)).collect()),
            O::n(o.generation),
            O::T(o
                .items
                .iter()
                .map(|i| {
                    O::T(vec![
                        O::n(i.state),
                        O::n(i.ecu),
                        O::n(i.lc),
                        O::n(i.serial),
                        O::bytes(&i.name),
                        O::n(i.size),
                        O::n(i.next),
                        O::n(i.recvd),
                        O::n(i.nr),
                        O::opt(i.saved_to.as_ref().map(|b| O::bytes(b))),
                        O::opt(i.basename.as_ref().map(|b| O::bytes(b))),
                        O::opt(i.bytes.as_ref().map(|b| blob(b))),
                    ])
                })
                .collect()),
            O::T(o.files.iter().map(|(p, d)| O::T(vec![O::bytes(p), blob(d)])).collect()),
            O::T(o.saves.iter().map(|s| O::T(vec![O::b(s.ok), O::opt(s.after.as_ref().map(|d| blob(d)))])).collect()),
        ]),
    }
}

/// run the case: in-process (panics caught) or in a child process when the case may abort the process
fn run_impl(c: &CaseIn) -> Result<RunObs, String> {
    if c.isolate {
        // child: same binary, `--child FILE`; exit code 0 = survived, 3 = panicked, anything else / signal = crashed
        let f = tempfile::NamedTempFile::new().unwrap();
        std::fs::write(f.path(), serde_json::to_vec(c).unwrap()).unwrap();
        let st = std::process::Command::new(std::env::current_exe().unwrap())
            .arg("--child")
            .arg(f.path())
            .stdout(std::process::Stdio::null())
            .stderr(std::process::Stdio::null())
            .status()
            .map_err(|e| format!("spawn: {}", e))?;
        match st.code() {
            Some(0) => {}
            Some(3) => return Err("panic in isolated run".into()),
            other => return Err(format!("process died in isolated run ({:?})", other)),
        }
    }
    let c2 = c.clone();
    silence_stdout(|| catch_loc(move || run_impl_inner(&c2)))
}

/// the plugin prints to stdout; keep the harness output readable
fn silence_stdout<T, F: FnOnce() -> T>(f: F) -> T {
    f()
}

// ------------------------------------------------------------------ oracle: the property's statement on what the implementation did
fn same_key(t: &Intent, i: &Item) -> bool {
    t.ecu == i.ecu && t.lc as u64 == i.lc && t.serial == i.serial
}
/// The announced files a shown transfer may stand for.  Transfers under one key are numbered in log order on both sides
/// (every announcement / first package without announcement opens a new transfer, the plugin lists them in this order):
/// one intent for the key -> that one (whatever the number of items); as many items as intents -> the one with the same
/// ordinal; otherwise the attribution is open and every intent of the key is a candidate.
fn candidates<'a>(c: &'a CaseIn, o: &RunObs, idx: usize) -> Vec<&'a Intent> {
    let it = &o.items[idx];
    let group: Vec<&Intent> = c.intents.iter().filter(|t| same_key(t, it)).collect();
    if group.len() <= 1 {
        return group;
    }
    let mine: Vec<usize> = (0..o.items.len()).filter(|j| same_key(group[0], &o.items[*j])).collect();
    if mine.len() == group.len() {
        let pos = mine.iter().position(|j| *j == idx).unwrap();
        return vec![group[pos]];
    }
    group
}
fn oracle(c: &CaseIn, r: &Result<RunObs, String>) -> Verdict {
    let fail = |cl: &str, d: String| Verdict::Fail { clause: cl.into(), detail: d };
    let o = match r {
        Err(e) => return fail("no_panic", e.clone()),
        Ok(o) => o,
    };
    if let Some(p) = o.problems.first() {
        let cl = if p.contains("outside") || p.contains("not below") { "autosave_confined" } else if p.contains("lifecycle stage forwarded") { "pipeline_forward" } else { "harness_parse" };
        return fail(cl, p.clone());
    }
    // automatic saving never overwrites an existing file
    let sd = sym_dir(&c.cfg);
    if !c.cfg.dir_missing {
        for (n, d) in &c.cfg.pre {
            let p = path_join(&sd, n);
            match o.files.iter().find(|f| f.0 == p) {
                Some(f) if &f.1 == d => {}
                _ => return fail("autosave_no_overwrite", format!("existing file {:?} changed or removed", String::from_utf8_lossy(n))),
            }
        }
    }
    // every new file belongs to a transfer reported complete that names it, and holds that transfer's file
    for f in &o.files {
        if f.0.starts_with(b"/S/") {
            continue; // written by the save command, checked below
        }
        let is_pre = !c.cfg.dir_missing && c.cfg.pre.iter().any(|(n, _)| path_join(&sd, n) == f.0);
        if is_pre {
            continue;
        }
        let owner = o.items.iter().find(|i| i.saved_to.as_ref() == Some(&f.0));
        match owner {
            None => return fail("autosave_owner", format!("file {:?} is not the autoSavedTo of any transfer", String::from_utf8_lossy(&f.0))),
            Some(i) => {
                if i.state != 2 {
                    return fail("damaged_saved", format!("file {:?} saved for a transfer that is not complete", String::from_utf8_lossy(&f.0)));
                }
                let idx = o.items.iter().position(|j| std::ptr::eq(j, i)).unwrap();
                let cands = candidates(c, o, idx);
                if !cands.is_empty() && !cands.iter().any(|t| t.content() == f.1) {
                    return fail("damaged_saved", format!("auto-saved {:?} differs from the file transferred under its announcement", String::from_utf8_lossy(&f.0)));
                }
            }
        }
    }
    // a path reported as autoSavedTo holds a file
    for i in &o.items {
        if let Some(p) = &i.saved_to {
            if !o.files.iter().any(|f| &f.0 == p) {
                return fail("autosave_owner", format!("autoSavedTo {:?} does not exist", String::from_utf8_lossy(p)));
            }
        }
    }
    // (1) every transfer reported complete holds exactly the bytes (size, name) of ONE file announced under its key,
    //     the one sent under its own announcement -- never a mix of several transfers
    for (idx, i) in o.items.iter().enumerate() {
        if i.state != 2 {
            continue;
        }
        let cands = candidates(c, o, idx);
        if cands.is_empty() {
            continue;
        }
        let fits = |t: &&Intent| i.size == t.size() && i.bytes.as_ref().map(|b| *b == t.content()).unwrap_or(true) && (t.fault == "drop_flst" || i.name == t.name);
        if !cands.iter().any(fits) {
            let t = cands[0];
            return fail(
                "complete_exact",
                format!(
                    "serial {} (item {}) complete with {} that {} ({} bytes, name {:?}, fault {}){}",
                    i.serial,
                    idx,
                    i.bytes.as_ref().map(|b| format!("{} bytes", b.len())).unwrap_or(format!("size {}", i.size)),
                    if cands.len() == 1 { "differ from the file sent under this announcement" } else { "are none of the files announced under this key" },
                    t.size(),
                    String::from_utf8_lossy(&t.name),
                    t.fault,
                    if i.name != t.name && t.fault != "drop_flst" { format!(", shown under the name {:?}", String::from_utf8_lossy(&i.name)) } else { String::new() }
                ),
            );
        }
    }
    // (2) per announced file: what its own transfer must (not) have become
    for (ti, t) in c.intents.iter().enumerate() {
        let ord = c.intents[..ti].iter().filter(|u| u.ecu == t.ecu && u.lc == t.lc && u.serial == t.serial).count();
        let gl = c.intents.iter().filter(|u| u.ecu == t.ecu && u.lc == t.lc && u.serial == t.serial).count();
        let mine: Vec<&Item> = o.items.iter().filter(|i| same_key(t, i)).collect();
        // the transfer(s) that stand for this file: all items of the key when the key is used once, else the one with the same ordinal
        let own: Vec<&Item> = if gl == 1 { mine.clone() } else if mine.len() == gl { vec![mine[ord]] } else { vec![] };
        let complete: Vec<&&Item> = own.iter().filter(|i| i.state == 2).collect();
        match t.fault.as_str() {
            "none" | "dup" | "drop_flfi" => {
                if mine.len() != gl || complete.len() != 1 {
                    return fail(
                        "inorder_complete",
                        format!("serial {} (transfer {} of {} under this key, fault {}): {} items, {} complete, states {:?}", t.serial, ord + 1, gl, t.fault, mine.len(), complete.len(), mine.iter().map(|i| i.state).collect::<Vec<_>>()),
                    );
                }
                if c.cfg.allow_save && complete[0].bytes.is_none() {
                    return fail("inorder_complete", format!("serial {} (transfer {} of {}): complete but cannot be saved", t.serial, ord + 1, gl));
                }
            }
            "drop" | "swap" | "resize" | "trunc" => {
                if !complete.is_empty() {
                    return fail("fault_not_complete", format!("serial {} (transfer {} of {} under this key) reported complete although fault {}", t.serial, ord + 1, gl, t.fault));
                }
            }
            _ => {}
        }
    }
    // the save command: after every save reported successful the target holds exactly the transfer's content,
    // whatever it held before; a refused save leaves the target untouched; nothing else in the directory changes
    for (k, sv) in o.saves.iter().enumerate() {
        let name = String::from_utf8_lossy(&sv.target).to_string();
        if sv.others_changed {
            return fail("save_confined", format!("save #{} to {:?} changed another entry of the directory", k, name));
        }
        let item = o.items.get(sv.idx as usize);
        let saveable = item.map(|i| i.bytes.is_some()).unwrap_or(false);
        if sv.ok {
            let it = match item {
                Some(i) if i.state == 2 => i,
                _ => return fail("damaged_saved", format!("save #{} succeeded for transfer {} which is not complete", k, sv.idx)),
            };
            // the original content: the generator's intent if there is one, else what a save to a fresh file delivered
            let cands = candidates(c, o, sv.idx as usize);
            let want = match &sv.after {
                Some(a) if cands.iter().any(|t| t.content() == *a) => Some(a.clone()),
                _ => cands.first().map(|t| t.content()).or(it.bytes.clone()),
            };
            match (&sv.after, want) {
                (Some(a), Some(w)) if *a == w => {}
                (Some(a), Some(w)) => {
                    return fail("save_exact", format!("save #{} of transfer {} to {:?} reported success but the file holds {} bytes that differ from the transfer's {} bytes (target before: {})", k, sv.idx, name, a.len(), w.len(), sv.before.as_ref().map(|b| format!("{} bytes", b.len())).unwrap_or("absent".into())))
                }
                (None, _) => return fail("save_exact", format!("save #{} to {:?} reported success but there is no file", k, name)),
                (_, None) => return fail("save_exact", format!("save #{}: success for a transfer without data", k)),
            }
            if let (Some(a), Some(b)) = (&sv.after, &it.bytes) {
                if a != b {
                    return fail("save_exact", format!("save #{} of transfer {} to {:?}: the file differs from what the same command wrote to a fresh file", k, sv.idx, name));
                }
            }
            if !sv.creatable {
                return fail("harness_parse", format!("save #{} to {:?} succeeded although the target cannot be created", k, name));
            }
        } else {
            if sv.before != sv.after {
                return fail("save_failed_untouched", format!("save #{} to {:?} reported failure but the target changed", k, name));
            }
            if saveable && sv.creatable {
                return fail("save_possible", format!("save #{} of the complete transfer {} to the creatable target {:?} failed", k, sv.idx, name));
            }
        }
    }
    for d in &c.sdirs {
        let p = path_join(b"/S", d);
        if o.files.iter().any(|f| f.0 == p) {
            return fail("save_failed_untouched", format!("directory {:?} replaced by a file", String::from_utf8_lossy(d)));
        }
    }
    // bytes are only handed out for complete transfers
    for i in &o.items {
        if i.bytes.is_some() && i.state != 2 {
            return fail("damaged_saved", format!("serial {} not complete but the save command delivers data", i.serial));
        }
    }
    // the binary (`adlt convert --file_transfer..`) on a file with the same messages: same transfers reported, same files saved
    // (the clauses above hold for the library pipeline; equality carries them over)
    if let Some(cv) = &o.conv {
        if !cv.ok {
            return fail("convert_run", "adlt convert failed".into());
        }
        let mut want: Vec<(String, Option<Vec<u8>>)> = vec![];
        for f in &o.files {
            if f.0.starts_with(b"/S/") {
                continue;
            }
            let rest = f.0.strip_prefix(&sd[..]).unwrap_or(&f.0);
            let rest = rest.strip_prefix(b"/").unwrap_or(rest);
            want.push((String::from_utf8_lossy(rest).to_string(), Some(f.1.clone())));
        }
        want.sort();
        if want != cv.files {
            let show = |l: &Vec<(String, Option<Vec<u8>>)>| l.iter().map(|e| format!("{}:{}", e.0, e.1.as_ref().map(|d| d.len() as i64).unwrap_or(-1))).collect::<Vec<_>>().join(",");
            return fail("convert_saved", format!("adlt convert saved [{}], the library pipeline [{}]", show(&cv.files), show(&want)));
        }
        let same = cv.lines.len() == o.items.len()
            && cv.lines.iter().zip(o.labels.iter().zip(o.items.iter())).all(|(l, (lab, it))| l.starts_with(lab.as_str()) && l.contains(", saved as: '") == it.saved_to.is_some());
        if !same {
            return fail("convert_reported", format!("adlt convert reports {:?}, the library pipeline {:?}", cv.lines, o.labels));
        }
    }
    Verdict::Ok
}

/// The case as the plugin model and the oracle read it.  Pipeline cases: the generator's ground truth (one lifecycle per boot,
/// `Msg.lc` = number of the boot) is used when the stage's FINAL LIFECYCLE TABLE confirms it (one lifecycle per boot with the
/// boot's number of messages: that table is kept by the stage independently of the labels it puts on the forwarded messages).
/// Otherwise (the detection heuristics legitimately saw the history differently) the labels are those of the forwarded
/// messages and no transfer-level expectation is derived: only the clauses that hold for every log apply.
fn effective(c: &CaseIn, r: &Result<RunObs, String>) -> CaseIn {
    if let (Some(_), Ok(o)) = (&c.pipe, r) {
        if let Some(po) = &o.pipe {
            if !po.truth_ok {
                let mut e = c.clone();
                for (m, l) in e.msgs.iter_mut().zip(po.lc_actual.iter()) {
                    m.lc = *l;
                }
                e.intents.clear();
                return e;
            }
        }
    }
    c.clone()
}

// ------------------------------------------------------------------ Coq rendering
fn cbytes(b: &[u8]) -> String {
    cnums(b)
}
fn coq_body(b: &Body) -> String {
    match b {
        Body::Flst { be, sty, serial, name, size, nr, bs } => format!("BFlst {} {} {} {} {} {} {}", cbool(*be), sty, serial, cbytes(name), size, nr, bs),
        Body::Flda { be, sty, sty2, serial, pnr, raw_ti, payload } => format!("BFlda {} {} {} {} {} {} {}", cbool(*be), sty, sty2, serial, pnr, raw_ti, cbytes(payload)),
        Body::FldaPat { be, sty, sty2, serial, pnr, raw_ti, a, b, len } => format!("BFldaPat {} {} {} {} {} {} {} {} {}", cbool(*be), sty, sty2, serial, pnr, raw_ti, a, b, len),
        Body::Flfi { be, sty, serial } => format!("BFlfi {} {} {}", cbool(*be), sty, serial),
        Body::Args { be, args } => format!("BArgs {}", clist(&args.iter().map(|(ti, raw)| format!("({}, {}, {})", ti, cbool(*be), cbytes(raw))).collect::<Vec<_>>())),
    }
}
fn coq_case(c: &CaseIn, glob_tbl: &Option<Vec<Vec<u8>>>) -> String {
    let cfg = &c.cfg;
    let on = |o: Option<u32>| copt(o.map(|v| v.to_string()));
    let pre: Vec<String> = if cfg.dir_missing { vec![] } else { cfg.pre.iter().map(|(n, d)| format!("({}, {})", cbytes(n), cbytes(d))).collect() };
    let ccfg = format!(
        "({}, {}, {}, {}, {}, {}, {}, {})",
        cbool(cfg.enabled),
        cbool(cfg.allow_save),
        cbool(cfg.keep_flda),
        on(cfg.apid),
        on(cfg.ctid),
        copt(cfg.dir.as_ref().map(|_| cbytes(&sym_dir(cfg)))),
        copt(glob_tbl.as_ref().map(|t| clist(&t.iter().map(|n| cbytes(n)).collect::<Vec<_>>()))),
        clist(&pre)
    );
    let msgs: Vec<String> = c
        .msgs
        .iter()
        .map(|m| {
            let ext = copt(m.ext.map(|(a, ct, v, n)| format!("({}, {}, {}, {})", a, ct, v, n)));
            format!("({}, {}, {}, {})", m.ecu, m.lc, ext, coq_body(&m.body))
        })
        .collect();
    let ignored = perms_ignored();
    let mut dirs: Vec<String> = vec![];
    if !cfg.dir_missing {
        dirs.extend(cfg.pre_dirs.iter().map(|d| cbytes(&path_join(&sym_dir(cfg), d))));
    }
    dirs.extend(c.sdirs.iter().map(|d| cbytes(&path_join(b"/S", d))));
    let extra: Vec<String> = c.spre.iter().map(|(n, d)| format!("({}, {})", cbytes(&path_join(b"/S", n)), cbytes(d))).collect();
    let ops: Vec<String> = c.saves.iter().map(|(i, t)| format!("({}, {}, {})", i, cbytes(&path_join(b"/S", t)), cbool(creatable(c, t, ignored)))).collect();
    format!("({}, {}, ({}, {}, {}))", ccfg, clist(&msgs), clist(&dirs), clist(&extra), clist(&ops))
}

/// names the plugin may ask the glob about: the announced names as the model decodes them, and "<missing_flst>"
fn glob_table(c: &CaseIn) -> Option<Vec<Vec<u8>>> {
    let g = c.cfg.glob.as_ref()?;
    let pat = glob::Pattern::new(g).expect("glob");
    let mut names: Vec<Vec<u8>> = vec![MISSING_FLST.to_vec(), vec![]];
    for m in &c.msgs {
        let (_, args) = expand(&m.body);
        if let Some((ti, raw)) = args.get(2) {
            if ti & TI_STRG != 0 && raw.len() > 1 {
                names.push(raw[..raw.len() - 1].to_vec());
            }
        }
    }
    names.sort();
    names.dedup();
    Some(names.into_iter().filter(|n| pat.matches(&String::from_utf8_lossy(n))).collect())
}

fn record(sink: &mut Sink, family: &str, c0: CaseIn) {
    // normalise the messages first (the model reads decoded arguments)
    let c_in = CaseIn { msgs: c0.msgs.iter().map(|m| normalise(&compress(m))).collect(), ..c0 };
    let r = run_impl(&c_in);
    let c = effective(&c_in, &r);
    let mut verdict = oracle(&c, &r);
    if let Some((nr, bs)) = c.probe {
        if let Verdict::Ok = verdict {
            verdict = prealloc_probe(nr, bs);
        }
    }
    let obs = obs_tree(&r);
    let tbl = glob_table(&c);
    let input_coq = coq_case(&c, &tbl);
    let mut tags = vec![format!("family_{}", family), format!("transfers{}", c.intents.len().min(5))];
    if c.probe.is_some() {
        tags.push("oracle_only_prealloc_probe".into());
    }
    if let Some(pp) = &c_in.pipe {
        tags.push("via_lifecycle_stage".into());
        tags.extend(pp.tags.iter().cloned());
        if let Ok(o) = &r {
            if let Some(po) = &o.pipe {
                tags.push(if po.truth_ok { "lc_truth_confirmed_by_table".to_string() } else { "lc_truth_mismatch".to_string() });
                if po.created as usize > po.finals {
                    tags.push("lc_merge_happened".into());
                }
                if po.truth_ok && po.lc_actual.iter().zip(c_in.msgs.iter()).any(|(a, m)| *a != m.lc) {
                    tags.push("forwarded_label_not_final".into());
                }
                if c_in.msgs.iter().any(|m| m.lc > 1) {
                    tags.push("lc_reboot".into());
                }
            }
            if pp.mode == 2 {
                tags.push(if o.conv.is_some() { "adlt_convert_run".to_string() } else { "adlt_convert_bin_missing".to_string() });
            }
        }
    }
    for t in &c.intents {
        tags.push(format!("fault_{}", t.fault));
        let n = (t.size() + t.bs - 1) / t.bs.max(1);
        tags.push(format!("filesize_{}", match t.size() { 0..=64 => "le64", 65..=511 => "65_511", 512 => "512", 513..=1023 => "513_1023", 1024..=4095 => "1K_4K", _ => "ge4K" }));
        if t.fault == "drop_flst" && t.size() > 512 {
            tags.push("recovered_gt512".into());
        }
        if t.bs == 1 {
            tags.push("pkgsize1".into());
        }
        if t.bs >= t.size() {
            tags.push("pkgsize_ge_file".into());
        } else if t.size() % t.bs != 0 {
            tags.push("last_shorter".into());
        }
        if t.name.contains(&b'/') {
            tags.push("name_with_dir".into());
        }
        tags.push(format!("packages{}", n.min(6)));
    }
    if let Ok(o) = &r {
        for i in &o.items {
            tags.push(format!("state{}", i.state));
            if i.saved_to.is_some() {
                tags.push("auto_saved".into());
            }
        }
        if o.rets.iter().any(|b| !*b) {
            tags.push("flda_dropped".into());
        }
    } else {
        tags.push("panic".into());
    }
    if c.cfg.glob.is_some() {
        tags.push("autosave_cfg".into());
    }
    {
        // several transfers under one key; the same serial under several keys
        let mut per_key: BTreeMap<(u32, u32, u64), Vec<&Intent>> = BTreeMap::new();
        for t in &c.intents {
            per_key.entry((t.ecu, t.lc, t.serial)).or_default().push(t);
        }
        for g in per_key.values() {
            if g.len() >= 2 {
                tags.push(format!("key_used_{}x", g.len().min(4)));
                for w in g.windows(2) {
                    let rel = if w[0].content() == w[1].content() { "same_file" } else if w[0].size() == w[1].size() { "same_size_other_content" } else { "other_size" };
                    tags.push(format!("reannounce_{}_after_{}", rel, w[0].fault));
                    if w[0].name != w[1].name {
                        tags.push("reannounce_other_name".into());
                    }
                }
            }
        }
        let keys: Vec<&(u32, u32, u64)> = per_key.keys().collect();
        for (a, ka) in keys.iter().enumerate() {
            for kb in &keys[a + 1..] {
                if ka.2 == kb.2 {
                    tags.push(if ka.0 != kb.0 { "serial_on_two_ecus".to_string() } else { "serial_in_two_lifecycles".to_string() });
                }
            }
        }
    }
    if let Ok(o) = &r {
        for sv in &o.saves {
            let prior = match (&sv.before, sv.after.as_ref().map(|a| a.len())) {
                _ if c.sdirs.iter().any(|d| *d == sv.target) => "dir",
                _ if !sv.creatable => "uncreatable",
                (None, _) => "absent",
                (Some(b), _) if b.is_empty() => "empty",
                (Some(b), Some(a)) if sv.ok && b.len() < a => "shorter",
                (Some(b), Some(a)) if sv.ok && b.len() == a => "samelen",
                (Some(b), Some(a)) if sv.ok && b.len() > a => "longer",
                _ => "existing",
            };
            tags.push(format!("save_prior_{}", prior));
            tags.push(if sv.ok { "save_ok".to_string() } else { "save_refused".to_string() });
        }
    }
    if !c.cfg.pre_dirs.is_empty() {
        tags.push("autosave_target_is_dir".into());
    }
    if !c.cfg.pre.is_empty() && !c.cfg.dir_missing {
        tags.push("preexisting_files".into());
    }
    tags.sort();
    tags.dedup();
    let nontrivial = c.intents.iter().any(|t| t.size() > t.bs) || c.intents.len() >= 2;
    let id = sink.next_id();
    sink.push(Case { id, input_coq: input_coq.clone(), input_json: serde_json::to_value(&c_in).unwrap(), obs, verdict, classes: vec![], tags, nontrivial, key: input_coq });
}

// ------------------------------------------------------------------ generators
fn std_cfg() -> Cfg {
    Cfg { enabled: true, allow_save: true, keep_flda: false, apid: Some(c4("APID")), ctid: Some(c4("CTID")), dir: None, glob: None, pre: vec![], dir_missing: false, pre_dirs: vec![] }
}
fn autosave_cfg(allow_save: bool, glob: &str, sfx: &str) -> Cfg {
    Cfg { allow_save, dir: Some(sfx.into()), glob: Some(glob.into()), ..std_cfg() }
}

#[derive(Clone, Debug)]
struct Plan {
    ecu: u32,
    lc: u32,
    serial: u64,
    name: Vec<u8>,
    file: Vec<u8>,
    bs: u64,
    be: bool,
    sty: u8,
    sty2: u8,
    raw_ti: u32,
}
#[derive(Clone, Debug, PartialEq)]
enum Fault {
    None,
    /// duplicate package j, re-sent right after package `after` (j <= after <= n)
    Dup(usize, usize),
    Drop(usize),
    /// packages j and j+1 exchanged
    Swap(usize),
    /// payload of package j lengthened (true) or shortened (false) by one byte
    Resize(usize, bool),
    DropFlst,
    DropFlfi,
    /// the transfer breaks off: only packages 1..=j are sent (j < n); with `true` the end marker still arrives
    Trunc(usize, bool),
}
fn fault_name(f: &Fault) -> &'static str {
    match f {
        Fault::None => "none",
        Fault::Dup(..) => "dup",
        Fault::Drop(_) => "drop",
        Fault::Swap(_) => "swap",
        Fault::Resize(..) => "resize",
        Fault::DropFlst => "drop_flst",
        Fault::DropFlfi => "drop_flfi",
        Fault::Trunc(..) => "trunc",
    }
}
fn chunks(p: &Plan) -> Vec<Vec<u8>> {
    p.file.chunks(p.bs as usize).map(|c| c.to_vec()).collect()
}
/// the messages of one transfer with a single fault
fn transfer_msgs(p: &Plan, f: &Fault) -> Vec<Msg> {
    let ch = chunks(p);
    let n = ch.len();
    let mk = |body: Body, noar: u8| Msg { ecu: p.ecu, lc: p.lc, ext: Some((c4("APID"), c4("CTID"), 0x41, noar)), body };
    let flda = |j: usize, payload: Vec<u8>| mk(Body::Flda { be: p.be, sty: p.sty, sty2: p.sty2, serial: p.serial, pnr: j as u64, raw_ti: p.raw_ti, payload }, 5);
    let mut v = vec![];
    if *f != Fault::DropFlst {
        v.push(mk(Body::Flst { be: p.be, sty: p.sty, serial: p.serial, name: p.name.clone(), size: p.file.len() as u64, nr: n as u64, bs: p.bs }, 8));
    }
    let mut order: Vec<usize> = (1..=n).collect();
    if let Fault::Swap(j) = f {
        order.swap(j - 1, *j);
    }
    for j in order {
        if *f == Fault::Drop(j) {
            continue;
        }
        if let Fault::Trunc(upto, _) = f {
            if j > *upto {
                continue;
            }
        }
        let mut payload = ch[j - 1].clone();
        if let Fault::Resize(k, longer) = f {
            if *k == j {
                if *longer {
                    payload.push(0xEE);
                } else {
                    payload.pop();
                }
            }
        }
        v.push(flda(j, payload));
        if let Fault::Dup(d, after) = f {
            if *after == j {
                v.push(flda(*d, ch[d - 1].clone()));
            }
        }
    }
    if *f != Fault::DropFlfi && !matches!(f, Fault::Trunc(_, false)) {
        v.push(mk(Body::Flfi { be: p.be, sty: p.sty, serial: p.serial }, 3));
    }
    v
}
fn intent(p: &Plan, f: &Fault) -> Intent {
    let mut i = Intent { ecu: p.ecu, lc: p.lc, serial: p.serial, name: p.name.clone(), file: p.file.clone(), pats: vec![], bs: p.bs, fault: fault_name(f).into() };
    if p.file.len() > 64 {
        let pats: Vec<Option<(u8, u8, u32)>> = p.file.chunks(p.bs as usize).map(as_pat).collect();
        if pats.iter().all(|x| x.is_some()) {
            i.pats = pats.into_iter().map(|x| x.unwrap()).collect();
            i.file = vec![];
        }
    }
    i
}
fn all_faults(n: usize) -> Vec<Fault> {
    let mut v = vec![Fault::None, Fault::DropFlst, Fault::DropFlfi];
    for j in 1..=n {
        v.push(Fault::Drop(j));
        v.push(Fault::Resize(j, true));
        v.push(Fault::Resize(j, false));
        if j < n {
            v.push(Fault::Swap(j));
        }
        for after in j..=n {
            v.push(Fault::Dup(j, after));
        }
    }
    v
}
fn file_bytes(rng: &mut Rng, len: usize) -> Vec<u8> {
    (0..len).map(|_| rng.below(256) as u8).collect()
}
fn file_bytes_r(rng: &mut Rng, lo: u64, hi: u64) -> Vec<u8> {
    let n = rng.range(lo, hi) as usize;
    file_bytes(rng, n)
}
fn simple_plan(serial: u64, name: &[u8], file: Vec<u8>, bs: u64) -> Plan {
    Plan { ecu: c4("ECU1"), lc: 1, serial, name: name.to_vec(), file, bs, be: false, sty: 2, sty2: 6, raw_ti: TI_RAWD }
}

const NAMES: &[&str] = &[
    "a.bin", "test_file.bin", "/tmp/test_file.bin", "dir/sub/x.txt", "../up.bin", "../../etc/passwd", "/tmp/c17_abs_probe/abs.bin", "a/./b.bin", "a/b/", "a/b/.", "./rel.bin",
    "x/..", "..", ".", "/", "", "a//b.bin", ".hidden", "...", "sp ace.bin", "a/../c.bin", "keep.me", "pre1.bin", "-", "'q'.bin", "a\\b.bin",
];

fn unrelated(rng: &mut Rng, plans: &[Plan], apid_filtered: bool) -> Msg {
    // messages the plugin must ignore; several are near misses that reuse a running transfer's key
    let p = if plans.is_empty() { None } else { Some(rng.pick(plans).clone()) };
    let (ecu, lc, serial) = p.as_ref().map(|p| (p.ecu, p.lc, p.serial)).unwrap_or((c4("ECU1"), 1, 7));
    let flda = Body::Flda { be: rng.chance(1, 2), sty: 2, sty2: 6, serial, pnr: rng.range(1, 4), raw_ti: TI_RAWD, payload: vec![0xAA; rng.range(0, 3) as usize] };
    let flfi = Body::Flfi { be: false, sty: 2, serial };
    let mut variant = rng.below(10);
    if variant == 4 && !apid_filtered {
        variant = 7; // without an apid filter that message would be a genuine package
    }
    match variant {
        0 => Msg { ecu, lc, ext: None, body: Body::Args { be: false, args: vec![] } },
        1 => Msg { ecu, lc, ext: Some((c4("APID"), c4("CTID"), 0x40, 5)), body: flda }, // non-verbose
        2 => Msg { ecu, lc, ext: Some((c4("APID"), c4("CTID"), 0x31, 5)), body: flda }, // log warn
        3 => Msg { ecu, lc, ext: Some((c4("APID"), c4("CTID"), 0x41, 4)), body: flda }, // wrong noar
        4 => Msg { ecu, lc, ext: Some((c4("APIX"), c4("CTID"), 0x41, 5)), body: flda }, // other apid (filtered when configured)
        5 => Msg { ecu, lc, ext: Some((c4("APID"), c4("CTID"), 0x47, 3)), body: flfi }, // control message type
        6 => Msg { ecu, lc, ext: Some((c4("APID"), c4("CTID"), 0x41, 5)), body: Body::Args { be: false, args: vec![enc_str(b"FLDA"), enc_int(false, 2, serial), enc_int(false, 6, 1), (TI_RAWD, vec![1, 2]), enc_str(b"FLDX")] } },
        7 => Msg { ecu, lc, ext: Some((c4("APID"), c4("CTID"), 0x41, 1)), body: Body::Args { be: false, args: vec![enc_str(b"hello world")] } },
        8 => Msg { ecu: c4("ECUX"), lc, ext: Some((c4("APID"), c4("CTID"), 0x41, 3)), body: flfi }, // other ecu, unknown transfer
        _ => Msg { ecu, lc: lc + 100, ext: Some((c4("APID"), c4("CTID"), 0x41, 5)), body: Body::Flda { be: false, sty: 2, sty2: 6, serial, pnr: 2, raw_ti: TI_RAWD, payload: vec![9] } }, // other lifecycle, package 2: ignored
    }
}

/// random interleaving of several message sequences (each keeps its own order), with unrelated messages in between
fn interleave(rng: &mut Rng, seqs: Vec<Vec<Msg>>, plans: &[Plan], noise: u64, apid_filtered: bool) -> Vec<Msg> {
    let mut pos = vec![0usize; seqs.len()];
    let mut out = vec![];
    loop {
        let open: Vec<usize> = (0..seqs.len()).filter(|i| pos[*i] < seqs[*i].len()).collect();
        if open.is_empty() {
            break;
        }
        if noise > 0 && rng.chance(noise, 10) {
            out.push(unrelated(rng, plans, apid_filtered));
        }
        let i = *rng.pick(&open);
        out.push(seqs[i][pos[i]].clone());
        pos[i] += 1;
    }
    if noise > 0 && rng.chance(1, 2) {
        out.push(unrelated(rng, plans, apid_filtered));
    }
    out
}

fn gen_plan(rng: &mut Rng, k: usize, used: &mut Vec<(u32, u32, u64)>) -> Plan {
    let ecus = ["ECU1", "ECU2", "ABCD"];
    loop {
        let ecu = c4(*rng.pick(&ecus));
        let lc = rng.range(0, 2) as u32;
        let serial = match rng.below(6) {
            0 => 0,
            1 => rng.range(1, 3),
            2 => 255,
            3 => 65535 + rng.below(3),
            _ => rng.range(1, 200),
        };
        if used.contains(&(ecu, lc, serial)) {
            continue;
        }
        used.push((ecu, lc, serial));
        let bs = match rng.below(6) {
            0 => 1,
            1 => 2,
            2 => 3,
            3 => 4,
            4 => rng.range(5, 9),
            _ => rng.range(1, 4),
        };
        let npk = match rng.below(8) {
            0 => 1,
            1 => 2,
            2 => 5,
            _ => rng.range(1, 4),
        };
        // file length: npk packages, the last one full, shorter, or (npk = 1) the whole file in one package
        let last = if rng.chance(1, 2) { bs } else { rng.range(1, bs) };
        let len = (npk - 1) * bs + last;
        let file = file_bytes(rng, len as usize);
        let bs = if npk == 1 && rng.chance(1, 3) { len + rng.below(3) } else { bs }; // package size >= file
        let name = if rng.chance(1, 2) { format!("f{}.bin", k).into_bytes() } else { rng.pick(NAMES).as_bytes().to_vec() };
        let sty = *rng.pick(&[2u8, 2, 2, 3, 1, 6, 7]);
        // serial must fit the integer style
        let serial_fits = match sty % 8 {
            1 => serial < 65536,
            _ => true,
        };
        let sty = if serial_fits && len < 65536 { sty } else { 2 };
        return Plan { ecu, lc, serial, name, file, bs, be: rng.chance(1, 3), sty, sty2: *rng.pick(&[6u8, 6, 2, 0, 5]), raw_ti: if rng.chance(1, 5) { TI_STRG } else { TI_RAWD } };
    }
}
fn gen_fault(rng: &mut Rng, n: usize) -> Fault {
    if rng.chance(2, 5) {
        return Fault::None;
    }
    let fs = all_faults(n);
    rng.pick(&fs).clone()
}
fn gen_cfg(rng: &mut Rng) -> Cfg {
    let mut c = std_cfg();
    c.keep_flda = rng.chance(1, 3);
    match rng.below(4) {
        0 => {
            c.apid = None;
            c.ctid = None
        }
        1 => c.ctid = None,
        _ => {}
    }
    match rng.below(5) {
        0 => c.allow_save = false,
        1 | 2 => {
            // auto save
            c.allow_save = rng.chance(1, 2);
            c.dir = Some(if rng.chance(1, 4) { "/".into() } else { "".into() });
            c.glob = Some(rng.pick(&["*", "**/*.bin", "*.bin", "**/test_*.*", "f?.bin", "*/*"]).to_string());
            if rng.chance(1, 2) {
                let n = rng.range(1, 3);
                for i in 0..n {
                    let name = match rng.below(4) {
                        0 => "pre1.bin".to_string(),
                        1 => "f0.bin".to_string(),
                        2 => "test_file.bin".to_string(),
                        _ => format!("f{}.bin", i),
                    };
                    if !c.pre.iter().any(|(n, _)| n == name.as_bytes()) {
                        c.pre.push((name.into_bytes(), vec![0x50 + i as u8; rng.range(0, 3) as usize]));
                    }
                }
            } else if rng.chance(1, 4) {
                c.dir_missing = true;
            }
        }
        _ => {}
    }
    c
}

fn gen_scenario(rng: &mut Rng, big: bool) -> CaseIn {
    let cfg = gen_cfg(rng);
    let k = match rng.below(6) {
        0 | 1 => 1,
        2 | 3 => 2,
        4 => 3,
        _ => 4,
    };
    let mut used = vec![];
    let mut plans = vec![];
    let mut seqs = vec![];
    let mut intents = vec![];
    for i in 0..k {
        let mut p = gen_plan(rng, i, &mut used);
        if big && rng.chance(1, 4) {
            let extra_len = rng.range(3, 12) as usize;
            let extra = file_bytes(rng, extra_len);
            p.file.extend(extra);
            if p.bs >= p.file.len() as u64 - 3 {
                p.bs = rng.range(2, 4);
            }
        }
        let n = chunks(&p).len();
        let f = gen_fault(rng, n);
        seqs.push(transfer_msgs(&p, &f));
        intents.push(intent(&p, &f));
        plans.push(p);
    }
    let noise = rng.below(4);
    let msgs = if rng.chance(1, 5) { seqs.concat() } else { interleave(rng, seqs, &plans, noise, cfg.apid.is_some()) };
    CaseIn { cfg, msgs, intents, isolate: false, probe: None, spre: vec![], sdirs: vec![], sreadonly: vec![], saves: vec![], pipe: None }
}

/// malformed / adversarial streams: no intents, the oracle only checks crash freedom and the file system rules
fn gen_malformed(rng: &mut Rng) -> CaseIn {
    let mut cfg = gen_cfg(rng);
    if rng.chance(1, 10) {
        cfg.enabled = false;
    }
    let n = rng.range(1, 10);
    let mut msgs = vec![];
    let serials = [0u64, 1, 2, 300, u32::MAX as u64, u64::MAX];
    for _ in 0..n {
        let be = rng.chance(1, 2);
        let serial = *rng.pick(&serials);
        let sty = rng.below(8) as u8;
        let sty2 = rng.below(8) as u8;
        let ecu = c4(*rng.pick(&["ECU1", "ECU2"]));
        let lc = rng.below(2) as u32;
        let vmm = *rng.pick(&[0x41u8, 0x41, 0x41, 0x41, 0x40, 0x31, 0x43, 0x49, 0x4f, 0x21]);
        let body = match rng.below(9) {
            0 | 1 => Body::Flst {
                be,
                sty,
                serial,
                name: rng.pick(NAMES).as_bytes().to_vec(),
                size: *rng.pick(&[0u64, 1, 2, 3, 4, 6, 100]),
                nr: *rng.pick(&[0u64, 1, 2, 3, 255, 256]),
                bs: *rng.pick(&[0u64, 1, 2, 3, 127, 128]),
            },
            2 | 3 | 4 => Body::Flda { be, sty, sty2, serial, pnr: *rng.pick(&[0u64, 1, 1, 2, 2, 3, 4, 127, 128, 255]), raw_ti: *rng.pick(&[TI_RAWD, TI_STRG, TI_STRG | SCOD_UTF8, TI_UINT | 3]), payload: file_bytes_r(rng, 0, 4) },
            5 | 6 => Body::Flfi { be, sty, serial },
            _ => {
                // explicit, well-formed but arbitrary arguments around the three tags
                let tag: &[u8] = *rng.pick(&[b"FLST" as &[u8], b"FLDA", b"FLFI", b"FLXX"]);
                let cnt = rng.range(0, 9);
                let mut args = vec![];
                for i in 0..cnt {
                    let a = match rng.below(7) {
                        0 => enc_str(tag),
                        1 => (TI_STRG | SCOD_UTF8, { let mut v = tag.to_vec(); v.push(0); v }),
                        2 => (TI_STRG | SCOD_HEX, b"name\0".to_vec()),
                        3 => enc_int(be, rng.below(8) as u8, *rng.pick(&serials)),
                        4 => (TI_RAWD, file_bytes_r(rng, 0, 5)),
                        5 => (TI_BOOL | 1, vec![1]),
                        _ => (TI_STRG, file_bytes_r(rng, 1, 6).into_iter().map(|b| b % 127 + 1).chain(std::iter::once(0)).collect()),
                    };
                    if i == 0 && rng.chance(3, 4) {
                        args.push(enc_str(tag));
                    } else {
                        args.push(a);
                    }
                }
                if rng.chance(3, 4) {
                    args.push(enc_str(tag));
                }
                Body::Args { be, args }
            }
        };
        let noar = if rng.chance(4, 5) { natural_noar(&body) } else { *rng.pick(&[0u8, 3, 5, 8, 255]) };
        let ext = if rng.chance(1, 12) { None } else { Some((c4(*rng.pick(&["APID", "APID", "APIX"])), c4("CTID"), vmm, noar)) };
        msgs.push(Msg { ecu, lc, ext, body });
    }
    CaseIn { cfg, msgs, intents: vec![], isolate: false, probe: None, spre: vec![], sdirs: vec![], sreadonly: vec![], saves: vec![], pipe: None }
}

/// announcements with huge sizes (pre-allocation from announced sizes); run isolated
fn huge_cases() -> Vec<CaseIn> {
    let mut v = vec![];
    let sizes: &[(u64, u64)] = &[
        (1 << 32, 1 << 32),         // product wraps to 0
        (1 << 31, 1 << 31),         // 2^62 bytes
        (u64::MAX, u64::MAX),       // overflow
        (1 << 63, 2),               // overflow
        (1 << 40, 1 << 23),         // 2^63: above isize::MAX
        (3, 1 << 40),               // 3 TiB
        (u64::MAX, 1),              // above isize::MAX
        (1 << 20, 1 << 20),         // 1 TiB
    ];
    for (nr, bs) in sizes {
        for allow_save in [true, false] {
            let mut cfg = std_cfg();
            cfg.allow_save = allow_save;
            let mk = |body: Body, noar: u8| Msg { ecu: c4("ECU1"), lc: 0, ext: Some((c4("APID"), c4("CTID"), 0x41, noar)), body };
            let msgs = vec![
                mk(Body::Flst { be: false, sty: 3, serial: 5, name: b"huge.bin".to_vec(), size: 4, nr: *nr, bs: *bs }, 8),
                mk(Body::Flda { be: false, sty: 3, sty2: 3, serial: 5, pnr: 1, raw_ti: TI_RAWD, payload: vec![1, 2] }, 5),
                mk(Body::Flfi { be: false, sty: 3, serial: 5 }, 3),
            ];
            v.push(CaseIn { cfg, msgs, intents: vec![], isolate: true, probe: None, spre: vec![], sdirs: vec![], sreadonly: vec![], saves: vec![], pipe: None });
        }
    }
    v
}

fn corpus(sink: &mut Sink) {
    // DESIGN Appendix A, C17-1: 3 packages of 2 bytes, FLDA 1,2,2,3
    let p = simple_plan(17, b"test_file.bin", vec![1, 2, 3, 4, 5, 6], 2);
    for f in [Fault::Dup(2, 2), Fault::None, Fault::Dup(1, 1), Fault::Dup(1, 3), Fault::Dup(3, 3)] {
        record(sink, "corpus", CaseIn { cfg: std_cfg(), msgs: transfer_msgs(&p, &f), intents: vec![intent(&p, &f)], isolate: false, probe: None, spre: vec![], sdirs: vec![], sreadonly: vec![], saves: vec![], pipe: None });
    }
    // duplicate in a transfer whose announcement was lost (all packages of equal size)
    {
        let mut m = transfer_msgs(&p, &Fault::Dup(2, 2));
        m.remove(0);
        let mut i = intent(&p, &Fault::Dup(2, 2));
        i.fault = "drop_flst".into();
        record(sink, "corpus", CaseIn { cfg: std_cfg(), msgs: m, intents: vec![i], isolate: false, probe: None, spre: vec![], sdirs: vec![], sreadonly: vec![], saves: vec![], pipe: None });
    }
    // the repository's unit tests: recovered transfer (FLDA with a string payload + FLFI), regular transfer, auto save
    {
        let ext5 = Some((c4("APID"), c4("CTID"), 0x41, 5));
        let ext3 = Some((c4("APID"), c4("CTID"), 0x41, 3));
        let m1 = Msg { ecu: c4("ECU1"), lc: 0, ext: ext5, body: Body::Flda { be: true, sty: 2, sty2: 6, serial: 42, pnr: 1, raw_ti: TI_STRG, payload: b"data".to_vec() } };
        let m2 = Msg { ecu: c4("ECU1"), lc: 0, ext: ext3, body: Body::Flfi { be: true, sty: 2, serial: 42 } };
        for allow in [true, false] {
            let mut cfg = std_cfg();
            cfg.allow_save = allow;
            cfg.keep_flda = !allow;
            record(sink, "corpus", CaseIn { cfg, msgs: vec![m1.clone(), m2.clone()], intents: vec![], isolate: false, probe: None, spre: vec![], sdirs: vec![], sreadonly: vec![], saves: vec![], pipe: None });
        }
        let p1 = Plan { bs: 512, ..simple_plan(17, b"test_file.bin", b"data".to_vec(), 512) };
        record(sink, "corpus", CaseIn { cfg: std_cfg(), msgs: transfer_msgs(&p1, &Fault::None), intents: vec![intent(&p1, &Fault::None)], isolate: false, probe: None, spre: vec![], sdirs: vec![], sreadonly: vec![], saves: vec![], pipe: None });
        let p2 = Plan { name: b"/tmp/test_file.bin".to_vec(), ..p1.clone() };
        let mut cfg = autosave_cfg(false, "**/test_*.*", "");
        cfg.keep_flda = true;
        record(sink, "corpus", CaseIn { cfg: cfg.clone(), msgs: transfer_msgs(&p2, &Fault::None), intents: vec![intent(&p2, &Fault::None)], isolate: false, probe: None, spre: vec![], sdirs: vec![], sreadonly: vec![], saves: vec![], pipe: None });
        // the same with the target already present: nothing may be written
        cfg.pre = vec![(b"test_file.bin".to_vec(), b"old".to_vec())];
        record(sink, "corpus", CaseIn { cfg, msgs: transfer_msgs(&p2, &Fault::None), intents: vec![intent(&p2, &Fault::None)], isolate: false, probe: None, spre: vec![], sdirs: vec![], sreadonly: vec![], saves: vec![], pipe: None });
    }
    // every name of the table through auto save (allowSave on and off), two transfers so that equal base names collide
    for (k, name) in NAMES.iter().enumerate() {
        for allow in [true, false] {
            let pa = Plan { name: name.as_bytes().to_vec(), ..simple_plan(3, b"", vec![10, 11, 12], 2) };
            let pb = Plan { name: name.as_bytes().to_vec(), lc: 2, ..simple_plan(4, b"", vec![20, 21], 2) };
            let mut msgs = transfer_msgs(&pa, &Fault::None);
            msgs.extend(transfer_msgs(&pb, &Fault::None));
            let mut cfg = autosave_cfg(allow, "*", if k % 3 == 0 { "/" } else { "" });
            if k % 4 == 1 {
                cfg.pre = vec![(b"keep.me".to_vec(), vec![7, 7]), (b"pre1.bin".to_vec(), vec![])];
            }
            if k % 5 == 2 {
                cfg.dir_missing = true;
            }
            record(sink, "names", CaseIn { cfg, msgs, intents: vec![intent(&pa, &Fault::None), intent(&pb, &Fault::None)], isolate: false, probe: None, spre: vec![], sdirs: vec![], sreadonly: vec![], saves: vec![], pipe: None });
        }
    }
    // re-announcement of a running transfer's key, announcement after a recovered (MissingStart) transfer
    {
        let p = simple_plan(9, b"re.bin", vec![1, 2, 3, 4], 2);
        let t = transfer_msgs(&p, &Fault::None);
        let msgs = vec![t[0].clone(), t[1].clone(), t[0].clone(), t[1].clone(), t[2].clone(), t[3].clone()];
        record(sink, "corpus", CaseIn { cfg: std_cfg(), msgs, intents: vec![], isolate: false, probe: None, spre: vec![], sdirs: vec![], sreadonly: vec![], saves: vec![], pipe: None });
        let msgs = vec![t[1].clone(), t[0].clone(), t[1].clone(), t[2].clone(), t[3].clone(), t[3].clone()];
        record(sink, "corpus", CaseIn { cfg: std_cfg(), msgs, intents: vec![], isolate: false, probe: None, spre: vec![], sdirs: vec![], sreadonly: vec![], saves: vec![], pipe: None });
        // end marker twice, packages after completion
        let msgs = vec![t[0].clone(), t[1].clone(), t[2].clone(), t[3].clone(), t[3].clone(), t[2].clone(), t[1].clone()];
        record(sink, "corpus", CaseIn { cfg: std_cfg(), msgs, intents: vec![intent(&p, &Fault::None)], isolate: false, probe: None, spre: vec![], sdirs: vec![], sreadonly: vec![], saves: vec![], pipe: None });
        // announced size 0
        let mut t0 = t.clone();
        if let Body::Flst { size, .. } = &mut t0[0].body {
            *size = 0;
        }
        record(sink, "corpus", CaseIn { cfg: std_cfg(), msgs: t0, intents: vec![], isolate: false, probe: None, spre: vec![], sdirs: vec![], sreadonly: vec![], saves: vec![], pipe: None });
        // disabled plugin
        let mut cfg = std_cfg();
        cfg.enabled = false;
        record(sink, "corpus", CaseIn { cfg, msgs: t.clone(), intents: vec![], isolate: false, probe: None, spre: vec![], sdirs: vec![], sreadonly: vec![], saves: vec![], pipe: None });
        // filters that do not match / message without extended header
        let mut cfg = std_cfg();
        cfg.apid = Some(c4("APIX"));
        record(sink, "corpus", CaseIn { cfg, msgs: t.clone(), intents: vec![], isolate: false, probe: None, spre: vec![], sdirs: vec![], sreadonly: vec![], saves: vec![], pipe: None });
        let mut cfg = std_cfg();
        cfg.ctid = Some(c4("CTIX"));
        record(sink, "corpus", CaseIn { cfg, msgs: t.clone(), intents: vec![], isolate: false, probe: None, spre: vec![], sdirs: vec![], sreadonly: vec![], saves: vec![], pipe: None });
    }
    for c in huge_cases() {
        record(sink, "huge", c);
    }
}

/// every single fault at every position for transfers of 1..=5 packages and package sizes 1..=3
fn sweep(sink: &mut Sink, rng: &mut Rng, max_n: usize) {
    let mut serial = 100;
    for n in 1..=max_n {
        for bs in 1..=3u64 {
            for last_short in [false, true] {
                if last_short && bs == 1 {
                    continue;
                }
                let len = (n as u64 - 1) * bs + if last_short { bs - 1 } else { bs };
                for f in all_faults(n) {
                    serial += 1;
                    let p = Plan { be: serial % 5 == 0, ..simple_plan(serial, b"sweep.bin", file_bytes(rng, len as usize), bs) };
                    let mut cfg = std_cfg();
                    cfg.keep_flda = serial % 3 == 0;
                    record(sink, "sweep", CaseIn { cfg, msgs: transfer_msgs(&p, &f), intents: vec![intent(&p, &f)], isolate: false, probe: None, spre: vec![], sdirs: vec![], sreadonly: vec![], saves: vec![], pipe: None });
                }
            }
        }
    }
}

/// all interleavings of two fault-free transfers of two packages each
fn all_interleavings(sink: &mut Sink) {
    let pa = simple_plan(1, b"a.bin", vec![1, 2, 3], 2);
    let pb = Plan { ecu: c4("ECU2"), ..simple_plan(1, b"b.bin", vec![4, 5, 6, 7], 2) };
    let a = transfer_msgs(&pa, &Fault::None);
    let b = transfer_msgs(&pb, &Fault::None);
    let total = a.len() + b.len();
    for mask in 0u32..(1 << total) {
        if mask.count_ones() as usize != a.len() {
            continue;
        }
        let (mut i, mut j) = (0, 0);
        let mut msgs = vec![];
        for k in 0..total {
            if mask & (1 << k) != 0 {
                msgs.push(a[i].clone());
                i += 1;
            } else {
                msgs.push(b[j].clone());
                j += 1;
            }
        }
        record(sink, "interleavings", CaseIn { cfg: std_cfg(), msgs, intents: vec![intent(&pa, &Fault::None), intent(&pb, &Fault::None)], isolate: false, probe: None, spre: vec![], sdirs: vec![], sreadonly: vec![], saves: vec![], pipe: None });
    }
}

// ------------------------------------------------------------------ what is counted vs what is stored: sizes far beyond the small constants
/// file of n packages of bs bytes (the last one `last` bytes), every package its own linear pattern
fn pattern_file(rng: &mut Rng, n: u64, bs: u64, last: u64) -> Vec<u8> {
    let mut v = vec![];
    for j in 0..n {
        let len = if j + 1 == n { last } else { bs };
        v.extend(pat(rng.below(256) as u8, (rng.below(255) + 1) as u8, len as usize));
    }
    v
}
fn sized_cfg(k: u64) -> Cfg {
    let mut cfg = std_cfg();
    cfg.keep_flda = k % 4 == 1;
    match k % 6 {
        2 => cfg = Cfg { keep_flda: cfg.keep_flda, ..autosave_cfg(true, "*", "") },
        4 => cfg = Cfg { keep_flda: cfg.keep_flda, ..autosave_cfg(false, "*", "/") },
        5 => cfg.apid = None,
        _ => {}
    }
    cfg
}
/// transfers whose announcement is lost (equal-sized packages: the only way such a transfer completes) and announced
/// transfers with many / large packages; total sizes sweep across 512, 1024, 4096 and beyond
fn sized_cases(sink: &mut Sink, rng: &mut Rng, tier: &str) {
    let mut k = 0u64;
    let mut serial = 5000u64;
    let mut one = |sink: &mut Sink, rng: &mut Rng, n: u64, bs: u64, last: u64, f: Fault, with_contrast: bool, k: u64| {
        serial += 2;
        let file = pattern_file(rng, n, bs, last);
        let name: &[u8] = if k % 2 == 0 { b"sized.bin" } else { b"d/e/sized.bin" };
        let p = Plan { be: k % 3 == 0, raw_ti: if k % 7 == 3 { TI_STRG } else { TI_RAWD }, ..simple_plan(serial, name, file.clone(), bs) };
        let cfg = sized_cfg(k);
        let mut seqs = vec![transfer_msgs(&p, &f)];
        let mut intents = vec![intent(&p, &f)];
        let mut plans = vec![p.clone()];
        if with_contrast {
            // the same content as a regular announced transfer with another key, interleaved
            let q = Plan { serial: serial + 1, ecu: c4("ECU2"), name: b"contrast.bin".to_vec(), ..p.clone() };
            seqs.push(transfer_msgs(&q, &Fault::None));
            intents.push(intent(&q, &Fault::None));
            plans.push(q);
        }
        let msgs = if seqs.len() == 1 && k % 2 == 0 { seqs.concat() } else { interleave(rng, seqs, &plans, k % 3, cfg.apid.is_some()) };
        record(sink, "sized", CaseIn { cfg, msgs, intents, isolate: false, probe: None, spre: vec![], sdirs: vec![], sreadonly: vec![], saves: vec![], pipe: None });
    };
    let quick = tier == "quick";
    // lost announcement: n equal packages of bs bytes
    let bss: &[u64] = &[1, 2, 7, 64, 127, 128, 129, 170, 171, 255, 256, 257, 511, 512, 513, 1023, 1024, 1025, 2048, 4096, 4097];
    let ns: &[u64] = if quick { &[1, 2, 3, 4, 8] } else { &[1, 2, 3, 4, 5, 8, 16] };
    for bs in bss {
        for n in ns {
            if n * bs > 16500 {
                continue;
            }
            k += 1;
            one(sink, rng, *n, *bs, *bs, Fault::DropFlst, k % 5 == 0, k);
        }
    }
    // many small packages crossing the same totals
    for (n, bs) in [(64u64, 8u64), (40, 13), (20, 26), (64, 16), (40, 26), (33, 31), (17, 61), (48, 86)] {
        k += 1;
        one(sink, rng, n, bs, bs, Fault::DropFlst, k % 2 == 0, k);
    }
    // announced transfers: many packages, package sizes up to a few KiB, last full or shorter, with and without a fault
    let shapes: &[(u64, u64)] = &[(2, 300), (3, 256), (5, 512), (8, 100), (8, 1000), (17, 64), (17, 1024), (40, 128), (40, 513), (4, 4096), (6, 2048), (3, 4097), (12, 1025), (9, 511)];
    for (n, bs) in shapes {
        for variant in 0..(if quick { 2 } else { 4 }) {
            k += 1;
            let last = if variant % 2 == 0 { *bs } else { rng.range(1, *bs - 1) };
            let f = match variant {
                0 | 1 => Fault::None,
                _ => {
                    let fs: Vec<Fault> = all_faults(*n as usize).into_iter().filter(|f| !matches!(f, Fault::Resize(_, true))).collect();
                    rng.pick(&fs).clone()
                }
            };
            one(sink, rng, *n, *bs, last, f, k % 4 == 0, k);
        }
    }
    // random mixes
    let n_rand = match tier {
        "quick" => 40,
        "search" => 150,
        _ => 400,
    };
    for _ in 0..n_rand {
        k += 1;
        let n = rng.range(1, 12);
        let bs = *rng.pick(&[1u64, 3, 50, 100, 128, 200, 256, 300, 500, 512, 600, 1000, 1500]);
        let lost = rng.chance(1, 2);
        let last = if lost || rng.chance(1, 2) { bs } else { rng.range(1, bs) };
        let f = if lost { Fault::DropFlst } else { gen_fault(rng, n as usize) };
        let f = if matches!(f, Fault::Resize(_, true)) { Fault::None } else { f };
        let contrast = rng.chance(1, 2);
        one(sink, rng, n, bs, last, f, contrast, k);
    }
}

// ------------------------------------------------------------------ the file system the save paths run in
fn junk(len: usize, salt: u8) -> Vec<u8> {
    (0..len).map(|i| 0xA0u8.wrapping_add(salt).wrapping_add((i * 7) as u8)).collect()
}
/// n-th transfer of a save plan: a fault-free (or, with `broken`, incomplete) transfer of `size` bytes
fn plan_of_size(rng: &mut Rng, serial: u64, size: u64, broken: bool) -> (Plan, Fault) {
    let bs = if size > 64 { *rng.pick(&[64u64, 100, 256, 300, 512]) } else { rng.range(1, size.max(1)) };
    let n = (size + bs - 1) / bs;
    let last = size - (n - 1) * bs;
    let file = pattern_file(rng, n, bs, last);
    let p = Plan { ecu: c4(if serial % 2 == 0 { "ECU1" } else { "ECU2" }), ..simple_plan(serial, format!("dir/t{}.bin", serial).as_bytes(), file, bs) };
    let f = if broken { Fault::Drop(n as usize) } else { Fault::None };
    (p, f)
}
#[derive(Clone, Copy, Debug, PartialEq)]
enum Prior {
    Absent,
    Empty,
    Shorter,
    SameLen,
    Longer,
    MuchLonger,
    Dir,
    MissingDir,
    ReadOnly,
}
const PRIORS: &[Prior] = &[Prior::Absent, Prior::Empty, Prior::Shorter, Prior::SameLen, Prior::Longer, Prior::MuchLonger, Prior::Dir, Prior::MissingDir, Prior::ReadOnly];
/// prepare target number `k` with the prior state relative to a content of `size` bytes; returns the saveAs name
fn prepare(c: &mut CaseIn, k: usize, prior: Prior, size: u64) -> Vec<u8> {
    let name = format!("t{}_{:?}.bin", k, prior).to_lowercase().into_bytes();
    match prior {
        Prior::Absent => {}
        Prior::Empty => c.spre.push((name.clone(), vec![])),
        Prior::Shorter => c.spre.push((name.clone(), junk((size / 2) as usize, k as u8))),
        Prior::SameLen => c.spre.push((name.clone(), junk(size as usize, k as u8))),
        Prior::Longer => c.spre.push((name.clone(), junk(size as usize + 1, k as u8))),
        Prior::MuchLonger => c.spre.push((name.clone(), junk(size as usize * 2 + 37, k as u8))),
        Prior::Dir => c.sdirs.push(name.clone()),
        Prior::MissingDir => return format!("nodir{}/x.bin", k).into_bytes(),
        Prior::ReadOnly => {
            c.spre.push((name.clone(), junk(size as usize + 3, k as u8)));
            c.sreadonly.push(name.clone());
        }
    }
    name
}
fn save_cases(sink: &mut Sink, rng: &mut Rng, tier: &str) {
    let sizes: &[u64] = &[1, 2, 7, 20, 47, 48, 49, 100, 700, 1500];
    let mut serial = 9000u64;
    // one transfer, one save, every prior state of the target x every size
    for size in sizes {
        for prior in PRIORS {
            serial += 2;
            let (p, f) = plan_of_size(rng, serial, *size, false);
            let mut c = CaseIn { cfg: std_cfg(), msgs: transfer_msgs(&p, &f), intents: vec![intent(&p, &f)], isolate: false, probe: None, spre: vec![], sdirs: vec![], sreadonly: vec![], saves: vec![], pipe: None };
            let t = prepare(&mut c, 0, *prior, *size);
            c.saves.push((0, t.clone()));
            if serial % 4 == 0 {
                c.saves.push((0, t)); // the same transfer saved twice
            }
            record(sink, "save_prior", c);
        }
    }
    // two transfers of different (or equal) sizes saved in a row to the same name, both orders, fresh or pre-existing target
    let pairs: &[(u64, u64)] = &[(1500, 700), (700, 1500), (49, 20), (20, 49), (8, 8), (100, 1), (3, 300), (48, 47)];
    for (sa, sb) in pairs {
        for (v, prior) in [Prior::Absent, Prior::MuchLonger, Prior::Shorter].iter().enumerate() {
            serial += 2;
            let (pa, fa) = plan_of_size(rng, serial, *sa, false);
            let (pb, fb) = plan_of_size(rng, serial + 1, *sb, false);
            let seqs = vec![transfer_msgs(&pa, &fa), transfer_msgs(&pb, &fb)];
            let plans = vec![pa.clone(), pb.clone()];
            let msgs = interleave(rng, seqs, &plans, 1, true);
            let mut c = CaseIn { cfg: std_cfg(), msgs, intents: vec![intent(&pa, &fa), intent(&pb, &fb)], isolate: false, probe: None, spre: vec![], sdirs: vec![], sreadonly: vec![], saves: vec![], pipe: None };
            let t = prepare(&mut c, 0, *prior, (*sa).max(*sb));
            // transfer numbers follow the order of the announcements in the log
            let first_is_a = c.msgs.iter().find_map(|m| if let Body::Flst { serial: s, .. } = &m.body { Some(*s == pa.serial) } else { None }).unwrap_or(true);
            let (ia, ib) = if first_is_a { (0u64, 1u64) } else { (1, 0) };
            c.saves = match v {
                0 => vec![(ia, t.clone()), (ib, t.clone())],
                1 => vec![(ib, t.clone()), (ia, t.clone()), (ib, t.clone())],
                _ => vec![(ia, t.clone()), (ia, t.clone()), (ib, t.clone()), (ia, t.clone())],
            };
            record(sink, "save_sequence", c);
        }
    }
    // random plans: 1..3 transfers (one may be incomplete, allowSave may be off), several targets, several commands
    let n_rand = match tier {
        "quick" => 60,
        "search" => 300,
        _ => 800,
    };
    for _ in 0..n_rand {
        let k = rng.range(1, 3);
        let mut seqs = vec![];
        let mut plans = vec![];
        let mut intents = vec![];
        let mut maxsize = 1;
        for j in 0..k {
            serial += 1;
            let size = *rng.pick(&[1u64, 3, 8, 20, 48, 49, 64, 130, 700, 1100]);
            maxsize = maxsize.max(size);
            let broken = j > 0 && rng.chance(1, 5);
            let (p, f) = plan_of_size(rng, serial, size, broken);
            seqs.push(transfer_msgs(&p, &f));
            intents.push(intent(&p, &f));
            plans.push(p);
        }
        let mut cfg = std_cfg();
        if rng.chance(1, 8) {
            cfg.allow_save = false;
        }
        cfg.keep_flda = rng.chance(1, 3);
        let noise = rng.below(2);
        let msgs = interleave(rng, seqs, &plans, noise, true);
        let mut c = CaseIn { cfg, msgs, intents, isolate: false, probe: None, spre: vec![], sdirs: vec![], sreadonly: vec![], saves: vec![], pipe: None };
        let nt = rng.range(1, 3) as usize;
        let mut targets = vec![];
        for t in 0..nt {
            let prior = *rng.pick(PRIORS);
            let rel = *rng.pick(&[1u64, 3, 20, 49, 130, 700, maxsize]);
            targets.push(prepare(&mut c, t, prior, rel));
        }
        for _ in 0..rng.range(1, 6) {
            let idx = if rng.chance(1, 10) { k + rng.below(2) } else { rng.below(k) };
            c.saves.push((idx, rng.pick(&targets).clone()));
        }
        record(sink, "save_random", c);
    }
    // auto-save with a prior state of its target: absent / empty / shorter / same length / longer / a directory / missing directory
    for size in [3u64, 60, 700] {
        for prior in [Prior::Absent, Prior::Empty, Prior::Shorter, Prior::SameLen, Prior::Longer, Prior::MuchLonger, Prior::Dir, Prior::MissingDir] {
            for allow in [true, false] {
                serial += 2;
                let (p, f) = plan_of_size(rng, serial, size, false);
                let (q, fq) = plan_of_size(rng, serial + 1, size + 5, false);
                let q = Plan { name: p.name.clone(), ..q }; // a second transfer with the same base name: must not overwrite the first one's file either
                let base = format!("t{}.bin", serial).into_bytes();
                let mut cfg = autosave_cfg(allow, "*", if serial % 3 == 0 { "/" } else { "" });
                match prior {
                    Prior::Absent => {}
                    Prior::Empty => cfg.pre.push((base.clone(), vec![])),
                    Prior::Shorter => cfg.pre.push((base.clone(), junk((size / 2) as usize, 1))),
                    Prior::SameLen => cfg.pre.push((base.clone(), junk(size as usize, 2))),
                    Prior::Longer => cfg.pre.push((base.clone(), junk(size as usize + 1, 3))),
                    Prior::MuchLonger => cfg.pre.push((base.clone(), junk(size as usize * 2 + 9, 4))),
                    Prior::Dir => cfg.pre_dirs.push(base.clone()),
                    _ => cfg.dir_missing = true,
                }
                let mut msgs = transfer_msgs(&p, &f);
                msgs.extend(transfer_msgs(&q, &fq));
                let mut c = CaseIn { cfg, msgs, intents: vec![intent(&p, &f), intent(&q, &fq)], isolate: false, probe: None, spre: vec![], sdirs: vec![], sreadonly: vec![], saves: vec![], pipe: None };
                if allow {
                    // and a manual save of both on top of each other
                    c.saves = vec![(1, b"manual.bin".to_vec()), (0, b"manual.bin".to_vec())];
                }
                record(sink, "autosave_prior", c);
            }
        }
    }
}

// ------------------------------------------------------------------ several transfers over time under one key, and colliding keys
/// One lane = one key (ecu, lifecycle, serial) with the transfers sent under it one after the other (a later announcement
/// re-uses the key: the same file sent again, a new file under a recycled serial, a retry after a broken transfer).
/// Lanes are interleaved with each other (their keys differ, possibly only in the ECU or only in the lifecycle).
/// `saves`: also issue manual save commands for every expected transfer number.
fn rekey_case(rng: &mut Rng, cfg: Cfg, lanes: Vec<Vec<(Plan, Fault)>>, noise: u64, saves: bool) -> CaseIn {
    let mut seqs = vec![];
    let mut intents = vec![];
    let mut plans = vec![];
    for lane in &lanes {
        let mut seq = vec![];
        for (p, f) in lane {
            seq.extend(transfer_msgs(p, f));
            intents.push(intent(p, f));
        }
        plans.push(lane[0].0.clone());
        seqs.push(seq);
    }
    let msgs = if seqs.len() == 1 && noise == 0 { seqs.concat() } else { interleave(rng, seqs, &plans, noise, cfg.apid.is_some()) };
    let mut c = CaseIn { cfg, msgs, intents, isolate: false, probe: None, spre: vec![], sdirs: vec![], sreadonly: vec![], saves: vec![], pipe: None };
    if saves {
        let n = c.intents.len() as u64;
        // every transfer number to its own file, then all of them over one file (a shorter one after a longer one included)
        for i in 0..n.min(4) {
            c.saves.push((i, format!("own{}.bin", i).into_bytes()));
        }
        c.spre.push((b"one.bin".to_vec(), junk(9, 3)));
        for i in (0..n.min(4)).rev() {
            c.saves.push((i, b"one.bin".to_vec()));
        }
    }
    c
}
fn sty_for(rng: &mut Rng, serial: u64) -> u8 {
    if serial < 128 {
        *rng.pick(&[1u8, 2, 3, 5, 6, 7])
    } else if serial < (1 << 31) {
        *rng.pick(&[2u8, 3, 6, 7])
    } else if serial < (1 << 63) {
        *rng.pick(&[3u8, 3, 7])
    } else {
        *rng.pick(&[3u8, 3, 3]) // only an unsigned 64-bit argument holds it
    }
}
/// a file of n packages of bs bytes, the last one `last` bytes; short files random, longer ones pattern-wise (compact on the Coq side)
fn rekey_file(rng: &mut Rng, n: u64, bs: u64, last: u64) -> Vec<u8> {
    if bs > 24 {
        pattern_file(rng, n, bs, last)
    } else {
        file_bytes(rng, ((n - 1) * bs + last) as usize)
    }
}
/// the next transfer under the key of `prev`: how it relates to the previous one
/// 0 same size and segmentation, other content; 1 identical file; 2 one package more; 3 fewer bytes (last package shorter or one
/// package less); 4 same size, other package size; 5 unrelated size
fn rekey_next(rng: &mut Rng, prev: &Plan, variant: u64, same_name: bool, k: usize) -> Plan {
    let len = prev.file.len() as u64;
    let bs = prev.bs;
    let n = (len + bs - 1) / bs;
    let last = len - (n - 1) * bs;
    let (file, nbs) = match variant {
        0 => {
            let mut f = rekey_file(rng, n, bs, last);
            if f == prev.file {
                f[0] = f[0].wrapping_add(1);
            }
            (f, bs)
        }
        1 => (prev.file.clone(), bs),
        2 => {
            let l = rng.range(1, bs);
            (rekey_file(rng, n + 1, bs, l), bs)
        }
        3 => {
            if len > 1 {
                let mut f = rekey_file(rng, n, bs, last);
                f.truncate((len - 1 - rng.below((len - 1).min(bs))) as usize);
                (f, bs)
            } else {
                (rekey_file(rng, 1, bs, 1), bs)
            }
        }
        4 => {
            let nb = if bs > 1 && rng.chance(1, 2) { bs - 1 } else { bs + 1 };
            let n2 = (len + nb - 1) / nb;
            (rekey_file(rng, n2, nb, len - (n2 - 1) * nb), nb)
        }
        _ => {
            let nb = rng.range(1, 6);
            let n2 = rng.range(1, 5);
            let l = rng.range(1, nb);
            (rekey_file(rng, n2, nb, l), nb)
        }
    };
    let name = if same_name { prev.name.clone() } else { format!("again{}/v{}.bin", k, k).into_bytes() };
    Plan { name, file, bs: nbs, be: rng.chance(1, 3), sty: sty_for(rng, prev.serial), sty2: *rng.pick(&[6u8, 6, 2, 0, 5]), raw_ti: if rng.chance(1, 6) { TI_STRG } else { TI_RAWD }, ..prev.clone() }
}
/// faults of a transfer that is followed by another one under the same key (or is the last one)
fn rekey_faults(n: usize, first: bool) -> Vec<Fault> {
    let mut v = vec![Fault::None, Fault::DropFlfi, Fault::Dup(1, n), Fault::Drop(n), Fault::Drop(1), Fault::Trunc(0, false), Fault::Trunc(n - 1, true), Fault::Resize(n, false), Fault::Resize(1, true)];
    if n >= 2 {
        v.extend([Fault::Swap(1), Fault::Trunc(1, false), Fault::Trunc(n - 1, false), Fault::Dup(n - 1, n - 1), Fault::Drop(n - 1)]);
    }
    if n >= 3 {
        v.extend([Fault::Drop(2), Fault::Trunc(n - 2, true), Fault::Swap(n - 1)]);
    }
    if first {
        v.push(Fault::DropFlst); // only the first transfer of a key: a later one without announcement cannot be told from late packages of the earlier one
    }
    v
}
fn rekey_cfg(k: u64) -> Cfg {
    match k % 5 {
        0 | 1 => Cfg { keep_flda: k % 2 == 0, ..std_cfg() },
        2 => autosave_cfg(true, "*", ""),
        3 => autosave_cfg(false, "*", "/"),
        _ => Cfg { apid: None, ctid: None, ..autosave_cfg(k % 2 == 0, "**/*.bin", "") },
    }
}
fn rekey_cases(sink: &mut Sink, rng: &mut Rng, tier: &str) {
    let quick = tier == "quick";
    let mut k = 0u64;
    // (a) two transfers under one key: every outcome of the first one x every relation of the second one to it
    let mut j = 0u64;
    for n in 1..=4u64 {
        for f in rekey_faults(n as usize, true) {
            j += 1;
            for v in 0..6u64 {
                k += 1;
                // quick: the "same size, other content" relation always, two of the other five in turn
                if quick && !(v == 0 || v == 1 + j % 5 || v == 1 + (j + 2) % 5) {
                    continue;
                }
                let bs = [1u64, 2, 4, 3, 7, 40][(k % 6) as usize];
                let last = if k % 3 == 0 { bs } else { 1 + (k % bs) };
                let serial = [17u64, 0, 1, 255, 65535, 65536, (1 << 32) + 5][(k % 7) as usize];
                let p1 = Plan { sty: sty_for(rng, serial), be: k % 4 == 0, ..simple_plan(serial, if k % 3 == 1 { b"dir/app.log" } else { b"app.bin" }, rekey_file(rng, n, bs, last), bs) };
                let p2 = rekey_next(rng, &p1, v, k % 4 != 3, 2);
                let n2 = chunks(&p2).len();
                let f2 = match k % 9 {
                    0 => Fault::Dup(1, n2),
                    1 => Fault::DropFlfi,
                    2 => Fault::Drop(n2),
                    _ => Fault::None,
                };
                let mut lanes = vec![vec![(p1.clone(), f.clone()), (p2.clone(), f2.clone())]];
                if f2 == Fault::Drop(n2) {
                    // third attempt, intact
                    let p3 = rekey_next(rng, &p2, k % 2, true, 3);
                    lanes[0].push((p3, Fault::None));
                }
                if k % 4 == 1 {
                    // a bystander with the same serial on another ECU / in another lifecycle, sending the first file's bytes
                    let q = if k % 8 == 1 { Plan { ecu: c4("ECU2"), name: b"other_ecu.bin".to_vec(), ..p1.clone() } } else { Plan { lc: p1.lc + 1, name: b"other_lc.bin".to_vec(), ..p1.clone() } };
                    lanes.push(vec![(q, Fault::None)]);
                }
                let c = rekey_case(rng, rekey_cfg(k), lanes, k % 3, k % 5 < 2 && k % 2 == 0);
                record(sink, "rekey", c);
            }
        }
    }
    // (a') histories outside the property's fault model, for the correspondence only (no intents): a transfer that lost its
    // tail, then the same key re-sent WITHOUT announcement (second loss).  The plugin cannot tell the re-sent packages from
    // late duplicates, ignores them up to the gap and fills the gap: documented quirk (docs/C17.md), the model must agree.
    for (n, bs, with_flfi, allow) in [(4u64, 4u64, true, true), (4, 4, false, true), (3, 1, true, false), (2, 7, false, true)] {
        let p1 = simple_plan(17, b"app.log", rekey_file(rng, n, bs, (bs + 1) / 2), bs);
        let p2 = rekey_next(rng, &p1, 0, true, 2);
        let mut msgs = transfer_msgs(&p1, &Fault::Trunc(n as usize - 1, with_flfi));
        msgs.extend(transfer_msgs(&p2, &Fault::DropFlst));
        let cfg = if allow { std_cfg() } else { autosave_cfg(false, "*", "") };
        record(sink, "rekey_quirk", CaseIn { cfg, msgs, intents: vec![], isolate: false, probe: None, spre: vec![], sdirs: vec![], sreadonly: vec![], saves: vec![], pipe: None });
    }
    // (b) the same serial on several ECUs and in several lifecycles at once, each key used one or more times
    let n_coll = if quick { 24 } else { 120 };
    for _ in 0..n_coll {
        k += 1;
        let serial = *rng.pick(&[0u64, 1, 17, 255, 256, 65535, 65536, (1 << 32) + 5, u64::MAX - 1]);
        let keys = [(c4("ECU1"), 1u32), (c4("ECU2"), 1), (c4("ECU1"), 2), (c4("ECU2"), 2), (c4("ECU1"), 0)];
        let nl = rng.range(2, 4) as usize;
        let mut lanes = vec![];
        for (li, (ecu, lc)) in keys.iter().take(nl).enumerate() {
            let n = rng.range(1, 4);
            let bs = rng.range(1, 5);
            let last = rng.range(1, bs);
            // all lanes announce the same name, size and segmentation (only the content tells them apart) in two of three cases
            let (n, bs, last) = if k % 3 != 0 { (3, 2, 1 + (k % 2)) } else { (n, bs, last) };
            let p = Plan { ecu: *ecu, lc: *lc, sty: sty_for(rng, serial), be: rng.chance(1, 3), ..simple_plan(serial, if k % 2 == 0 { b"same.bin".to_vec() } else { format!("lane{}.bin", li).into_bytes() }.as_slice(), rekey_file(rng, n, bs, last), bs) };
            let gens = if li == 0 || rng.chance(1, 2) { rng.range(2, 3) } else { 1 };
            let mut lane = vec![];
            let mut prev = p.clone();
            for g in 0..gens {
                let (v, sn) = (*rng.pick(&[0u64, 0, 0, 1, 2, 3, 4, 5]), rng.chance(2, 3));
                let pl = if g == 0 { p.clone() } else { rekey_next(rng, &prev, v, sn, g as usize + 1) };
                let nn = chunks(&pl).len();
                let fs = rekey_faults(nn, g == 0);
                let f = if rng.chance(1, 2) { Fault::None } else { rng.pick(&fs).clone() };
                prev = pl.clone();
                lane.push((pl, f));
            }
            lanes.push(lane);
        }
        let noise = rng.below(3);
        let (ck, sv) = (rng.below(10), rng.chance(1, 4));
        let c = rekey_case(rng, rekey_cfg(ck), lanes, noise, sv);
        record(sink, "rekey_collide", c);
    }
    // (c) random histories: 1..3 keys, up to four transfers per key, larger packages, random configuration
    let n_rand = match tier {
        "quick" => 90,
        "search" => 400,
        _ => 1500,
    };
    for _ in 0..n_rand {
        k += 1;
        let nl = rng.range(1, 3) as usize;
        let base = *rng.pick(&[3u64, 17, 200, 65535, 70000]);
        let mut lanes = vec![];
        for li in 0..nl {
            let (ecu, lc, serial) = match li {
                0 => (c4("ECU1"), 1, base),
                1 => *rng.pick(&[(c4("ECU2"), 1, base), (c4("ECU1"), 0, base), (c4("ECU1"), 1, base + 1)]),
                _ => (c4("ABCD"), 2, base),
            };
            let bs = *rng.pick(&[1u64, 2, 3, 4, 5, 8, 8, 30, 100, 300]);
            let n = rng.range(1, 5);
            let last = if rng.chance(1, 2) { bs } else { rng.range(1, bs) };
            let name = if rng.chance(1, 2) { format!("r{}.bin", li).into_bytes() } else { rng.pick(NAMES).as_bytes().to_vec() };
            let p = Plan { ecu, lc, sty: sty_for(rng, serial), be: rng.chance(1, 3), ..simple_plan(serial, &name, rekey_file(rng, n, bs, last), bs) };
            let gens = if li == 0 { rng.range(2, 4) } else { rng.range(1, 3) };
            let mut lane = vec![];
            let mut prev = p.clone();
            for g in 0..gens {
                let (v, sn) = (*rng.pick(&[0u64, 0, 0, 1, 1, 2, 3, 4, 5]), rng.chance(1, 2));
                let pl = if g == 0 { p.clone() } else { rekey_next(rng, &prev, v, sn, g as usize + 1) };
                let nn = chunks(&pl).len();
                let fs = rekey_faults(nn, g == 0);
                let f = if rng.chance(2, 5) { Fault::None } else { rng.pick(&fs).clone() };
                prev = pl.clone();
                lane.push((pl, f));
            }
            lanes.push(lane);
        }
        let cfg = gen_cfg(rng);
        let noise = rng.below(4);
        let saves = cfg.allow_save && rng.chance(1, 3);
        let c = rekey_case(rng, cfg, lanes, noise, saves);
        record(sink, "rekey_random", c);
    }
}

// ------------------------------------------------------------------ the plugin behind the real lifecycle stage
// The plugin keys a transfer by (ecu, msg.lifecycle, serial) and relies on the stage that runs directly before it (in
// `adlt convert` and in the remote server) to forward every message with its FINAL lifecycle id.  These families send
// generated traces through the real `parse_lifecycles_buffered_from_stream` and then through the real plugin
// (`plugins_process_msgs`), with the transfers placed inside lifecycle histories: boots of an ECU (reboots in between,
// also in the middle of a transfer), lifecycles confirmed by their time span while a transfer runs, and bursts of stale
// messages (buffered on the ECU longer than its lifecycle is old) that open an interim lifecycle which the next less
// delayed message merges into its predecessor -- the predecessor being already published or still buffered.
// Ground truth = the history: one lifecycle per boot.  Expectation per transfer from the boots of its messages.
const SEC: u64 = 1_000_000;
const RHO: u64 = 1_000_000_000_000;
#[derive(Clone, Copy, Debug, PartialEq)]
enum BootKind {
    /// a few seconds of messages with small transport delays
    Plain,
    /// timestamps many seconds apart: the lifecycle is confirmed by its span (> 60 s) while the boot goes on
    Long,
    /// head (confirmed by its span, published) - stale burst (interim lifecycle) - trigger (merge into the published one) - tail
    MergePub,
    /// the same with a head shorter than 60 s: the predecessor is still buffered when the merge happens
    MergeBuf,
}
#[derive(Clone, Debug)]
struct Slot {
    rt: u64,
    ts: u64,
    boot: u32,
    /// 0 ordinary, 1 stale burst, 2 merge trigger
    role: u8,
}
fn r100(x: u64) -> u64 {
    x / 100 * 100
}
/// the reception times / timestamps of one boot of `m` messages whose clock started at `s` (absolute, us).
/// Merge kinds: slot `trig` (>= 3, < m) is the message that pulls the interim lifecycle's start below the predecessor's end.
fn boot_slots(rng: &mut Rng, s: u64, kind: BootKind, m: usize, trig: usize, boot: u32) -> Vec<Slot> {
    let mut v: Vec<Slot> = vec![];
    match kind {
        BootKind::Plain | BootKind::Long => {
            let mut ts = if m == 1 { r100(rng.range(2_500_000, 4_000_000)) } else { r100(rng.range(500_000, 1_500_000)) };
            let mut delay = rng.below(200_000);
            for k in 0..m {
                if k > 0 {
                    let inc = if kind == BootKind::Long { r100(rng.range(3 * SEC, 25 * SEC)) } else { r100(rng.range(5_000, 2 * SEC)) };
                    ts += inc;
                    // reception times do not go backwards: the delay shrinks by at most the step of the timestamp
                    let nd = rng.below(200_000);
                    delay = if nd + inc >= delay { nd } else { delay - inc };
                }
                if k + 1 == m && ts < 2_500_000 {
                    ts = r100(2_500_000 + rng.below(SEC));
                }
                v.push(Slot { rt: s + ts + delay, ts, boot, role: 0 });
            }
        }
        BootKind::MergePub | BootKind::MergeBuf => {
            assert!(trig >= 3 && trig < m);
            let h = rng.range(2, trig as u64 - 1) as usize;
            let b = trig - h;
            let ts0 = r100(rng.range(500_000, 1_500_000));
            let max1 = ts0 + if kind == BootKind::MergePub { r100(rng.range(61 * SEC, 68 * SEC)) } else { r100(rng.range(11 * SEC, 40 * SEC)) };
            // head: ts0, h-2 points in between (at least 300 ms apart), max1
            let mut head = vec![ts0];
            let mut mids: Vec<u64> = (0..h - 2).map(|_| r100(rng.range(ts0 + SEC, max1 - SEC))).collect();
            mids.sort();
            for x in mids {
                let last = *head.last().unwrap();
                head.push(x.max(last + 300_000).min(max1 - 300_000 * (h as u64)));
            }
            head.sort();
            head.push(max1);
            let mut d_min = u64::MAX;
            let mut last_rt = 0;
            for ts in &head {
                let d = rng.below(200_000);
                let rt = (s + ts + d).max(last_rt);
                d_min = d_min.min(rt - s - ts);
                last_rt = rt;
                v.push(Slot { rt, ts: *ts, boot, role: 0 });
            }
            // stale burst: buffering delay larger than the lifecycle is old -> calculated start after the end of the head's lifecycle
            let extra = rng.range(300_000, 3 * SEC);
            let big_d = max1 + d_min + extra;
            let mut ts_b = max1 - r100(rng.range(100_000, SEC));
            for i in 0..b {
                if i > 0 {
                    ts_b += r100(rng.range(1_000, 50_000));
                }
                v.push(Slot { rt: s + ts_b + big_d, ts: ts_b, boot, role: 1 });
            }
            // trigger: delay smaller by x; its calculated start lies >= 2.5 s before the end of the head's lifecycle (no
            // "slightly overlapping") and moves the interim lifecycle's start by less than 60 s (else it is ignored)
            let x_lo = extra + 2_600_000;
            let x_hi = (55 * SEC).min(big_d);
            let x = r100(rng.range(x_lo + 100, x_hi));
            let ts_t = ts_b + x + r100(rng.below(5_000));
            let d_t = big_d - x;
            v.push(Slot { rt: s + ts_t + d_t, ts: ts_t, boot, role: 2 });
            let mut ts = ts_t;
            for _ in trig + 1..m {
                ts += r100(rng.range(5_000, 1_200_000));
                v.push(Slot { rt: s + ts + d_t, ts, boot, role: 0 });
            }
        }
    }
    v
}
#[derive(Clone, Debug)]
struct BootPlan {
    kind: BootKind,
    len: usize,
    trig: usize,
}
/// the history of one ECU: boots one after the other, each starting after everything of the previous one was received
fn ecu_slots(rng: &mut Rng, s0: u64, boots: &[BootPlan]) -> Vec<Slot> {
    let mut s = s0;
    let mut out = vec![];
    for (b, bp) in boots.iter().enumerate() {
        let v = boot_slots(rng, s, bp.kind, bp.len, bp.trig, b as u32 + 1);
        let last_rt = v.last().unwrap().rt;
        let max_ts = v.iter().map(|x| x.ts).max().unwrap();
        let off = match rng.below(4) {
            0 => rng.range(SEC, 2 * SEC),
            1 => rng.range(10 * SEC, 30 * SEC),
            _ => rng.range(SEC, 12 * SEC),
        };
        s = last_rt.max(s + max_ts) + off;
        out.extend(v);
    }
    out
}
/// partition of `m` content positions into boots.  `wish` = (position, kind): the message at this position is the merge
/// trigger of a boot of this kind (position >= 3).  `cut_ok(c)`: a new boot may start before position c.
fn plan_boots(rng: &mut Rng, m: usize, wish: Option<(usize, BootKind)>, cut_ok: &dyn Fn(usize) -> bool, reboots: bool) -> Vec<BootPlan> {
    let mut cuts: Vec<usize> = vec![];
    let mut wished: Option<(usize, usize, BootKind)> = None; // start of the wished boot, trigger offset inside
    if let Some((w, kind)) = wish {
        assert!(w >= 3 && w < m);
        let a_c: Vec<usize> = (1..=w - 3).filter(|c| cut_ok(*c)).collect();
        let a = if reboots && !a_c.is_empty() && rng.chance(1, 2) { *rng.pick(&a_c) } else { 0 };
        let b_c: Vec<usize> = (w + 1..m).filter(|c| cut_ok(*c)).collect();
        let b = if reboots && !b_c.is_empty() && rng.chance(1, 2) { *rng.pick(&b_c) } else { m };
        if a > 0 {
            cuts.push(a);
            let c2: Vec<usize> = (1..a).filter(|c| cut_ok(*c)).collect();
            if !c2.is_empty() && rng.chance(1, 3) {
                cuts.push(*rng.pick(&c2));
            }
        }
        if b < m {
            cuts.push(b);
            let c2: Vec<usize> = (b + 1..m).filter(|c| cut_ok(*c)).collect();
            if !c2.is_empty() && rng.chance(1, 3) {
                cuts.push(*rng.pick(&c2));
            }
        }
        wished = Some((a, w - a, kind));
    } else if reboots {
        let cands: Vec<usize> = (1..m).filter(|c| cut_ok(*c)).collect();
        let want = rng.below(3) as usize;
        for _ in 0..want {
            if !cands.is_empty() {
                cuts.push(*rng.pick(&cands));
            }
        }
    }
    cuts.sort();
    cuts.dedup();
    let mut bounds = vec![0];
    bounds.extend(cuts);
    bounds.push(m);
    let mut out = vec![];
    for w in bounds.windows(2) {
        let len = w[1] - w[0];
        match wished {
            Some((a, t, kind)) if a == w[0] => out.push(BootPlan { kind, len, trig: t }),
            _ => {
                if len >= 4 && rng.chance(1, 2) {
                    let kind = if rng.chance(1, 2) { BootKind::MergePub } else { BootKind::MergeBuf };
                    out.push(BootPlan { kind, len, trig: rng.range(3, len as u64 - 1) as usize });
                } else {
                    out.push(BootPlan { kind: if rng.chance(1, 3) { BootKind::Long } else { BootKind::Plain }, len, trig: 0 });
                }
            }
        }
    }
    out
}
/// messages of the same ECU the plugin must ignore (unrelated log lines and near misses that reuse a running serial)
fn pipe_filler(rng: &mut Rng, ecu: u32, plans: &[Plan]) -> Msg {
    let serial = if plans.is_empty() { 7 } else { rng.pick(plans).serial };
    let flda = Body::Flda { be: rng.chance(1, 2), sty: 2, sty2: 6, serial, pnr: rng.range(1, 4), raw_ti: TI_RAWD, payload: vec![0xAA; rng.range(0, 3) as usize] };
    match rng.below(8) {
        0 => Msg { ecu, lc: 0, ext: None, body: Body::Args { be: false, args: vec![] } },
        1 => Msg { ecu, lc: 0, ext: Some((c4("APID"), c4("CTID"), 0x40, 5)), body: flda }, // non-verbose
        2 => Msg { ecu, lc: 0, ext: Some((c4("APID"), c4("CTID"), 0x31, 5)), body: flda }, // log warn
        3 => Msg { ecu, lc: 0, ext: Some((c4("APID"), c4("CTID"), 0x41, 4)), body: flda }, // wrong noar
        4 => Msg { ecu, lc: 0, ext: Some((c4("APID"), c4("CTID"), 0x41, 5)), body: Body::Args { be: false, args: vec![enc_str(b"FLDA"), enc_int(false, 2, serial), enc_int(false, 6, 1), (TI_RAWD, vec![1, 2]), enc_str(b"FLDX")] } },
        _ => Msg { ecu, lc: 0, ext: Some((c4("APID"), c4("CTID"), 0x41, 1)), body: Body::Args { be: false, args: vec![enc_str(b"hello world")] } },
    }
}
/// one ECU of a pipeline case: its transfers (in the order their announcements are sent), the content list (message,
/// transfer it belongs to) and -- once the history is chosen -- one slot per content
struct Lane {
    ecu: u32,
    xfers: Vec<(Plan, Fault)>,
    contents: Vec<(Msg, Option<usize>)>,
    slots: Vec<Slot>,
}
/// contents of a lane: `lead` fillers, then the transfers (one after the other or interleaved) with fillers in between
fn lane_contents(rng: &mut Rng, ecu: u32, xfers: &[(Plan, Fault)], lead: usize, noise: u64, interleaved: bool, trail: usize) -> Vec<(Msg, Option<usize>)> {
    let plans: Vec<Plan> = xfers.iter().map(|x| x.0.clone()).collect();
    let seqs: Vec<Vec<Msg>> = xfers.iter().map(|(p, f)| transfer_msgs(p, f)).collect();
    let mut out: Vec<(Msg, Option<usize>)> = (0..lead).map(|_| (pipe_filler(rng, ecu, &plans), None)).collect();
    let mut pos = vec![0usize; seqs.len()];
    loop {
        let open: Vec<usize> = (0..seqs.len()).filter(|i| pos[*i] < seqs[*i].len()).collect();
        if open.is_empty() {
            break;
        }
        if noise > 0 && rng.chance(noise, 10) {
            out.push((pipe_filler(rng, ecu, &plans), None));
        }
        let i = if interleaved { *rng.pick(&open) } else { open[0] };
        out.push((seqs[i][pos[i]].clone(), Some(i)));
        pos[i] += 1;
    }
    for _ in 0..trail {
        out.push((pipe_filler(rng, ecu, &plans), None));
    }
    out
}
/// the position in the contents of message number `j` of transfer `x`
fn content_pos(contents: &[(Msg, Option<usize>)], x: usize, j: usize) -> Option<usize> {
    contents.iter().enumerate().filter(|(_, c)| c.1 == Some(x)).map(|(i, _)| i).nth(j)
}
/// a new boot may start before position c unless a transfer with a fault would be split by it (a reboot in the middle of
/// a transfer is itself the fault: the two halves belong to different keys)
fn cut_ok_for(lane_contents: &[(Msg, Option<usize>)], xfers: &[(Plan, Fault)]) -> impl Fn(usize) -> bool {
    let mut spans: Vec<(usize, usize)> = vec![];
    for (x, (_, f)) in xfers.iter().enumerate() {
        if *f != Fault::None {
            let idx: Vec<usize> = lane_contents.iter().enumerate().filter(|(_, c)| c.1 == Some(x)).map(|(i, _)| i).collect();
            if let (Some(a), Some(b)) = (idx.first(), idx.last()) {
                spans.push((*a, *b));
            }
        }
    }
    move |c: usize| !spans.iter().any(|(a, b)| *a < c && c <= *b)
}
/// what a transfer must have become, from the boots its messages were sent in
fn truth_intents(p: &Plan, f: &Fault, msgs: &[&Msg]) -> Vec<Intent> {
    let mut labels: Vec<u32> = msgs.iter().map(|m| m.lc).collect();
    labels.dedup();
    if labels.len() <= 1 {
        return vec![Intent { lc: labels.first().copied().unwrap_or(1), ..intent(p, f) }];
    }
    // a reboot in the middle (only fault-free transfers are split): the part before it is a transfer that broke off (or,
    // if only the end marker came after the reboot, one without end marker); what comes after the reboot addresses another
    // key: packages without announcement
    let n = chunks(p).len();
    let first = labels[0];
    let has_flst = msgs.iter().any(|m| m.lc == first && matches!(m.body, Body::Flst { .. }));
    let pk_first = msgs.iter().filter(|m| m.lc == first && matches!(m.body, Body::Flda { .. } | Body::FldaPat { .. })).count();
    let f1 = if !has_flst { "drop_flst" } else if pk_first == n { "drop_flfi" } else { "trunc" };
    let mut v = vec![Intent { lc: first, fault: f1.into(), ..intent(p, f) }];
    for l in &labels[1..] {
        v.push(Intent { lc: *l, fault: "drop_flst".into(), ..intent(p, f) });
    }
    v
}
fn pipe_case(cfg: Cfg, mode: u8, lanes: Vec<Lane>, mut tags: Vec<String>) -> CaseIn {
    let mut order: Vec<(u64, usize, usize)> = vec![];
    for (li, l) in lanes.iter().enumerate() {
        assert_eq!(l.contents.len(), l.slots.len());
        for (k, s) in l.slots.iter().enumerate() {
            order.push((s.rt, li, k));
        }
    }
    order.sort();
    let mut msgs = vec![];
    let mut times = vec![];
    for (_, li, k) in &order {
        let l = &lanes[*li];
        let s = &l.slots[*k];
        msgs.push(Msg { ecu: l.ecu, lc: s.boot, ..l.contents[*k].0.clone() });
        times.push((s.rt, (s.ts / 100) as u32));
    }
    let mut intents = vec![];
    for l in &lanes {
        for (x, (p, f)) in l.xfers.iter().enumerate() {
            let ms: Vec<Msg> = l.contents.iter().zip(l.slots.iter()).filter(|(c, _)| c.1 == Some(x)).map(|(c, s)| Msg { lc: s.boot, ..c.0.clone() }).collect();
            let refs: Vec<&Msg> = ms.iter().collect();
            let its = truth_intents(p, f, &refs);
            if its.len() > 1 {
                tags.push("transfer_split_by_reboot".into());
            }
            intents.extend(its);
            // which message of a transfer sits where in the history
            for (c, s) in l.contents.iter().zip(l.slots.iter()) {
                if c.1 == Some(x) && s.role > 0 {
                    let what = match &c.0.body {
                        Body::Flst { .. } => "flst".to_string(),
                        Body::Flfi { .. } => "flfi".to_string(),
                        Body::Flda { pnr, .. } | Body::FldaPat { pnr, .. } => if *pnr == 1 { "flda1".to_string() } else { "flda_later".to_string() },
                        _ => "other".to_string(),
                    };
                    tags.push(format!("{}_is_{}", if s.role == 2 { "merge_trigger" } else { "stale_burst_has" }, what));
                }
            }
        }
        for (c, s) in l.contents.iter().zip(l.slots.iter()) {
            if c.1.is_none() && s.role == 2 {
                tags.push("merge_trigger_is_unrelated".into());
            }
        }
    }
    tags.push(format!("ecus{}", lanes.len()));
    tags.sort();
    tags.dedup();
    CaseIn { cfg, msgs, intents, isolate: false, probe: None, spre: vec![], sdirs: vec![], sreadonly: vec![], saves: vec![], pipe: Some(Pipe { mode, times, tags }) }
}
/// configuration of `adlt convert --file_transfer=<glob> --file_transfer_path <dir>` (src/bin/adlt/convert.rs)
fn convert_cfg(glob: &str) -> Cfg {
    Cfg { allow_save: false, keep_flda: true, apid: None, ctid: None, ..autosave_cfg(false, glob, "") }
}
fn pipe_cfg(k: u64) -> Cfg {
    match k % 4 {
        0 => std_cfg(),
        1 => convert_cfg("*"),
        2 => Cfg { keep_flda: true, apid: None, ..std_cfg() },
        _ => autosave_cfg(true, "*.bin", "/"),
    }
}
fn kind_tag(k: BootKind) -> &'static str {
    match k {
        BootKind::Plain => "boot_plain",
        BootKind::Long => "boot_confirmed_by_span",
        BootKind::MergePub => "merge_into_published",
        BootKind::MergeBuf => "merge_into_buffered",
    }
}
fn boots_tags(boots: &[BootPlan]) -> Vec<String> {
    boots.iter().map(|b| kind_tag(b.kind).to_string()).collect()
}
fn pipe_plan(rng: &mut Rng, ecu: u32, serial: u64, name: &[u8], n: u64, bs: u64, last: u64) -> Plan {
    Plan { ecu, lc: 0, sty: sty_for(rng, serial), be: rng.chance(1, 3), sty2: *rng.pick(&[6u8, 6, 2, 0, 5]), raw_ti: if rng.chance(1, 6) { TI_STRG } else { TI_RAWD }, ..simple_plan(serial, name, rekey_file(rng, n, bs, last), bs) }
}
/// a bystander ECU: one or two plain / long boots with a small intact transfer
fn bystander_lane(rng: &mut Rng, ecu: u32, serial: u64, s0: u64) -> (Lane, Vec<String>) {
    let n = rng.range(1, 3);
    let bs = rng.range(1, 4);
    let last = rng.range(1, bs);
    let p = pipe_plan(rng, ecu, serial, b"by.bin", n, bs, last);
    let xfers = vec![(p, Fault::None)];
    let lead = rng.range(0, 2) as usize;
    let trail = rng.range(0, 2) as usize;
    let contents = lane_contents(rng, ecu, &xfers, lead, 2, false, trail);
    let ok = cut_ok_for(&contents, &xfers);
    let boots = plan_boots(rng, contents.len(), None, &ok, true);
    let slots = ecu_slots(rng, s0, &boots);
    let t = boots_tags(&boots);
    (Lane { ecu, xfers, contents, slots }, t)
}
fn pipe_cases(sink: &mut Sink, rng: &mut Rng, tier: &str) {
    let quick = tier == "quick";
    let mut k = 0u64;
    // (a) sweep: which message of the transfer triggers the merge (announcement, first / later / last package, end marker) x
    //     merge into the published / the still buffered predecessor x number of packages; every third case with a second ECU
    //     whose messages are queued in between, every fourth with a reboot before or after the boot with the merge
    for kind in [BootKind::MergePub, BootKind::MergeBuf] {
        for n in 1..=4u64 {
            for j in 0..(n + 2) as usize {
                for rep in 0..(if quick { 2 } else { 4 }) {
                    k += 1;
                    let bs = [2u64, 1, 4, 3, 7, 30][(k % 6) as usize];
                    let last = if k % 3 == 0 { bs } else { 1 + (k % bs) };
                    let serial = [17u64, 0, 1, 255, 65535, 65536, 4711][(k % 7) as usize];
                    let ecu = c4(if k % 5 == 0 { "ABCD" } else { "ECU1" });
                    let p = pipe_plan(rng, ecu, serial, if k % 3 == 1 { b"dir/app.log" } else { b"app.bin" }, n, bs, last);
                    let f = match (rep, k % 3) {
                        (1, 0) => Fault::Dup(1, n as usize),
                        (1, 1) => Fault::DropFlfi,
                        (3, _) => Fault::Drop(n as usize),
                        _ => Fault::None,
                    };
                    // the trigger is message j of the transfer as sent (a dropped end marker: the last package instead)
                    let sent = transfer_msgs(&p, &f).len();
                    let j = j.min(sent - 1);
                    let xfers = vec![(p, f)];
                    // at least 3 messages before the trigger (head of 2, burst of 1)
                    let lead = (3usize.saturating_sub(j)) + rng.below(3) as usize;
                    let trail = rng.below(3) as usize;
                    let contents = lane_contents(rng, ecu, &xfers, lead, if rep == 0 { 0 } else { 2 }, false, trail);
                    let w = content_pos(&contents, 0, j).unwrap();
                    let ok = cut_ok_for(&contents, &xfers);
                    let boots = plan_boots(rng, contents.len(), Some((w, kind)), &ok, k % 4 == 0);
                    let mut tags = boots_tags(&boots);
                    let s0 = RHO + rng.below(5 * SEC);
                    let slots = ecu_slots(rng, s0, &boots);
                    let mut lanes = vec![Lane { ecu, xfers, contents, slots }];
                    if k % 3 == 0 {
                        let (l, t) = { let s0 = RHO + rng.below(150 * SEC); bystander_lane(rng, c4("ECU2"), serial, s0) };
                        tags.extend(t.into_iter().map(|x| format!("bystander_{}", x)));
                        lanes.push(l);
                    }
                    record(sink, "pipe_sweep", pipe_case(pipe_cfg(k), 1, lanes, tags));
                }
            }
        }
    }
    // (b) reboot at every position of a fault-free transfer (plain / long boots; the halves belong to different keys)
    for n in 1..=3u64 {
        let total = n as usize + 2;
        for cut in 1..total {
            for rep in 0..(if quick { 1 } else { 3 }) {
                k += 1;
                let bs = [2u64, 3, 1, 5][(k % 4) as usize];
                let ecu = c4("ECU1");
                // equal-sized packages in half of the cases: the part after the reboot may complete as a recovered transfer
                let last = if (k + rep) % 2 == 0 { bs } else { 1 + (k % bs) };
                let p = pipe_plan(rng, ecu, 40 + k, b"re/boot.bin", n, bs, last);
                let xfers = vec![(p, Fault::None)];
                let lead = rng.below(2) as usize;
                let trail = rng.below(2) as usize;
                let contents = lane_contents(rng, ecu, &xfers, lead, 0, false, trail);
                let c = content_pos(&contents, 0, cut).unwrap();
                let mk = |rng: &mut Rng, len: usize| BootPlan { kind: if rng.chance(1, 3) { BootKind::Long } else { BootKind::Plain }, len, trig: 0 };
                let boots = vec![mk(rng, c), mk(rng, contents.len() - c)];
                let mut tags = boots_tags(&boots);
                tags.push("reboot_inside_transfer".into());
                let slots = { let s0 = RHO + rng.below(5 * SEC); ecu_slots(rng, s0, &boots) };
                let mut lanes = vec![Lane { ecu, xfers, contents, slots }];
                if k % 2 == 0 {
                    let (l, _) = { let s0 = RHO + rng.below(20 * SEC); bystander_lane(rng, c4("ECU2"), 40 + k, s0) };
                    lanes.push(l);
                }
                record(sink, "pipe_reboot", pipe_case(pipe_cfg(k), 1, lanes, tags));
            }
        }
    }
    // (c) random histories: 1..3 ECUs, 1..2 transfers each (one after the other or interleaved, single faults), random boots
    let n_rand = match tier {
        "quick" => 110,
        "search" => 500,
        _ => 2000,
    };
    for _ in 0..n_rand {
        k += 1;
        let necu = *rng.pick(&[1usize, 1, 2, 2, 3]);
        let base = *rng.pick(&[3u64, 17, 200, 65535, 70000]);
        let mut lanes = vec![];
        let mut tags = vec![];
        for li in 0..necu {
            let ecu = c4(["ECU1", "ECU2", "ABCD"][li]);
            let nx = rng.range(1, 2) as usize;
            let mut xfers = vec![];
            for x in 0..nx {
                let bs = *rng.pick(&[1u64, 2, 3, 4, 5, 8, 30, 100]);
                let n = rng.range(1, 5);
                let last = if rng.chance(1, 2) { bs } else { rng.range(1, bs) };
                let name = if rng.chance(1, 2) { format!("p{}_{}.bin", li, x).into_bytes() } else { rng.pick(NAMES).as_bytes().to_vec() };
                // the same serial on several ECUs; distinct serials on one ECU
                let p = pipe_plan(rng, ecu, base + x as u64, &name, n, bs, last);
                let fs = rekey_faults(n as usize, true);
                let f = if rng.chance(3, 5) { Fault::None } else { rng.pick(&fs).clone() };
                xfers.push((p, f));
            }
            let (lead, noise, inter, trail) = (rng.below(4) as usize, rng.below(4), rng.chance(1, 2), rng.below(3) as usize);
            let contents = lane_contents(rng, ecu, &xfers, lead, noise, inter, trail);
            let ok = cut_ok_for(&contents, &xfers);
            // a wish in half of the lanes: some message of the first transfer is a merge trigger
            let mut wish = None;
            if rng.chance(1, 2) {
                let cnt = contents.iter().filter(|c| c.1 == Some(0)).count();
                let j = rng.below(cnt as u64) as usize;
                let w = content_pos(&contents, 0, j).unwrap();
                if w >= 3 {
                    wish = Some((w, if rng.chance(1, 2) { BootKind::MergePub } else { BootKind::MergeBuf }));
                }
            }
            let rb = rng.chance(2, 3);
            let boots = plan_boots(rng, contents.len(), wish, &ok, rb);
            tags.extend(boots_tags(&boots));
            let slots = { let s0 = RHO + rng.below(if li == 0 { 5 * SEC } else { 150 * SEC }); ecu_slots(rng, s0, &boots) };
            lanes.push(Lane { ecu, xfers, contents, slots });
        }
        let cfg = match rng.below(3) {
            0 => gen_cfg(rng),
            _ => pipe_cfg(rng.below(4)),
        };
        let c = pipe_case(cfg, 1, lanes, tags);
        record(sink, "pipe_random", c);
    }
    // (d) the binary: `adlt convert --file_transfer=<glob> --file_transfer_path <dir>` on a file with such a history
    let n_bin = if quick { 16 } else { 48 };
    for i in 0..n_bin {
        k += 1;
        let kind = if i % 2 == 0 { BootKind::MergePub } else { BootKind::MergeBuf };
        let n = 1 + (i as u64 / 2) % 4;
        let bs = [4u64, 2, 7, 3][(i % 4) as usize];
        let ecu = c4("ECU1");
        let p = pipe_plan(rng, ecu, 4711 + i as u64, format!("conv{}.bin", i).as_bytes(), n, bs, 1 + (k % bs));
        let xfers = vec![(p, Fault::None)];
        let j = (i / 2) % (n as usize + 2);
        let lead = 3usize.saturating_sub(j) + rng.below(2) as usize;
        let contents = lane_contents(rng, ecu, &xfers, lead, 1, false, 1);
        let w = content_pos(&contents, 0, j).unwrap();
        let ok = cut_ok_for(&contents, &xfers);
        let boots = plan_boots(rng, contents.len(), Some((w, kind)), &ok, i % 4 == 3);
        let mut tags = boots_tags(&boots);
        let slots = { let s0 = RHO + rng.below(5 * SEC); ecu_slots(rng, s0, &boots) };
        let mut lanes = vec![Lane { ecu, xfers, contents, slots }];
        if i % 3 == 2 {
            let (l, t) = { let s0 = RHO + rng.below(100 * SEC); bystander_lane(rng, c4("ECU2"), 4711 + i as u64, s0) };
            tags.extend(t.into_iter().map(|x| format!("bystander_{}", x)));
            lanes.push(l);
        }
        let glob = if i % 5 == 4 { "*.bin" } else { "*" };
        record(sink, "pipe_convert", pipe_case(convert_cfg(glob), 2, lanes, tags));
    }
}

/// one probe of the pre-allocation cap: announced transfer larger than MAX_PREALLOC_SIZE (64 MiB); returns the verdict
fn prealloc_probe(nr: u64, bs: u64) -> Verdict {
    let fail = |cl: &str, d: String| Verdict::Fail { clause: cl.into(), detail: d };
    let r = catch_loc(move || {
        let j = json!({"name": "ft", "allowSave": true});
        let mut p = FileTransferPlugin::from_json(j.as_object().unwrap()).expect("plugin config");
        let mk = |body: Body, noar: u8| Msg { ecu: c4("ECU1"), lc: 0, ext: Some((c4("APID"), c4("CTID"), 0x41, noar)), body };
        let mut dm = build_msg(0, &mk(Body::Flst { be: false, sty: 3, serial: 9, name: b"big.bin".to_vec(), size: nr * bs, nr, bs }, 8));
        p.process_msg(&mut dm);
        for jn in 1..=nr {
            let mut dm = build_msg(jn as u32, &mk(Body::FldaPat { be: false, sty: 3, sty2: 6, serial: 9, pnr: jn, raw_ti: TI_RAWD, a: (jn % 251) as u8, b: (jn % 7 + 1) as u8, len: bs as u32 }, 5));
            p.process_msg(&mut dm);
        }
        let mut dm = build_msg(0, &mk(Body::Flfi { be: false, sty: 3, serial: 9 }, 3));
        p.process_msg(&mut dm);
        let state = p.state();
        let state = state.read().unwrap();
        let tree = state.value["treeItems"].as_array().cloned().unwrap_or_default();
        let complete = tree.len() == 2 && tree[1]["iconPath"].as_str() == Some("file");
        let tmp = tempfile::NamedTempFile::new().unwrap();
        let params = json!({"saveAs": tmp.path().to_str().unwrap()});
        let ctx = json!({"save": {"idx": 0}});
        let ok = match state.apply_command {
            Some(f) => f(&state.internal_data, "save", params.as_object(), ctx.as_object()),
            None => false,
        };
        let saved = if ok { Some(std::fs::read(tmp.path()).unwrap_or_default()) } else { None };
        // compare with the original, package by package
        let mut problem = None;
        if let Some(d) = &saved {
            if d.len() as u64 != nr * bs {
                problem = Some(format!("saved {} bytes, original {} bytes", d.len(), nr * bs));
            } else {
                for jn in 1..=nr {
                    let want = pat((jn % 251) as u8, (jn % 7 + 1) as u8, bs as usize);
                    let off = ((jn - 1) * bs) as usize;
                    if d[off..off + bs as usize] != want[..] {
                        problem = Some(format!("saved content differs in package {}", jn));
                        break;
                    }
                }
            }
        }
        (complete, saved.is_some(), problem)
    });
    match r {
        Err(e) => fail("no_panic", e),
        Ok((complete, has, problem)) => {
            if !complete {
                fail("inorder_complete", format!("announced transfer of {} x {} bytes in order not reported complete", nr, bs))
            } else if !has {
                fail("inorder_complete", "complete but cannot be saved".into())
            } else if let Some(p) = problem {
                fail("complete_exact", format!("transfer of {} x {} bytes reported complete but {}", nr, bs, p))
            } else {
                Verdict::Ok
            }
        }
    }
}

fn main() {
    let argv: Vec<String> = std::env::args().collect();
    if argv.len() == 3 && argv[1] == "--child" {
        let c: CaseIn = serde_json::from_slice(&std::fs::read(&argv[2]).unwrap()).unwrap();
        let r = catch(move || run_impl_inner(&c));
        std::process::exit(if r.is_ok() { 0 } else { 3 });
    }
    let a = parse_args();
    let mut sink = Sink::new("C17", &a.out);
    sink.shard_size = 40;
    if let Some(p) = &a.replay {
        let v = read_replay(p);
        let c: CaseIn = serde_json::from_value(v["case"].clone()).expect("case");
        record(&mut sink, "replay", c);
        sink.finish();
        return;
    }
    if std::env::var("C17_ONLY").as_deref() == Ok("pipe") {
        // development / focused search: only the families behind the real lifecycle stage
        let mut rng3 = Rng::new(a.seed ^ 0x5eed_0177);
        pipe_cases(&mut sink, &mut rng3, &a.tier);
        sink.finish();
        return;
    }
    let mut rng = Rng::new(a.seed);
    let (n_scen, n_mal, sweep_n) = match a.tier.as_str() {
        "quick" => (800, 350, 4),
        "search" => (3000, 1000, 3),
        _ => (25000, 10000, 5),
    };
    let (n_scen, n_mal) = match a.count {
        Some(c) => (c * 2 / 3, c / 3),
        None => (n_scen, n_mal),
    };
    if a.tier != "search" {
        corpus(&mut sink);
        all_interleavings(&mut sink);
    }
    sweep(&mut sink, &mut rng, sweep_n);
    sized_cases(&mut sink, &mut rng, &a.tier);
    save_cases(&mut sink, &mut rng, &a.tier);
    {
        // own random stream: the families above and below keep their inputs
        let mut rng2 = Rng::new(a.seed ^ 0x5eed_0176);
        rekey_cases(&mut sink, &mut rng2, &a.tier);
        let mut rng3 = Rng::new(a.seed ^ 0x5eed_0177);
        pipe_cases(&mut sink, &mut rng3, &a.tier);
    }
    if a.tier != "search" && std::env::var("C17_NO_PREALLOC_PROBE").is_err() {
        // 1040 packages of 65000 bytes = 64.5 MiB, just above the 64 MiB pre-allocation cap
        record(&mut sink, "prealloc_probe", CaseIn { cfg: std_cfg(), msgs: vec![], intents: vec![], isolate: false, probe: Some((1040, 65000)), spre: vec![], sdirs: vec![], sreadonly: vec![], saves: vec![], pipe: None });
    }
    for _ in 0..n_scen {
        let c = gen_scenario(&mut rng, a.tier != "quick");
        record(&mut sink, "scenario", c);
    }
    for _ in 0..n_mal {
        let c = gen_malformed(&mut rng);
        record(&mut sink, "malformed", c);
    }
    let _ = std::fs::remove_dir_all(ABS_PROBE);
    sink.finish();
}
