//! C02 — DltMessage::to_write / re-parse / second write vs Dlt/Write.v (+ Dlt/Frame.v, Dlt/Iter.v)
//! Family 1 (stream): a byte stream is read with the real iterator, every message is written with to_write, the
//! written bytes are read again and written again.  Family 2 (msg): DltMessage values built field by field are
//! written (exercises the length arithmetic incl. the Err returned when header + payload exceed the u16 len field).
use adlt::dlt::{parse_dlt_with_storage_header, DltChar4, DltExtendedHeader, DltMessage, DltStandardHeader};
use adlt::utils::DltMessageIterator;
use std::io::Cursor;
use vharness::*;

#[path = "c01.rs"]
#[allow(dead_code)]
mod g;
use g::{coq_segs, flatten, item_of, o_c4, o_item, segs_len, Input, Item, Part, Segs};

fn o_wbytes(l: &[u8]) -> O {
    if l.len() <= 300 {
        O::T(vec![O::L(0), O::bytes(l)])
    } else {
        O::T(vec![O::L(1), O::n(l.len() as u64), O::n(g::cksum(l)), O::bytes(&l[..24])])
    }
}

struct Read {
    msgs: Vec<DltMessage>,
    index: u32,
    processed: usize,
    skipped: usize,
    det_storage: bool,
    det_serial: bool,
    rest: usize,
    /// every message came from a storage header with micros < 10^6 (or from the serial framing)
    micros_ok: bool,
}

fn read_all(start: u32, data: &[u8]) -> Result<Read, String> {
    let data = data.to_vec();
    catch_loc(move || {
        let total = data.len();
        let copy = data.clone();
        let mut cur = Cursor::new(data);
        let mut it = DltMessageIterator::new(start, &mut cur);
        let mut msgs = vec![];
        let mut micros_ok = true;
        while let Some(m) = it.next() {
            if it.detected_storage_header {
                let consumed = 16 + m.standard_header.len as usize;
                let off = it.bytes_processed - consumed;
                let micros = u32::from_le_bytes([copy[off + 8], copy[off + 9], copy[off + 10], copy[off + 11]]);
                if micros >= 1_000_000 {
                    micros_ok = false;
                }
            }
            msgs.push(m);
        }
        let r = Read { msgs, index: it.index, processed: it.bytes_processed, skipped: it.bytes_skipped, det_storage: it.detected_storage_header,
            det_serial: it.detected_serial_header, rest: 0, micros_ok };
        drop(it);
        Read { rest: total - (cur.position() as usize).min(total), ..r }
    })
}

/// outcome of `for m in ms { m.to_write(&mut v)? }`
enum W {
    Ok(Vec<u8>),
    /// to_write returned Err: what is in the writer by then
    IoErr(Vec<u8>, String),
}
fn write_all_w(ms: &[DltMessage]) -> Result<W, String> {
    let ms = ms.to_vec();
    catch_loc(move || {
        let mut v = vec![];
        for m in &ms {
            if let Err(e) = m.to_write(&mut v) {
                return W::IoErr(v, e.to_string());
            }
        }
        W::Ok(v)
    })
}
/// bytes, or a description of the panic / io error
fn write_all(ms: &[DltMessage]) -> Result<Vec<u8>, String> {
    match write_all_w(ms)? {
        W::Ok(v) => Ok(v),
        W::IoErr(_, e) => Err(format!("to_write returned Err: {}", e)),
    }
}

fn same_fields(a: &DltMessage, b: &DltMessage) -> Result<(), String> {
    if a.ecu != b.ecu {
        return Err("ecu".into());
    }
    if a.reception_time_us != b.reception_time_us {
        return Err(format!("reception time {} vs {}", a.reception_time_us, b.reception_time_us));
    }
    if a.timestamp_dms != b.timestamp_dms {
        return Err("timestamp".into());
    }
    if a.standard_header.has_timestamp() != b.standard_header.has_timestamp() {
        return Err("timestamp presence".into());
    }
    if a.mcnt() != b.mcnt() {
        return Err("mcnt".into());
    }
    if a.is_big_endian() != b.is_big_endian() {
        return Err("endianness".into());
    }
    if a.extended_header != b.extended_header {
        return Err("extended header".into());
    }
    if a.payload != b.payload {
        return Err("payload".into());
    }
    Ok(())
}

/// `adlt convert -o a.dlt in.dlt`, `adlt convert -o b.dlt a.dlt`: returns (a, b) or None when the binary is not available
fn convert_twice(data: &[u8]) -> Option<Result<(Vec<u8>, Vec<u8>), String>> {
    let bin = std::env::var("VERIF_ADLT_BIN").ok()?;
    if !std::path::Path::new(&bin).exists() {
        return None;
    }
    let dir = tempfile::tempdir().ok()?;
    let p = |n: &str| dir.path().join(n);
    std::fs::write(p("in.dlt"), data).ok()?;
    let run = |out: &str, inp: &str| -> Result<(), String> {
        let o = std::process::Command::new(&bin).arg("convert").arg("-o").arg(p(out)).arg(p(inp)).output().map_err(|e| e.to_string())?;
        if !o.status.success() {
            return Err(format!("adlt convert exit {:?}: {}", o.status.code(), String::from_utf8_lossy(&o.stderr)));
        }
        Ok(())
    };
    Some((|| {
        run("a.dlt", "in.dlt")?;
        run("b.dlt", "a.dlt")?;
        let a = std::fs::read(p("a.dlt")).map_err(|e| e.to_string())?;
        let b = std::fs::read(p("b.dlt")).map_err(|e| e.to_string())?;
        Ok((a, b))
    })())
}

fn record_stream(sink: &mut Sink, start: u32, segs: Segs, extra: &[&str]) {
    let data = flatten(&segs);
    let fail = |c: &str, d: String| Verdict::Fail { clause: c.into(), detail: d };
    let mut verdict = Verdict::Ok;
    let mut tags: Vec<String> = extra.iter().map(|s| s.to_string()).collect();
    tags.push("stream".into());
    let mut nontrivial = false;
    let r1 = read_all(start, &data);
    let obs = match &r1 {
        Err(_) => {
            tags.push("read_panic".into());
            O::T(vec![O::L(1)])
        }
        Ok(r1) => {
            let in_domain = r1.micros_ok;
            tags.push(if in_domain { "in_domain".into() } else { "micros_ge_1e6".into() });
            tags.push(format!("msgs{}", r1.msgs.len().min(9)));
            let items1: Vec<O> = r1.msgs.iter().map(|m| o_item(&item_of(m))).collect();
            match write_all_w(&r1.msgs) {
                Err(e) => {
                    tags.push("write_panic".into());
                    if in_domain {
                        verdict = fail("write_ok", e);
                    }
                    O::T(vec![O::L(2), O::T(items1)])
                }
                Ok(W::IoErr(p, e)) => {
                    tags.push("write_io_err".into());
                    if in_domain {
                        verdict = fail("write_ok", format!("to_write returned Err: {}", e));
                    }
                    O::T(vec![O::L(4), O::T(items1), o_wbytes(&p)])
                }
                Ok(W::Ok(b1)) => match read_all(start, &b1) {
                    Err(_) => O::T(vec![O::L(3)]),
                    Ok(r2) => {
                        let b2 = write_all(&r2.msgs);
                        let same = match &b2 {
                            Ok(b2) => O::b(*b2 == b1),
                            Err(_) => O::L(2),
                        };
                        if in_domain {
                            // the property, checked directly
                            if r2.msgs.len() != r1.msgs.len() {
                                verdict = fail("every_message_in_order", format!("{} written, {} read back", r1.msgs.len(), r2.msgs.len()));
                            } else if r2.skipped != 0 || r2.processed != b1.len() || r2.rest != 0 {
                                verdict = fail("consumes_exactly_the_bytes_written", format!("skipped {} processed {} of {} rest {}", r2.skipped, r2.processed, b1.len(), r2.rest));
                            } else if let Some((k, e)) = r1.msgs.iter().zip(r2.msgs.iter()).enumerate().find_map(|(k, (a, b))| same_fields(a, b).err().map(|e| (k, e))) {
                                verdict = fail("same_fields", format!("message {}: {}", k, e));
                            } else if let Some(k) = r2.msgs.iter().enumerate().find(|(k, m)| m.index != start.wrapping_add(*k as u32)).map(|x| x.0) {
                                verdict = fail("same_order", format!("message {} has index {}", k, r2.msgs[k].index));
                            } else if !matches!(&b2, Ok(b2) if *b2 == b1) {
                                verdict = fail("write_normal_form", "the second export differs from the first".into());
                            } else {
                                // message by message: parse(to_write(m)) consumes exactly what was written
                                for (k, m) in r1.msgs.iter().enumerate() {
                                    let mut v = vec![];
                                    m.to_write(&mut v).unwrap();
                                    match parse_dlt_with_storage_header(77, &v) {
                                        Ok((n, m2)) => {
                                            if n != v.len() {
                                                verdict = fail("consumes_exactly_the_bytes_written", format!("message {}: {} of {}", k, n, v.len()));
                                            } else if let Err(e) = same_fields(m, &m2) {
                                                verdict = fail("same_fields", format!("message {} alone: {}", k, e));
                                            } else {
                                                let mut v2 = vec![];
                                                m2.to_write(&mut v2).unwrap();
                                                if v2 != v {
                                                    verdict = fail("write_normal_form", format!("message {} alone", k));
                                                }
                                            }
                                        }
                                        Err(e) => verdict = fail("reparse", format!("message {}: {}", k, e)),
                                    }
                                }
                            }
                        }
                        if in_domain && matches!(verdict, Verdict::Ok) && extra.contains(&"e2e") && start == 0 {
                            // the `-o` path of the binary: same bytes as to_write of every message, and a fixed point
                            match convert_twice(&data) {
                                None => tags.push("e2e_skipped_no_binary".into()),
                                Some(Err(e)) => verdict = fail("convert_o_runs", e),
                                Some(Ok((fa, fb))) => {
                                    tags.push("e2e_convert_twice".into());
                                    if fa != b1 {
                                        verdict = fail("convert_o_writes_every_message_with_to_write", format!("file has {} bytes, to_write of the {} messages {}", fa.len(), r1.msgs.len(), b1.len()));
                                    } else if fb != fa {
                                        verdict = fail("export_of_export_identical", format!("{} vs {} bytes", fa.len(), fb.len()));
                                    }
                                }
                            }
                        }
                        nontrivial = in_domain && r1.msgs.len() >= 2 && b1 != data;
                        if b1 != data {
                            tags.push("rewritten_differs_from_input".into());
                        }
                        O::T(vec![
                            O::L(0),
                            O::T(items1),
                            o_wbytes(&b1),
                            O::T(r2.msgs.iter().map(|m| o_item(&item_of(m))).collect()),
                            O::T(vec![O::n(r2.index), O::n(r2.processed as u64), O::n(r2.skipped as u64), O::b(r2.det_storage), O::b(r2.det_serial)]),
                            O::n(r2.rest as u64),
                            same,
                        ])
                    }
                },
            }
        }
    };
    let input_coq = format!("(CStream {} {})", start, coq_segs(&segs));
    let id = sink.next_id();
    sink.push(Case { id, key: input_coq.clone(), input_coq, input_json: json!({"kind": "stream", "start": start, "segs": segs}), obs, verdict, classes: vec![], tags, nontrivial });
}

#[derive(Clone)]
struct CMsg {
    rt: u64,
    ecu: [u8; 4],
    ts: u32,
    htyp: u8,
    mcnt: u8,
    len: u16,
    ext: Option<(u8, u8, [u8; 4], [u8; 4])>,
    payload: Segs,
}

fn record_msg(sink: &mut Sink, c: CMsg, extra: &[&str]) {
    let m = DltMessage {
        index: 0,
        reception_time_us: c.rt,
        ecu: DltChar4::from_buf(&c.ecu),
        timestamp_dms: c.ts,
        standard_header: DltStandardHeader { htyp: c.htyp, mcnt: c.mcnt, len: c.len },
        extended_header: c.ext.map(|e| DltExtendedHeader { verb_mstp_mtin: e.0, noar: e.1, apid: DltChar4::from_buf(&e.2), ctid: DltChar4::from_buf(&e.3) }),
        payload: flatten(&c.payload),
        payload_text: None,
        lifecycle: 0,
    };
    let r = write_all_w(&[m]);
    let mut tags: Vec<String> = extra.iter().map(|s| s.to_string()).collect();
    tags.push("msg".into());
    let obs = match &r {
        Ok(W::Ok(b)) => O::T(vec![O::L(0), o_wbytes(b)]),
        Ok(W::IoErr(p, _)) => {
            tags.push("write_io_err".into());
            O::T(vec![O::L(3), o_wbytes(p)])
        }
        Err(_) => {
            tags.push("write_panic".into());
            O::T(vec![O::L(1)])
        }
    };
    let c4 = |c: &[u8; 4]| format!("({}, {}, {}, {})", c[0], c[1], c[2], c[3]);
    let ext = match &c.ext {
        None => "None".to_string(),
        Some(e) => format!("(Some ({}, {}, {}, {}))", e.0, e.1, c4(&e.2), c4(&e.3)),
    };
    let input_coq = format!("(CMsg {} {} {} {} {} {} {} {})", c.rt, c4(&c.ecu), c.ts, c.htyp, c.mcnt, c.len, ext, coq_segs(&c.payload));
    let id = sink.next_id();
    let plen = segs_len(&c.payload);
    sink.push(Case {
        id,
        key: input_coq.clone(),
        input_coq,
        input_json: json!({"kind": "msg", "rt": c.rt, "ecu": c.ecu, "ts": c.ts, "htyp": c.htyp, "mcnt": c.mcnt, "len": c.len,
            "ext": c.ext.map(|e| json!([e.0, e.1, e.2, e.3])), "payload": c.payload}),
        obs,
        verdict: Verdict::Ok, // directly constructed messages are outside the property's quantifier (model vs code only)
        classes: vec![],
        tags,
        nontrivial: plen > 0 && c.ext.is_some(),
    });
}

fn gen_cmsg(rng: &mut Rng) -> CMsg {
    let htyp = rng.below(256) as u8;
    let plen: usize = match rng.below(8) {
        0 => 65535 - rng.below(30) as usize,
        1 => 65536 + rng.below(30) as usize,
        _ => rng.size(40) as usize,
    };
    let payload: Segs = if plen == 0 {
        vec![]
    } else if plen > 100 {
        vec![(1, g::rbytes(rng, 5, 0)), ((plen - 5) as u64, vec![rng.below(256) as u8])]
    } else {
        vec![(1, g::rbytes(rng, plen, 0))]
    };
    CMsg {
        rt: match rng.below(5) { 0 => 0, 1 => u64::MAX, 2 => (u32::MAX as u64 + 1) * 1_000_000 + rng.below(1_000_000), _ => rng.below(4_000_000_000) * 1_000_000 + rng.below(1_000_000) },
        ecu: g::r4(rng),
        ts: rng.next() as u32,
        htyp,
        mcnt: rng.below(256) as u8,
        len: rng.next() as u16,
        ext: if rng.chance(1, 2) { Some((rng.below(256) as u8, rng.below(256) as u8, g::r4(rng), g::r4(rng))) } else { None },
        payload,
    }
}

fn stream_of(inp: Input) -> (u32, Segs) {
    match inp {
        Input::Raw { start, segs } => (start, segs),
        Input::Stream { framing, start, parts } => (start, g::build(framing, &parts).segs),
    }
}

fn main() {
    let a = parse_args();
    let mut sink = Sink::new("C02", &a.out);
    sink.shard_size = 50;
    if let Some(p) = &a.replay {
        let v = read_replay(p);
        let c = &v["case"];
        if c["kind"] == "stream" {
            record_stream(&mut sink, c["start"].as_u64().unwrap() as u32, serde_json::from_value(c["segs"].clone()).unwrap(), &["replay"]);
        } else {
            let a4 = |x: &Value| -> [u8; 4] {
                let v: Vec<u8> = serde_json::from_value(x.clone()).unwrap();
                [v[0], v[1], v[2], v[3]]
            };
            let ext = if c["ext"].is_null() { None } else { Some((c["ext"][0].as_u64().unwrap() as u8, c["ext"][1].as_u64().unwrap() as u8, a4(&c["ext"][2]), a4(&c["ext"][3]))) };
            record_msg(&mut sink, CMsg { rt: c["rt"].as_u64().unwrap(), ecu: a4(&c["ecu"]), ts: c["ts"].as_u64().unwrap() as u32, htyp: c["htyp"].as_u64().unwrap() as u8,
                mcnt: c["mcnt"].as_u64().unwrap() as u8, len: c["len"].as_u64().unwrap() as u16, ext, payload: serde_json::from_value(c["payload"].clone()).unwrap() }, &["replay"]);
        }
        sink.finish();
        return;
    }
    let mut rng = Rng::new(a.seed);
    let quick = a.tier == "quick";
    if a.tier != "search" {
        // corpus: all optional parts + big endian (the rewritten header is 8 bytes shorter), serial input, markers in payloads
        for f in 0..2u8 {
            let mut m1 = g::plain(0x3f, b"xyz");
            m1.micros = 999_999;
            let m2 = g::plain(0x21, b"xxDLT\x01yyDLS\x01");
            let m3 = g::plain(0x20, b"");
            let (s, segs) = stream_of(Input::Stream { framing: f, start: 10, parts: vec![Part::G(vec![(1, vec![1, 2, 3])]), Part::M(m1), Part::M(m2), Part::M(m3)] });
            record_stream(&mut sink, s, segs.clone(), &["corpus"]);
            record_stream(&mut sink, 0, segs, &["corpus", "e2e"]);
        }
        // near-maximum payloads: every header shape at len = 65535
        for htyp in [0x20u8, 0x3f, 0x2c, 0x31] {
            let mut m = g::plain(htyp, b"");
            let hs = m.hs();
            m.payload = vec![(1, vec![9, 8, 7]), ((65535 - hs - 3) as u64, vec![htyp])];
            let (s, segs) = stream_of(Input::Stream { framing: 0, start: 0, parts: vec![Part::M(m), Part::M(g::plain(0x20, b"q"))] });
            record_stream(&mut sink, s, segs, &["near_max"]);
        }
        // all 32 flag sets x both framings, two messages each
        for f in 0..2u8 {
            for low in 0..32u8 {
                let mut m1 = g::gen_msg(&mut rng, 6);
                m1.htyp = (m1.htyp & 0xe0) | low;
                m1.micros %= 1_000_000;
                let mut m2 = g::gen_msg(&mut rng, 3);
                m2.htyp = (m2.htyp & 0xe0) | low;
                m2.micros %= 1_000_000;
                let (s, segs) = stream_of(Input::Stream { framing: f, start: 100, parts: vec![Part::M(m1), Part::M(m2)] });
                record_stream(&mut sink, s, segs, &["flag_product"]);
            }
        }
        // u16 boundary of the rewritten length
        for (ts, ext, plen) in [(false, false, 65531usize), (false, false, 65532), (true, false, 65527), (true, false, 65528), (true, true, 65517), (true, true, 65518), (false, true, 65521), (false, true, 65522), (false, false, 65536), (true, true, 65536 + 65517)] {
            record_msg(&mut sink, CMsg { rt: 1_700_000_000_123_456, ecu: *b"ECU1", ts: 5, htyp: 0x20 | if ts { 0x10 } else { 0 } | if ext { 1 } else { 0 }, mcnt: 3, len: 0,
                ext: if ext { Some((0x41, 1, *b"APID", *b"CTID")) } else { None }, payload: vec![(plen as u64, vec![0x5a])] }, &["corpus", "u16_boundary"]);
        }
    }
    let n = a.count.unwrap_or(if quick { 300 } else if a.tier == "search" { 1200 } else { 5000 });
    for k in 0..n {
        match k % 4 {
            0 => {
                let c = gen_cmsg(&mut rng);
                record_msg(&mut sink, c, &[]);
            }
            1 => {
                let (s, segs) = stream_of(g::gen_malformed(&mut rng));
                record_stream(&mut sink, s, segs, &["malformed"]);
            }
            _ => {
                let inp = if quick { g::gen_stream(&mut rng, 5, 20, 12) } else { g::gen_stream(&mut rng, 10, 64, 30) };
                let (s, segs) = stream_of(inp);
                // every 16th case also goes through the `adlt convert -o` binary twice (index starts at 0 there)
                if k % 16 == 2 {
                    record_stream(&mut sink, 0, segs, &["e2e"]);
                } else {
                    record_stream(&mut sink, s, segs, &[]);
                }
            }
        }
    }
    sink.finish();
}
