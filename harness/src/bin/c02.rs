//! C02 — DltMessage::to_write / re-parse / second write vs Dlt/Write.v (+ Dlt/Frame.v, Dlt/Iter.v)
//! Family 1 (stream): a byte stream is read with the real iterator, every message is written with to_write, the
//! written bytes are read again and written again.  Family 2 (msg): DltMessage values built field by field are
//! written (exercises the length arithmetic incl. the Err returned when header + payload exceed the u16 len field).
//! Family 3 (export): files with a varied LIFECYCLE HISTORY (every stage between reader and writer of `adlt convert -o`
//! may reorder / drop: the lifecycle stage buffers, merges and flushes) are exported twice, by the binary and by the same
//! stages run in this process; the export must re-read to exactly the input messages in input order, frame by frame
//! byte-identical, and the export of the export must be identical (model: Dlt/WritePipeline.v).
//! Family 4/5: the state of the `-o` path before the command; the library's export writer.  Family 6 (export_opts): the export
//! under the options of `adlt convert` that configure plugins / processing but do not select messages (--file_transfer..., the
//! decoder paths, --sort, --debug_verify_*, -x/-a/-s), alone and combined, on inputs with file transfers and decoder traffic.
use adlt::dlt::{parse_dlt_with_storage_header, DltChar4, DltExtendedHeader, DltMessage, DltStandardHeader};
use adlt::lifecycle::{LifecycleId, LifecycleItem};
use adlt::utils::DltMessageIterator;
use std::io::Cursor;
use vharness::lcgen::{self, MSpec};
use vharness::*;

#[path = "c01.rs"]
#[allow(dead_code)]
mod g;
use g::{coq_segs, flatten, item_of, o_c4, o_item, segs_len, Input, Item, Part, Segs};

fn o_wbytes(l: &[u8]) -> O {
    if l.len() <= 300 {
        O::T(vec![O::L(0), O::bytes(l)])
    } else {
        O::T(vec![O::L(1), O::n(l.len() as u64), O::n(g::cksum(l)), O::bytes(&l[..24])])
    }
}

struct Read {
    msgs: Vec<DltMessage>,
    index: u32,
    processed: usize,
    skipped: usize,
    det_storage: bool,
    det_serial: bool,
    rest: usize,
    /// every message came from a storage header with micros < 10^6 (or from the serial framing)
    micros_ok: bool,
}

fn read_all(start: u32, data: &[u8]) -> Result<Read, String> {
    let data = data.to_vec();
    catch_loc(move || {
        let total = data.len();
        let copy = data.clone();
        let mut cur = Cursor::new(data);
        let mut it = DltMessageIterator::new(start, &mut cur);
        let mut msgs = vec![];
        let mut micros_ok = true;
        while let Some(m) = it.next() {
            if it.detected_storage_header {
                let consumed = 16 + m.standard_header.len as usize;
                let off = it.bytes_processed - consumed;
                let micros = u32::from_le_bytes([copy[off + 8], copy[off + 9], copy[off + 10], copy[off + 11]]);
                if micros >= 1_000_000 {
                    micros_ok = false;
                }
            }
            msgs.push(m);
        }
        let r = Read { msgs, index: it.index, processed: it.bytes_processed, skipped: it.bytes_skipped, det_storage: it.detected_storage_header,
            det_serial: it.detected_serial_header, rest: 0, micros_ok };
        drop(it);
        Read { rest: total - (cur.position() as usize).min(total), ..r }
    })
}

/// outcome of `for m in ms { m.to_write(&mut v)? }`
enum W {
    Ok(Vec<u8>),
    /// to_write returned Err: what is in the writer by then
    IoErr(Vec<u8>, String),
}
fn write_all_w(ms: &[DltMessage]) -> Result<W, String> {
    let ms = ms.to_vec();
    catch_loc(move || {
        let mut v = vec![];
        for m in &ms {
            if let Err(e) = m.to_write(&mut v) {
                return W::IoErr(v, e.to_string());
            }
        }
        W::Ok(v)
    })
}
/// bytes, or a description of the panic / io error
fn write_all(ms: &[DltMessage]) -> Result<Vec<u8>, String> {
    match write_all_w(ms)? {
        W::Ok(v) => Ok(v),
        W::IoErr(_, e) => Err(format!("to_write returned Err: {}", e)),
    }
}

fn same_fields(a: &DltMessage, b: &DltMessage) -> Result<(), String> {
    if a.ecu != b.ecu {
        return Err("ecu".into());
    }
    if a.reception_time_us != b.reception_time_us {
        return Err(format!("reception time {} vs {}", a.reception_time_us, b.reception_time_us));
    }
    if a.timestamp_dms != b.timestamp_dms {
        return Err("timestamp".into());
    }
    if a.standard_header.has_timestamp() != b.standard_header.has_timestamp() {
        return Err("timestamp presence".into());
    }
    if a.mcnt() != b.mcnt() {
        return Err("mcnt".into());
    }
    if a.is_big_endian() != b.is_big_endian() {
        return Err("endianness".into());
    }
    if a.extended_header != b.extended_header {
        return Err("extended header".into());
    }
    if a.payload != b.payload {
        return Err("payload".into());
    }
    Ok(())
}

/// What an output path holds before a command of the families whose case description has no prior state: derived from the
/// input (so that replays reproduce it) -- absent, empty, the first half of the input, the input followed by 1..4 bytes, the
/// input followed by a copy of its first part (a longer file of valid messages), junk longer than the input.
fn derived_prior(data: &[u8], salt: u64) -> Option<Vec<u8>> {
    let h = (g::cksum(data) as u64).wrapping_mul(2654435761).wrapping_add(salt.wrapping_mul(0x9e37_79b9)) >> 7;
    match h % 8 {
        0 | 1 => None,
        2 => Some(vec![]),
        3 => Some(data[..data.len() / 2].to_vec()),
        4 => {
            let mut v = data.to_vec();
            v.extend_from_slice(&b"DLT\x01"[..1 + (h / 8 % 4) as usize]);
            Some(v)
        }
        5 | 6 => {
            let mut v = data.to_vec();
            let n = if data.is_empty() { 0 } else { (1 + (h / 8) as usize % data.len()).min(4000) };
            v.extend_from_slice(&data[..n]);
            if n == 0 {
                v.extend_from_slice(b"DLT\x01 no message");
            }
            Some(v)
        }
        _ => {
            let n = data.len() + 1 + (h / 8 % 5000) as usize;
            Some((0..n).map(|i| (i as u64).wrapping_mul(h | 1).to_le_bytes()[1]).collect())
        }
    }
}

/// for the details of a failing clause: what the two output paths held before the commands
fn derived_note(data: &[u8], salt: u64) -> String {
    let d = |s: u64| match derived_prior(data, s) {
        None => "was absent".to_string(),
        Some(c) => format!("held {} bytes", c.len()),
    };
    format!("; before the commands the first -o path {}, the second {} (input: {} bytes)", d(salt), d(salt + 1), data.len())
}

/// `adlt convert -o a.dlt in.dlt`, `adlt convert -o b.dlt a.dlt`: returns (a, b) or None when the binary is not available
fn convert_twice(data: &[u8]) -> Option<Result<(Vec<u8>, Vec<u8>), String>> {
    let bin = std::env::var("VERIF_ADLT_BIN").ok()?;
    if !std::path::Path::new(&bin).exists() {
        return None;
    }
    let dir = tempfile::tempdir().ok()?;
    let p = |n: &str| dir.path().join(n);
    std::fs::write(p("in.dlt"), data).ok()?;
    // the state of the output paths before the commands: a function of the input (C02_export_independent_of_prior_output_content:
    // it must not matter, so it is not part of the case description)
    if let Some(c) = derived_prior(data, 0) {
        std::fs::write(p("a.dlt"), c).ok()?;
    }
    if let Some(c) = derived_prior(data, 1) {
        std::fs::write(p("b.dlt"), c).ok()?;
    }
    let run = |out: &str, inp: &str| -> Result<(), String> {
        let o = std::process::Command::new(&bin).arg("convert").arg("-o").arg(p(out)).arg(p(inp)).output().map_err(|e| e.to_string())?;
        if !o.status.success() {
            return Err(format!("adlt convert exit {:?}: {}", o.status.code(), String::from_utf8_lossy(&o.stderr)));
        }
        Ok(())
    };
    Some((|| {
        run("a.dlt", "in.dlt")?;
        run("b.dlt", "a.dlt")?;
        let a = std::fs::read(p("a.dlt")).map_err(|e| e.to_string())?;
        let b = std::fs::read(p("b.dlt")).map_err(|e| e.to_string())?;
        Ok((a, b))
    })())
}

/// family 3: `adlt convert -o a.dlt in.dlt` and `adlt convert -o b.dlt a.dlt`.  When a.dlt is byte-identical to in.dlt the second
/// command would repeat the first experiment on the same bytes: it is then run only when `always_second` (a sample).
/// Returns (a, b, second command run) or None when there is no binary.
type BinExport = Option<Result<(Vec<u8>, Vec<u8>, bool), String>>;
fn convert_export(data: &[u8], always_second: bool) -> BinExport {
    let bin = std::env::var("VERIF_ADLT_BIN").ok()?;
    if !std::path::Path::new(&bin).exists() {
        return None;
    }
    let dir = tempfile::tempdir().ok()?;
    let p = |n: &str| dir.path().join(n);
    std::fs::write(p("in.dlt"), data).ok()?;
    if let Some(c) = derived_prior(data, 2) {
        std::fs::write(p("a.dlt"), c).ok()?;
    }
    if let Some(c) = derived_prior(data, 3) {
        std::fs::write(p("b.dlt"), c).ok()?;
    }
    let run = |out: &str, inp: &str| -> Result<Vec<u8>, String> {
        let o = std::process::Command::new(&bin).arg("convert").arg("-o").arg(p(out)).arg(p(inp)).output().map_err(|e| e.to_string())?;
        if !o.status.success() {
            return Err(format!("adlt convert exit {:?}: {}", o.status.code(), String::from_utf8_lossy(&o.stderr)));
        }
        std::fs::read(p(out)).map_err(|e| e.to_string())
    };
    Some((|| {
        let a = run("a.dlt", "in.dlt")?;
        if a == data && !always_second {
            return Ok((a.clone(), a, false));
        }
        let b = run("b.dlt", "a.dlt")?;
        Ok((a, b, true))
    })())
}
/// the binary runs of many files, in parallel (process spawns only; nothing of the adlt crate runs in these threads)
fn convert_exports(inputs: &[Vec<u8>]) -> Vec<BinExport> {
    let next = std::sync::atomic::AtomicUsize::new(0);
    let out: std::sync::Mutex<Vec<Option<BinExport>>> = std::sync::Mutex::new(inputs.iter().map(|_| None).collect());
    let nthreads = std::thread::available_parallelism().map(|n| n.get()).unwrap_or(4).clamp(2, 8);
    std::thread::scope(|sc| {
        for _ in 0..nthreads {
            sc.spawn(|| loop {
                let k = next.fetch_add(1, std::sync::atomic::Ordering::SeqCst);
                if k >= inputs.len() {
                    break;
                }
                let r = convert_export(&inputs[k], k % 4 == 0);
                out.lock().unwrap()[k] = Some(r);
            });
        }
    });
    out.into_inner().unwrap().into_iter().map(|x| x.unwrap()).collect()
}
fn export_input(specs: &[MSpec]) -> Result<Vec<u8>, String> {
    let built: Vec<DltMessage> = specs.iter().enumerate().map(|(i, s)| s.build(i as u32)).collect();
    write_all(&built)
}

fn record_stream(sink: &mut Sink, start: u32, segs: Segs, extra: &[&str]) {
    let data = flatten(&segs);
    let fail = |c: &str, d: String| Verdict::Fail { clause: c.into(), detail: d };
    let mut verdict = Verdict::Ok;
    let mut tags: Vec<String> = extra.iter().map(|s| s.to_string()).collect();
    tags.push("stream".into());
    let mut nontrivial = false;
    let r1 = read_all(start, &data);
    let obs = match &r1 {
        Err(_) => {
            tags.push("read_panic".into());
            O::T(vec![O::L(1)])
        }
        Ok(r1) => {
            let in_domain = r1.micros_ok;
            tags.push(if in_domain { "in_domain".into() } else { "micros_ge_1e6".into() });
            tags.push(format!("msgs{}", r1.msgs.len().min(9)));
            let items1: Vec<O> = r1.msgs.iter().map(|m| o_item(&item_of(m))).collect();
            match write_all_w(&r1.msgs) {
                Err(e) => {
                    tags.push("write_panic".into());
                    if in_domain {
                        verdict = fail("write_ok", e);
                    }
                    O::T(vec![O::L(2), O::T(items1)])
                }
                Ok(W::IoErr(p, e)) => {
                    tags.push("write_io_err".into());
                    if in_domain {
                        verdict = fail("write_ok", format!("to_write returned Err: {}", e));
                    }
                    O::T(vec![O::L(4), O::T(items1), o_wbytes(&p)])
                }
                Ok(W::Ok(b1)) => match read_all(start, &b1) {
                    Err(_) => O::T(vec![O::L(3)]),
                    Ok(r2) => {
                        let b2 = write_all(&r2.msgs);
                        let same = match &b2 {
                            Ok(b2) => O::b(*b2 == b1),
                            Err(_) => O::L(2),
                        };
                        if in_domain {
                            // the property, checked directly
                            if r2.msgs.len() != r1.msgs.len() {
                                verdict = fail("every_message_in_order", format!("{} written, {} read back", r1.msgs.len(), r2.msgs.len()));
                            } else if r2.skipped != 0 || r2.processed != b1.len() || r2.rest != 0 {
                                verdict = fail("consumes_exactly_the_bytes_written", format!("skipped {} processed {} of {} rest {}", r2.skipped, r2.processed, b1.len(), r2.rest));
                            } else if let Some((k, e)) = r1.msgs.iter().zip(r2.msgs.iter()).enumerate().find_map(|(k, (a, b))| same_fields(a, b).err().map(|e| (k, e))) {
                                verdict = fail("same_fields", format!("message {}: {}", k, e));
                            } else if let Some(k) = r2.msgs.iter().enumerate().find(|(k, m)| m.index != start.wrapping_add(*k as u32)).map(|x| x.0) {
                                verdict = fail("same_order", format!("message {} has index {}", k, r2.msgs[k].index));
                            } else if !matches!(&b2, Ok(b2) if *b2 == b1) {
                                verdict = fail("write_normal_form", "the second export differs from the first".into());
                            } else {
                                // message by message: parse(to_write(m)) consumes exactly what was written
                                for (k, m) in r1.msgs.iter().enumerate() {
                                    let mut v = vec![];
                                    m.to_write(&mut v).unwrap();
                                    match parse_dlt_with_storage_header(77, &v) {
                                        Ok((n, m2)) => {
                                            if n != v.len() {
                                                verdict = fail("consumes_exactly_the_bytes_written", format!("message {}: {} of {}", k, n, v.len()));
                                            } else if let Err(e) = same_fields(m, &m2) {
                                                verdict = fail("same_fields", format!("message {} alone: {}", k, e));
                                            } else {
                                                let mut v2 = vec![];
                                                m2.to_write(&mut v2).unwrap();
                                                if v2 != v {
                                                    verdict = fail("write_normal_form", format!("message {} alone", k));
                                                }
                                            }
                                        }
                                        Err(e) => verdict = fail("reparse", format!("message {}: {}", k, e)),
                                    }
                                }
                            }
                        }
                        if in_domain && matches!(verdict, Verdict::Ok) && extra.contains(&"e2e") && start == 0 {
                            // the `-o` path of the binary: same bytes as to_write of every message, and a fixed point
                            match convert_twice(&data) {
                                None => tags.push("e2e_skipped_no_binary".into()),
                                Some(Err(e)) => verdict = fail("convert_o_runs", e),
                                Some(Ok((fa, fb))) => {
                                    tags.push("e2e_convert_twice".into());
                                    if fa != b1 {
                                        verdict = fail("convert_o_writes_every_message_with_to_write", format!("file has {} bytes, to_write of the {} messages {}{}", fa.len(), r1.msgs.len(), b1.len(), derived_note(&data, 0)));
                                    } else if fb != fa {
                                        verdict = fail("export_of_export_identical", format!("{} vs {} bytes{}", fa.len(), fb.len(), derived_note(&data, 0)));
                                    }
                                }
                            }
                        }
                        nontrivial = in_domain && r1.msgs.len() >= 2 && b1 != data;
                        if b1 != data {
                            tags.push("rewritten_differs_from_input".into());
                        }
                        O::T(vec![
                            O::L(0),
                            O::T(items1),
                            o_wbytes(&b1),
                            O::T(r2.msgs.iter().map(|m| o_item(&item_of(m))).collect()),
                            O::T(vec![O::n(r2.index), O::n(r2.processed as u64), O::n(r2.skipped as u64), O::b(r2.det_storage), O::b(r2.det_serial)]),
                            O::n(r2.rest as u64),
                            same,
                        ])
                    }
                },
            }
        }
    };
    let input_coq = format!("(CStream {} {})", start, coq_segs(&segs));
    let id = sink.next_id();
    sink.push(Case { id, key: input_coq.clone(), input_coq, input_json: json!({"kind": "stream", "start": start, "segs": segs}), obs, verdict, classes: vec![], tags, nontrivial });
}


// ------------------------------------------------------------------ family 3: export of files with a lifecycle history
/// the stages of an unfiltered, unsorted `adlt convert -o` run in this process: reader (iterator, indices from 0, over a
/// LowMarkBufReader wired as in convert.rs: 512 KiB capacity, low mark DLT_MAX_STORAGE_MSG_SIZE + 4) ->
/// lifecycle stage (every message goes through parse_lifecycles_buffered_from_stream) -> to_write per message delivered
fn lib_export(data: &[u8]) -> Result<Vec<u8>, String> {
    let data = data.to_vec();
    catch_loc(move || {
        let rd = adlt::utils::LowMarkBufReader::new(Cursor::new(data), 512 * 1024, adlt::dlt::DLT_MAX_STORAGE_MSG_SIZE + 4);
        let it = DltMessageIterator::new(0, rd);
        let (tx, rx) = std::sync::mpsc::channel();
        for m in it {
            tx.send(m).unwrap();
        }
        drop(tx);
        let (_lcs_r, lcs_w) = evmap::new::<LifecycleId, LifecycleItem>();
        let out = std::cell::RefCell::new(Vec::<u8>::new());
        let _w = adlt::lifecycle::parse_lifecycles_buffered_from_stream(lcs_w, rx, &|m: DltMessage| {
            m.to_write(&mut *out.borrow_mut()).expect("to_write into a Vec");
            Ok(())
        });
        out.into_inner()
    })
}

/// the frames of a file that the iterator read without skipping anything
fn frames_of<'a>(data: &'a [u8], r: &Read) -> Vec<&'a [u8]> {
    let mut off = 0usize;
    let mut v = vec![];
    for m in &r.msgs {
        let n = 16 + m.standard_header.len as usize;
        v.push(&data[off.min(data.len())..(off + n).min(data.len())]);
        off += n;
    }
    v
}

/// the export clause, stated on the files: `a` = export of `inp`, `b` = export of `a`
fn check_export(inp: &[u8], r0: &Read, a: &[u8], b: &[u8]) -> Result<(), (String, String)> {
    let e = |c: &str, d: String| Err((c.to_string(), d));
    let ra = match read_all(0, a) {
        Ok(r) => r,
        Err(p) => return e("export_readable", p),
    };
    if ra.skipped != 0 || ra.rest != 0 || ra.processed != a.len() {
        return e("export_is_a_sequence_of_messages", format!("skipped {} processed {} of {} rest {}", ra.skipped, ra.processed, a.len(), ra.rest));
    }
    let want = frames_of(inp, r0);
    let got = frames_of(a, &ra);
    // position in the input of every frame of the export (first unused identical frame)
    let mut used = vec![false; want.len()];
    let order: Vec<i64> = got
        .iter()
        .enumerate()
        .map(|(i, g)| match (if i < want.len() && !used[i] && want[i] == *g { Some(i) } else { None }).or_else(|| (0..want.len()).find(|k| !used[*k] && want[*k] == *g)) {
            Some(k) => {
                used[k] = true;
                k as i64
            }
            None => -1,
        })
        .collect();
    if got.len() != want.len() || used.iter().any(|u| !u) {
        let missing: Vec<usize> = (0..want.len()).filter(|k| !used[*k]).collect();
        if order.iter().all(|k| *k >= 0) || got.len() != want.len() {
            return e("every_message", format!("{} messages in the input, {} in the export; input positions not (identically) in the export: {:?}", want.len(), got.len(), missing));
        }
    }
    if let Some(k) = (0..got.len()).find(|k| order[*k] != *k as i64) {
        if order.iter().all(|k| *k >= 0) {
            return e("same_order", format!("export position {} holds input message {}; input positions in export order: {:?}", k, order[k], order));
        }
        // not a permutation: some frame differs
        if let Err(f) = same_fields(&r0.msgs[k], &ra.msgs[k]) {
            return e("same_fields", format!("message {}: {}", k, f));
        }
        return e("frames_byte_identical", format!("message {}: frame differs from the input frame", k));
    }
    for (k, (x, y)) in r0.msgs.iter().zip(ra.msgs.iter()).enumerate() {
        if let Err(f) = same_fields(x, y) {
            return e("same_fields", format!("message {}: {}", k, f));
        }
        if y.index != k as u32 {
            return e("same_order", format!("message {} has index {}", k, y.index));
        }
    }
    if b != a {
        return e("export_of_export_identical", format!("{} vs {} bytes, first difference at {:?}", a.len(), b.len(), a.iter().zip(b.iter()).position(|(x, y)| x != y)));
    }
    Ok(())
}

fn o_file(l: &[u8]) -> O {
    O::T(vec![O::n(l.len() as u64), O::n(g::cksum(l))])
}

fn record_exports(sink: &mut Sink, cases: Vec<(Vec<MSpec>, Vec<String>)>, bigs: Vec<(u64, Runs, Vec<String>)>) {
    let mut inputs: Vec<Vec<u8>> = cases.iter().map(|c| export_input(&c.0).unwrap_or_default()).collect();
    inputs.extend(bigs.iter().map(|b| runs_bytes(b.0, &b.1).unwrap_or_default()));
    let mut bins = convert_exports(&inputs);
    let mut big_bins = bins.split_off(cases.len());
    // the large files are spread over the shards
    let stride = (cases.len() / bigs.len().max(1)).max(1);
    let mut bigs = bigs.into_iter().zip(big_bins.drain(..));
    for (k, ((specs, tags), bin)) in cases.into_iter().zip(bins.into_iter()).enumerate() {
        let t: Vec<&str> = tags.iter().map(|s| s.as_str()).collect();
        record_export(sink, specs, &t, Some(bin));
        if k % stride == stride - 1 {
            if let Some(((t0, runs, tags), bin)) = bigs.next() {
                record_export_big(sink, t0, runs, tags, Some(bin));
            }
        }
    }
    for ((t0, runs, tags), bin) in bigs {
        record_export_big(sink, t0, runs, tags, Some(bin));
    }
}

// ------------------------------------------------------------------ family 3, large files (70 KB .. 1.5 MB), described run-length
/// (count, frame size in bytes, with timestamp): count consecutive messages of that size.  Message i (numbered through the
/// file) of ECU1: received at t0 + i s, timestamp i s, mcnt = i mod 256, payload = LE32 of i (cut to the payload length)
/// followed by 0x5a bytes.  Frame = 16 (storage header) + 4 (standard header) [+ 4 timestamp] + payload.
type Runs = Vec<(u64, u64, bool)>;
const LOW_MARK: u64 = 65551 + 4;
const BUF_CAP: u64 = 512 * 1024;

fn runs_total(runs: &Runs) -> u64 {
    runs.iter().map(|r| r.0 * r.1).sum()
}
fn runs_bytes(t0: u64, runs: &Runs) -> Result<Vec<u8>, String> {
    let runs = runs.clone();
    catch_loc(move || {
        let mut v: Vec<u8> = Vec::with_capacity(runs_total(&runs) as usize);
        let mut i: u64 = 0;
        for (c, size, ts) in runs.iter() {
            let p = (*size - if *ts { 24 } else { 20 }) as usize;
            for _ in 0..*c {
                let mut payload = (i as u32).to_le_bytes().to_vec();
                payload.resize(p.max(4), 0x5a);
                payload.truncate(p);
                let m = DltMessage {
                    index: i as u32,
                    reception_time_us: t0 + i * 1_000_000,
                    ecu: DltChar4::from_buf(b"ECU1"),
                    timestamp_dms: if *ts { (i * 10_000) as u32 } else { 0 },
                    standard_header: DltStandardHeader { htyp: if *ts { 0x30 } else { 0x20 }, mcnt: (i & 0xff) as u8, len: 0 },
                    extended_header: None,
                    payload,
                    payload_text: None,
                    lifecycle: 0,
                };
                m.to_write(&mut v).expect("to_write into a Vec");
                i += 1;
            }
        }
        v
    })
}

/// the refill points of LowMarkBufReader(512 KiB, 65555) under the iterator for this layout (source returns full reads):
/// number of unconsumed bytes at every compaction -- for the distribution statistics only
fn compaction_remainders(runs: &Runs) -> Vec<u64> {
    let total = runs_total(runs);
    let mut fed = 0u64; // bytes of the file read so far
    let (mut pos, mut cap) = (0u64, 0u64);
    let mut eof = false;
    let mut rems = vec![];
    let mut fill = |pos: &mut u64, cap: &mut u64, fed: &mut u64, eof: &mut bool, rems: &mut Vec<u64>| {
        while !*eof && *cap - *pos < LOW_MARK {
            if *pos >= 4096 {
                let rem = *cap - *pos;
                rems.push(rem);
                let off = (4096 - rem % 4096) % 4096;
                *cap = rem + off;
                *pos = off;
            }
            let room = BUF_CAP - *cap;
            let read = room.min(total - *fed);
            if read == 0 {
                *eof = true;
            } else {
                *cap += read;
                *fed += read;
                if read == room {
                    break;
                }
            }
        }
    };
    for (c, size, _) in runs.iter() {
        for _ in 0..*c {
            fill(&mut pos, &mut cap, &mut fed, &mut eof, &mut rems);
            pos = (pos + size).min(cap);
        }
    }
    fill(&mut pos, &mut cap, &mut fed, &mut eof, &mut rems);
    rems
}

fn o_bigfile(l: &[u8]) -> O {
    O::T(vec![O::n(l.len() as u64), O::L(g::cksum2(l))])
}

fn record_export_big(sink: &mut Sink, t0: u64, runs: Runs, extra: Vec<String>, bin: Option<BinExport>) {
    let fail = |c: String, d: String| Verdict::Fail { clause: c, detail: d };
    let mut verdict = Verdict::Ok;
    let mut tags = extra;
    tags.push("export".into());
    tags.push("export_big".into());
    let nmsgs: u64 = runs.iter().map(|r| r.0).sum();
    let rems = compaction_remainders(&runs);
    tags.push(format!("big_compactions{}", rems.len().min(4)));
    if rems.iter().any(|r| r % 4096 == 0) {
        tags.push("big_compaction_remainder_multiple_of_4096".into());
    }
    if rems.iter().any(|r| r % 4096 == 1 || r % 4096 == 4095) {
        tags.push("big_compaction_remainder_next_to_multiple_of_4096".into());
    }
    let obs = match runs_bytes(t0, &runs) {
        Err(e) => {
            verdict = fail("write_ok".into(), e);
            O::T(vec![O::L(7)])
        }
        Ok(inp) => {
            tags.push(format!("big_kb{}", match inp.len() / 1024 { 0..=63 => "<64", 64..=127 => "<128", 128..=511 => "<512", 512..=1023 => "<1024", _ => ">=1024" }));
            match read_all(0, &inp) {
                Err(e) => {
                    verdict = fail("input_readable".into(), e);
                    O::T(vec![O::L(9), o_bigfile(&inp)])
                }
                Ok(r0) => {
                    if r0.msgs.len() as u64 != nmsgs || r0.skipped != 0 || r0.rest != 0 {
                        verdict = fail("input_is_the_messages_written".into(), format!("{} messages written, {} read, skipped {}", nmsgs, r0.msgs.len(), r0.skipped));
                    }
                    let lib = lib_export(&inp).and_then(|a| if a == inp { Ok((a.clone(), a)) } else { lib_export(&a).map(|b| (a, b)) });
                    let bin: Option<Result<(Vec<u8>, Vec<u8>), String>> = match bin.unwrap_or_else(|| convert_export(&inp, true)) {
                        None => {
                            tags.push("e2e_skipped_no_binary".into());
                            None
                        }
                        Some(r) => {
                            tags.push(match &r {
                                Ok((_, _, true)) => "e2e_convert_twice".into(),
                                Ok((_, _, false)) => "e2e_convert_once_export_identical_to_input".into(),
                                Err(_) => "e2e_convert_failed".into(),
                            });
                            Some(r.map(|(a, b, _)| (a, b)))
                        }
                    };
                    if matches!(verdict, Verdict::Ok) {
                        match &bin {
                            Some(Err(e)) => verdict = fail("convert_o_runs".into(), e.clone()),
                            Some(Ok((a, b))) => {
                                if a.len() != inp.len() {
                                    verdict = fail("convert_o_sizes_equal".into(), format!("input {} bytes, export {} bytes", inp.len(), a.len()));
                                }
                                if let Err((c, d)) = check_export(&inp, &r0, a, b) {
                                    verdict = fail(format!("convert_o_{}", c), d.chars().take(600).collect::<String>() + &derived_note(&inp, 2));
                                }
                            }
                            None => {}
                        }
                    }
                    if matches!(verdict, Verdict::Ok) {
                        match &lib {
                            Err(e) => verdict = fail("pipeline_stages_run".into(), e.clone()),
                            Ok((a, b)) => {
                                if let Err((c, d)) = check_export(&inp, &r0, a, b) {
                                    verdict = fail(format!("pipeline_stages_{}", c), d.chars().take(600).collect());
                                }
                            }
                        }
                    }
                    let files: Result<(Vec<u8>, Vec<u8>), String> = match bin {
                        Some(r) => r,
                        None => lib,
                    };
                    match files {
                        Err(_) => O::T(vec![O::L(9), o_bigfile(&inp)]),
                        Ok((a, b)) => {
                            let order = match read_all(0, &a) {
                                Ok(ra) => O::T(vec![O::n(ra.msgs.len() as u64), O::b(ra.msgs.iter().enumerate().all(|(i, m)| m.mcnt() == (i & 0xff) as u8)), O::n(ra.rest as u64)]),
                                Err(_) => O::L(1),
                            };
                            O::T(vec![O::L(8), o_bigfile(&inp), o_bigfile(&a), order, O::b(a == b)])
                        }
                    }
                }
            }
        }
    };
    let nontrivial = runs_total(&runs) >= LOW_MARK + 4096;
    let input_coq = format!("(CExportRuns {} {})", t0, clist(&runs.iter().map(|r| format!("({}, {}, {})", r.0, r.1, cbool(r.2))).collect::<Vec<_>>()));
    let id = sink.next_id();
    sink.push(Case { id, key: input_coq.clone(), input_coq, input_json: json!({"kind": "export_runs", "t0": t0, "runs": runs.iter().map(|r| json!([r.0, r.1, r.2])).collect::<Vec<_>>()}), obs, verdict, classes: vec![], tags, nontrivial });
}

fn push_run(runs: &mut Runs, c: u64, size: u64) {
    if c == 0 {
        return;
    }
    let ts = size >= 24;
    if let Some(l) = runs.last_mut() {
        if l.1 == size && l.2 == ts {
            l.0 += c;
            return;
        }
    }
    runs.push((c, size, ts));
}
/// messages of mixed sizes (blocks of equal messages and single ones) adding up to exactly `total` bytes (0 or >= 20)
fn fill_blocks(rng: &mut Rng, runs: &mut Runs, total: u64, max_size: u64) {
    let mut rem = total;
    while rem > 0 {
        assert!(rem >= 20);
        let mut s = match rng.below(10) {
            0 => rng.range(20, 23),
            1 => *rng.pick(&[32u64, 64, 128, 256, 512, 1024, 2048, 4096]),
            2 => rng.range(300, 5000),
            3 => rng.range(24, max_size.max(24)),
            _ => rng.range(24, 300),
        }
        .min(max_size.max(20))
        .min(65551);
        let mut c = if rng.chance(1, 2) { 1 } else { rng.range(2, 400) };
        if s + 20 > rem {
            // the last message takes what is left (at most one maximum-sized frame)
            s = rem;
            c = 1;
            if s > 65551 {
                s = rem - 40;
                if s > 65551 {
                    s = 65551;
                }
            }
        } else {
            c = c.min((rem - 20) / s).max(1);
            if rem - c * s != 0 && rem - c * s < 20 {
                c -= 1;
                if c == 0 {
                    s = rem;
                    c = 1;
                }
            }
        }
        push_run(runs, c, s);
        rem -= c * s;
    }
}

/// layouts that sweep the refill arithmetic of the reader `adlt convert` reads files through
fn gen_big_layouts(rng: &mut Rng, scale: u64) -> Vec<(u64, Runs, Vec<String>)> {
    let mut out: Vec<(u64, Runs, Vec<String>)> = vec![];
    let t = |l: &[&str]| -> Vec<String> { l.iter().map(|s| s.to_string()).collect() };
    let t0 = |rng: &mut Rng| lcgen::RHO + rng.below(2_000_000) * 1_000_000 + rng.below(1_000_000);
    let pow2 = [32u64, 64, 128, 256, 512, 1024, 2048, 4096];
    for _ in 0..scale {
        // A: uniform sizes: two powers of two, two neighbours, one other size
        let mut sizes: Vec<(u64, &str)> = vec![];
        let i = rng.below(pow2.len() as u64) as usize;
        let j = (i + 1 + rng.below(pow2.len() as u64 - 1) as usize) % pow2.len();
        sizes.push((pow2[i], "big_uniform_pow2"));
        sizes.push((pow2[j], "big_uniform_pow2"));
        sizes.push((*rng.pick(&pow2) + 1, "big_uniform_pow2_neighbour"));
        sizes.push((*rng.pick(&pow2) - 1, "big_uniform_pow2_neighbour"));
        sizes.push((*rng.pick(&[20u64, 21, 24, 40, 48, 100, 1000, 3000, 8192, 16384, 20000]), "big_uniform_other"));
        for (s, tag) in sizes {
            let total = rng.range(LOW_MARK + 4096 + 1, 200_000);
            let mut runs = vec![];
            push_run(&mut runs, (total + s - 1) / s, s);
            out.push((t0(rng), runs, t(&[tag])));
        }
        // B: a message boundary exactly k*4096 (+-1) bytes before the end of the first buffer fill (= the end of the file)
        let mut ks: Vec<u64> = (1..=16).collect();
        for d in [0i64, 0, 1, -1] {
            let k = ks.remove(rng.below(ks.len() as u64) as usize);
            let tail = (k * 4096) as i64 + d;
            let tail = tail as u64;
            let m = (LOW_MARK - tail.min(LOW_MARK) + rng.below(200)).clamp(24, 65551);
            let mut runs = vec![];
            let tot = rng.range(4096, 60_000);
            fill_blocks(rng, &mut runs, tot, 2000);
            push_run(&mut runs, 1, m);
            fill_blocks(rng, &mut runs, tail, 3000);
            out.push((t0(rng), runs, vec!["big_tail_first_fill".to_string(), format!("big_tail_delta{}", d)]));
        }
        // C: the same before the end of the first 512 KiB (second fill follows), file of 0.6 .. 1.4 MB
        for d in [0i64, if rng.chance(1, 2) { 1 } else { -1 }] {
            let k = rng.range(1, 16);
            let tail = ((k * 4096) as i64 + d) as u64;
            let m = (LOW_MARK - tail.min(LOW_MARK) + rng.below(200)).clamp(24, 65551);
            let b = BUF_CAP - tail;
            let mut runs = vec![];
            fill_blocks(rng, &mut runs, b - m, 1500);
            push_run(&mut runs, 1, m);
            let rest = tail + if d == 0 { rng.range(40_000, 150_000) } else { rng.range(100_000, 850_000) };
            fill_blocks(rng, &mut runs, rest, 1500);
            out.push((t0(rng), runs, vec!["big_tail_second_fill".to_string(), format!("big_tail_delta{}", d)]));
        }
        // D: files of exactly the low mark +- a few bytes, and one cache line more
        for base in [LOW_MARK, LOW_MARK, LOW_MARK + 4096] {
            let total = (base as i64 + rng.range(0, 12) as i64 - 6) as u64;
            let mut runs = vec![];
            fill_blocks(rng, &mut runs, total, 2000);
            out.push((t0(rng), runs, t(&["big_around_low_mark"])));
        }
        // E: a few near-maximum messages between small ones
        {
            let mut runs = vec![];
            for _ in 0..rng.range(3, 6) {
                let tot = rng.range(20, 9000);
                fill_blocks(rng, &mut runs, tot, 500);
                push_run(&mut runs, rng.range(1, 2), 65551 - rng.below(3) * rng.below(40));
            }
            let tot = rng.range(20, 9000);
            fill_blocks(rng, &mut runs, tot, 500);
            out.push((t0(rng), runs, t(&["big_near_max_messages"])));
        }
        // F: mixed sizes
        for _ in 0..2 {
            let mut runs = vec![];
            let tot = rng.range(70_000, 400_000);
            fill_blocks(rng, &mut runs, tot, 6000);
            out.push((t0(rng), runs, t(&["big_mixed"])));
        }
    }
    out
}

fn record_export(sink: &mut Sink, specs: Vec<MSpec>, extra: &[&str], bin: Option<BinExport>) {
    let fail = |c: String, d: String| Verdict::Fail { clause: c, detail: d };
    let mut verdict = Verdict::Ok;
    let mut tags: Vec<String> = extra.iter().map(|s| s.to_string()).collect();
    tags.push("export".into());
    let built: Vec<DltMessage> = specs.iter().enumerate().map(|(i, s)| s.build(i as u32)).collect();
    let mut nontrivial = false;
    let obs = match write_all(&built) {
        Err(e) => {
            verdict = fail("write_ok".into(), e);
            O::T(vec![O::L(7)])
        }
        Ok(inp) => {
            // the lifecycle history of the file, for the distribution statistics (a run of the real detector)
            let det = lcgen::run_detector(&[], &specs, false);
            let (lt, _) = lcgen::lc_tags(&[], &specs, &det);
            let merged = lt.iter().any(|t| t == "merge");
            for t in lt {
                tags.push(format!("lc_{}", t));
            }
            tags.push(format!("lc_lifecycles{}", det.table.len().min(6)));
            if specs.iter().any(|m| !m.has_ts) {
                tags.push("lc_no_timestamp".into());
            }
            if specs.iter().any(|m| m.kind >= 2) {
                tags.push("lc_ctrl_response".into());
            }
            nontrivial = specs.len() >= 3 && (merged || det.table.len() >= 2);
            match read_all(0, &inp) {
                Err(e) => {
                    verdict = fail("input_readable".into(), e);
                    O::T(vec![O::L(6), o_file(&inp)])
                }
                Ok(r0) => {
                    if r0.msgs.len() != built.len() || r0.skipped != 0 || r0.rest != 0 {
                        verdict = fail("input_is_the_messages_written".into(), format!("{} messages written, {} read, skipped {}", built.len(), r0.msgs.len(), r0.skipped));
                    } else if let Some((k, e)) = built.iter().zip(r0.msgs.iter()).enumerate().find_map(|(k, (x, y))| same_fields(x, y).err().map(|e| (k, e))) {
                        // (MSpec never sets a timestamp without the flag unless the generator says so: compare only what is written)
                        if !(e == "timestamp" && !built[k].standard_header.has_timestamp()) {
                            verdict = fail("same_fields".into(), format!("input message {}: {}", k, e));
                        }
                    }
                    let lib = lib_export(&inp).and_then(|a| lib_export(&a).map(|b| (a, b)));
                    let bin: Option<Result<(Vec<u8>, Vec<u8>), String>> = match bin.unwrap_or_else(|| convert_export(&inp, true)) {
                        None => {
                            tags.push("e2e_skipped_no_binary".into());
                            None
                        }
                        Some(r) => {
                            tags.push(match &r {
                                Ok((_, _, true)) => "e2e_convert_twice".into(),
                                Ok((_, _, false)) => "e2e_convert_once_export_identical_to_input".into(),
                                Err(_) => "e2e_convert_failed".into(),
                            });
                            Some(r.map(|(a, b, _)| (a, b)))
                        }
                    };
                    // the clause on both: the binary first (it is the property's observation point)
                    if matches!(verdict, Verdict::Ok) {
                        match &bin {
                            Some(Err(e)) => verdict = fail("convert_o_runs".into(), e.clone()),
                            Some(Ok((a, b))) => {
                                if let Err((c, d)) = check_export(&inp, &r0, a, b) {
                                    verdict = fail(format!("convert_o_{}", c), d + &derived_note(&inp, 2));
                                }
                            }
                            None => {}
                        }
                    }
                    if matches!(verdict, Verdict::Ok) {
                        match &lib {
                            Err(e) => verdict = fail("pipeline_stages_run".into(), e.clone()),
                            Ok((a, b)) => {
                                if let Err((c, d)) = check_export(&inp, &r0, a, b) {
                                    verdict = fail(format!("pipeline_stages_{}", c), d);
                                }
                            }
                        }
                    }
                    // observation: the binary's files when there is a binary, else those of the stages run here
                    let files: Result<(Vec<u8>, Vec<u8>), String> = match bin {
                        Some(r) => r,
                        None => lib,
                    };
                    match files {
                        Err(_) => O::T(vec![O::L(6), o_file(&inp)]),
                        Ok((a, b)) => {
                            let order = match read_all(0, &a) {
                                Ok(ra) => O::T(vec![O::T(ra.msgs.iter().map(|m| O::n(m.mcnt())).collect()), O::n(ra.rest as u64)]),
                                Err(_) => O::L(1),
                            };
                            O::T(vec![O::L(5), o_file(&inp), o_file(&a), order, O::b(a == b)])
                        }
                    }
                }
            }
        }
    };
    let input_coq = format!("(CExport {})", clist(&specs.iter().map(|s| format!("({}, {}, {}, {}, {})", s.ecu, s.rt, s.ts_dms, cbool(s.has_ts), s.kind)).collect::<Vec<_>>()));
    let id = sink.next_id();
    sink.push(Case { id, key: input_coq.clone(), input_coq, input_json: json!({"kind": "export", "specs": specs.iter().map(|m| m.json()).collect::<Vec<_>>()}), obs, verdict, classes: vec![], tags, nontrivial });
}

/// One ECU "A" with a lifecycle A1 that is confirmed by its timestamp span (> 60 s); then k messages that look like a new boot
/// (small timestamp, calculated start after the end of A1: a tentative lifecycle, buffered); then a late message with a
/// large timestamp that moves the tentative start back into A1 (merge into the published predecessor; when no other
/// lifecycle is buffered the queue is flushed in front of the late message); regular messages afterwards; optionally a
/// second round.  0..2 other ECUs whose lifecycles are confirmed early, still buffered at that moment, or start late.
/// Boundaries varied: k = 0..4, moves around the 60 s limit, starts around the 2 s "slightly overlapping" window, streams
/// ending while the tentative lifecycle is still buffered or right after the merge, messages without timestamp, control
/// messages, reception steps below and above the once-per-second confirmation check.
fn gen_merge_back(rng: &mut Rng) -> (Vec<MSpec>, u64) {
    let s = 1_000_000u64;
    let t0 = lcgen::RHO + rng.below(3_000_000) * s + rng.below(s);
    let a = rng.range(1, 4) as u8;
    let mut tl: Vec<MSpec> = vec![]; // merged by reception time at the end (stable)
    let dms = |us: u64| (us / 100).min(u32::MAX as u64) as u32;
    // ---- A1
    let boot = t0;
    let n1 = match rng.below(4) {
        0 => 2,
        1 => rng.range(3, 6),
        _ => rng.range(7, 30),
    };
    let span = match rng.below(8) {
        0 => rng.range(20, 59) * s, // not confirmed by its span
        _ => rng.range(61, 90) * s + rng.below(s),
    };
    let ts1 = rng.range(0, 3) * s + rng.below(s) / 100 * 100;
    let mut max_ts = 0u64;
    for k in 0..n1 {
        let ts = (ts1 + span * k / (n1 - 1) + if k > 0 && k + 1 < n1 { rng.below(400_000) } else { 0 }) / 100 * 100;
        max_ts = max_ts.max(ts);
        let delay = if rng.chance(1, 6) { rng.below(200_000) } else { 0 };
        tl.push(MSpec { ecu: a, rt: boot + ts + delay, ts_dms: dms(ts), has_ts: true, kind: if rng.chance(1, 25) { 1 } else { 0 } });
    }
    let mut a_end = boot + max_ts;
    let mut now = tl.iter().map(|m| m.rt).max().unwrap();
    let mut k_first = 0u64;
    let rounds = if rng.chance(1, 3) { 2 } else { 1 };
    let mut stop = false;
    for round in 0..rounds {
        // ---- tentative lifecycle: k messages
        let k = *rng.pick(&[0u64, 1, 1, 1, 1, 2, 2, 3, 3, 4]);
        if round == 0 {
            k_first = k;
        }
        let gap = match rng.below(4) {
            0 => rng.range(50_000, 2 * s),
            1 => rng.range(40 * s, 58 * s),
            _ => rng.range(2 * s, 40 * s),
        };
        let ts0 = match rng.below(4) {
            0 => 0,
            1 => rng.range(1, 50) * 100,
            _ => rng.range(s / 10, 3 * s) / 100 * 100,
        };
        let step = if rng.chance(1, 3) { rng.range(1_100_000, 2_500_000) } else { rng.range(1_000, 400_000) };
        let tent_start = a_end + gap;
        let mut rt = tent_start + ts0;
        rt = rt.max(now + 1);
        let tent_start = rt - ts0;
        for j in 0..k {
            let ts = ts0 + j * step / 100 * 100;
            tl.push(MSpec { ecu: a, rt: tent_start + ts, ts_dms: dms(ts), has_ts: true, kind: 0 });
            now = tent_start + ts;
        }
        if k > 0 && rng.chance(1, 8) {
            stop = true; // the stream ends while the tentative lifecycle is still buffered
            break;
        }
        // ---- the late message: calculated start d before the end of A1
        now += rng.range(200_000, 3 * s);
        let room = (60 * s).saturating_sub(tent_start - a_end);
        let d = match rng.below(10) {
            0 => rng.range(0, 2 * s),                       // inside the "slightly overlapping" window: no merge
            1 => room + rng.range(1, 20 * s),               // moves the start by more than 60 s
            2 => room.saturating_sub(rng.below(1000)).max(2 * s + 1),
            _ => rng.range(2 * s + 1, room.max(2 * s + 2)),
        };
        let target = a_end.saturating_sub(d).max(boot.saturating_sub(50 * s));
        let ts = (now - target) / 100 * 100;
        tl.push(MSpec { ecu: a, rt: now, ts_dms: dms(ts), has_ts: true, kind: 0 });
        a_end = a_end.max(target + ts);
        if rng.chance(1, 6) {
            stop = true; // the stream ends right after the merge
            break;
        }
        // ---- regular messages of A afterwards
        for _ in 0..rng.below(7) {
            now += if rng.chance(1, 4) { rng.range(1_100_000, 2_500_000) } else { rng.range(100_000, 900_000) };
            let (ts, has_ts, kind) = match rng.below(12) {
                0 => (0, false, 0),
                1 => (now - boot, true, 1),
                2 => (now - boot, true, 2),
                3 => (now - boot, true, 3),
                _ => ((now - boot - rng.below(100_000)) / 100 * 100, true, 0),
            };
            if has_ts {
                a_end = a_end.max(boot + ts);
            }
            tl.push(MSpec { ecu: a, rt: now, ts_dms: dms(ts), has_ts, kind });
        }
    }
    let end = now;
    // ---- other ECUs
    let necu = *rng.pick(&[0u64, 0, 1, 1, 2]);
    for j in 0..necu {
        let b = ((a as u64 - 1 + 1 + j) % 4 + 1) as u8;
        let bboot = t0 - rng.below(20 * s);
        match rng.below(3) {
            0 => {
                // confirmed early by its span, a few messages spread over the whole trace
                let n = rng.range(2, 8);
                let sp = (end - t0).max(62 * s);
                for k in 0..n {
                    let ts = (rng.range(0, 2) * s + sp * k / (n - 1)) / 100 * 100;
                    tl.push(MSpec { ecu: b, rt: bboot + ts + 20 * s, ts_dms: dms(ts + 20 * s), has_ts: true, kind: 0 });
                }
            }
            1 => {
                // a young lifecycle (span < 60 s) that is still buffered around the merge
                let n = rng.range(1, 5);
                let from = end.saturating_sub(rng.range(5, 45) * s).max(t0);
                for k in 0..n {
                    let ts = (s + k * rng.range(100_000, 3 * s)) / 100 * 100;
                    tl.push(MSpec { ecu: b, rt: from + ts, ts_dms: dms(ts), has_ts: true, kind: 0 });
                }
            }
            _ => {
                // starts after everything else
                let n = rng.range(1, 3);
                for k in 0..n {
                    let ts = (s / 2 + k * 700_000) / 100 * 100;
                    tl.push(MSpec { ecu: b, rt: end + s + ts, ts_dms: dms(ts), has_ts: rng.chance(9, 10), kind: 0 });
                }
            }
        }
    }
    let _ = stop;
    tl.sort_by_key(|m| m.rt); // stable: messages of one ECU keep their order
    for m in tl.iter_mut() {
        if !m.has_ts {
            m.ts_dms = 0;
        }
    }
    (tl, k_first)
}

/// (reception ms, timestamp ms) relative to RHO, one ECU: a dense confirmed lifecycle, k tentative messages, the late message, a tail
fn merge_back_dense(k: u64, n1: u64, tail: u64) -> Vec<MSpec> {
    let mut v: Vec<(u64, u64)> = vec![];
    for i in 0..n1 {
        let ts = 1_000 + i * 75_000 / n1.max(1);
        v.push((ts, ts));
    }
    for j in 0..k {
        v.push((85_000 + j * 100, 1_000 + j * 100));
    }
    v.push((86_000, 50_000));
    for i in 0..tail {
        let ts = 87_000 + i * 1_000;
        v.push((ts, ts));
    }
    v.into_iter().map(|(r, t)| MSpec { ecu: 1, rt: lcgen::RHO + r * 1000, ts_dms: (t * 10) as u32, has_ts: true, kind: 0 }).collect()
}

fn export_cases(out: &mut Vec<(Vec<MSpec>, Vec<String>)>, rng: &mut Rng, n: u64, max_general: u64) {
    let mut add = |specs: Vec<MSpec>, tags: &[&str]| out.push((specs, tags.iter().map(|s| s.to_string()).collect()));
    for k in 0..n {
        match k % 12 {
            0 | 3 | 6 | 9 | 11 => {
                let (specs, kt) = gen_merge_back(rng);
                let t = format!("merge_back_k{}", kt);
                add(specs, &["gen_merge_back", &t]);
            }
            1 | 7 => add(lcgen::gen_scenario(rng), &["gen_scenario"]),
            2 => add(lcgen::gen_merge_template(rng), &["gen_merge_template"]),
            4 | 10 => {
                let max_len = match rng.below(6) { 0 => max_general, 1 | 2 => 40, _ => 14 };
                add(lcgen::gen_general(rng, max_len), &["gen_general"])
            }
            5 => add(lcgen::gen_resume_chain(rng), &["gen_resume_chain"]),
            _ => add(lcgen::gen_clean(rng).msgs, &["gen_clean"]),
        }
    }
}

// ------------------------------------------------------------------ family 4: the state of the `-o` path before the command
/// State of a path before a command: None = absent; Some((specs, cut, junk)) = a file holding to_write of the messages
/// `specs` without its last `cut` bytes, followed by the junk bytes (no specs, no junk: an empty file).
type Prior = Option<(Vec<MSpec>, u64, Segs)>;

fn prior_bytes(p: &Prior) -> Option<Vec<u8>> {
    p.as_ref().map(|(specs, cut, junk)| {
        let mut f = export_input(specs).unwrap_or_default();
        f.truncate(f.len().saturating_sub(*cut as usize));
        f.extend_from_slice(&flatten(junk));
        f
    })
}
fn coq_specs(specs: &[MSpec]) -> String {
    clist(&specs.iter().map(|s| format!("({}, {}, {}, {}, {})", s.ecu, s.rt, s.ts_dms, cbool(s.has_ts), s.kind)).collect::<Vec<_>>())
}
fn coq_prior(p: &Prior) -> String {
    copt(p.as_ref().map(|(specs, cut, junk)| format!("({}, {}, {})", coq_specs(specs), cut, coq_segs(junk))))
}
fn json_prior(p: &Prior) -> Value {
    match p {
        None => Value::Null,
        Some((specs, cut, junk)) => json!([specs.iter().map(|m| m.json()).collect::<Vec<_>>(), cut, junk]),
    }
}
fn prior_from_json(v: &Value) -> Prior {
    if v.is_null() {
        None
    } else {
        Some((v[0].as_array().unwrap().iter().map(MSpec::from_json).collect(), v[1].as_u64().unwrap(), serde_json::from_value(v[2].clone()).unwrap()))
    }
}
fn o_prior(p: &Option<Vec<u8>>) -> O {
    match p {
        None => O::L(0),
        Some(b) => o_file(b),
    }
}
/// a path: absent / length + checksum, the message counters of the messages it re-reads to, bytes left over
fn o_path(p: &Option<Vec<u8>>) -> O {
    match p {
        None => O::L(0),
        Some(b) => O::T(vec![
            o_file(b),
            match read_all(0, b) {
                Ok(ra) => O::T(vec![O::T(ra.msgs.iter().map(|m| O::n(m.mcnt())).collect()), O::n(ra.rest as u64)]),
                Err(_) => O::L(1),
            },
        ]),
    }
}

/// what the binary left behind: the state of out.dlt after every command of the chain, then the state of out2.dlt
struct OverRun {
    outs: Vec<Option<Vec<u8>>>,
    out2: Option<Vec<u8>>,
}
/// out.dlt in state `pre`; `adlt convert -o out.dlt in_k.dlt` for every input in turn; out2.dlt in state `pre2`;
/// `adlt convert -o out2.dlt out.dlt`.  None when there is no binary.
fn convert_over(pre: &Option<Vec<u8>>, ins: &[Vec<u8>], pre2: &Option<Vec<u8>>) -> Option<Result<OverRun, String>> {
    let bin = std::env::var("VERIF_ADLT_BIN").ok()?;
    if !std::path::Path::new(&bin).exists() {
        return None;
    }
    let dir = tempfile::tempdir().ok()?;
    let p = |n: &str| dir.path().join(n);
    let run = |out: &str, inp: &str| -> Result<Option<Vec<u8>>, String> {
        let o = std::process::Command::new(&bin).arg("convert").arg("-o").arg(p(out)).arg(p(inp)).output().map_err(|e| e.to_string())?;
        if !o.status.success() {
            return Err(format!("adlt convert exit {:?}: {}", o.status.code(), String::from_utf8_lossy(&o.stderr)));
        }
        Ok(std::fs::read(p(out)).ok())
    };
    Some((|| {
        if let Some(c) = pre {
            std::fs::write(p("out.dlt"), c).map_err(|e| e.to_string())?;
        }
        let mut outs = vec![];
        for (k, inp) in ins.iter().enumerate() {
            let name = format!("in_{}.dlt", k);
            std::fs::write(p(&name), inp).map_err(|e| e.to_string())?;
            outs.push(run("out.dlt", &name)?);
        }
        if let Some(c) = pre2 {
            std::fs::write(p("out2.dlt"), c).map_err(|e| e.to_string())?;
        }
        let out2 = if std::path::Path::new(&p("out.dlt")).exists() { run("out2.dlt", "out.dlt")? } else { None };
        Ok(OverRun { outs, out2 })
    })())
}

struct OverCase {
    pre: Prior,
    chain: Vec<Vec<MSpec>>,
    pre2: Prior,
    tags: Vec<String>,
}

fn len_rel(prior: Option<usize>, export: usize) -> &'static str {
    match prior {
        None => "absent",
        Some(0) if export > 0 => "empty",
        Some(n) if n > export => "longer",
        Some(n) if n < export => "shorter",
        Some(_) => "same_length",
    }
}

fn record_export_over(sink: &mut Sink, c: OverCase, run: Option<Option<Result<OverRun, String>>>) {
    let fail = |c: String, d: String| Verdict::Fail { clause: c, detail: d };
    let mut verdict = Verdict::Ok;
    let mut tags = c.tags.clone();
    tags.push("export_over".into());
    tags.push(format!("over_chain{}", c.chain.len().min(4)));
    let pre = prior_bytes(&c.pre);
    let pre2 = prior_bytes(&c.pre2);
    let ins: Vec<Vec<u8>> = c.chain.iter().map(|s| export_input(s).unwrap_or_default()).collect();
    let run = run.unwrap_or_else(|| convert_over(&pre, &ins, &pre2));
    let mut nontrivial = false;
    let obs = match run {
        None => {
            // no binary: nothing of this family can be observed
            tags.push("e2e_skipped_no_binary".into());
            O::T(vec![O::L(12)])
        }
        Some(Err(e)) => {
            verdict = fail("convert_o_runs".into(), e);
            O::T(vec![O::L(13)])
        }
        Some(Ok(r)) => {
            let mut before: Option<Vec<u8>> = pre.clone();
            let mut steps = vec![];
            let mut some_longer = false;
            for (k, (inp, out)) in ins.iter().zip(r.outs.iter()).enumerate() {
                let rel = len_rel(before.as_ref().map(|b| b.len()), inp.len());
                tags.push(format!("over_step_prior_{}", rel));
                if before.as_ref() == Some(inp) {
                    tags.push("over_step_prior_is_this_export".into());
                }
                some_longer |= rel == "longer";
                let held = match &before {
                    None => "the -o path did not exist before the command".to_string(),
                    Some(b) => format!("the -o path held {} bytes before the command ({})", b.len(), rel),
                };
                if matches!(verdict, Verdict::Ok) {
                    match (read_all(0, inp), out) {
                        (Err(e), _) => verdict = fail("input_readable".into(), e),
                        (_, None) => verdict = fail("convert_o_over_existing_file_written".into(), format!("command {}: no file at the -o path afterwards; {}", k, held)),
                        (Ok(r0), Some(a)) => {
                            // the clause on the file the command left behind ...
                            if let Err((cl, d)) = check_export(inp, &r0, a, a) {
                                verdict = fail(format!("convert_o_over_existing_{}", cl), format!("command {} of {}: {}; {}", k, ins.len(), d.chars().take(500).collect::<String>(), held));
                            } else {
                                // ... and byte for byte: to_write of every message of the input, nothing else
                                match write_all(&r0.msgs) {
                                    Ok(w) if w == *a => {}
                                    Ok(w) => verdict = fail("convert_o_over_existing_bytes_exact".into(), format!("command {} of {}: the file has {} bytes, to_write of the {} input messages {}; {}", k, ins.len(), a.len(), r0.msgs.len(), w.len(), held)),
                                    Err(e) => verdict = fail("write_ok".into(), e),
                                }
                            }
                        }
                    }
                }
                steps.push(O::T(vec![o_file(inp), o_path(out)]));
                before = out.clone();
            }
            let last = before;
            let fin = match &last {
                None => O::L(3),
                Some(a) => {
                    let rel = len_rel(pre2.as_ref().map(|b| b.len()), a.len());
                    tags.push(format!("over_pre2_{}", rel));
                    some_longer |= rel == "longer";
                    match &r.out2 {
                        None => {
                            if matches!(verdict, Verdict::Ok) {
                                verdict = fail("convert_o_over_existing_file_written".into(), "export of the export: no file at the -o path afterwards".into());
                            }
                            O::L(2)
                        }
                        Some(b) => {
                            if matches!(verdict, Verdict::Ok) && b != a {
                                verdict = fail(
                                    "convert_o_over_existing_export_of_export_identical".into(),
                                    format!("{} vs {} bytes, first difference at {:?}; the second -o path held {:?} bytes before the command ({})", a.len(), b.len(),
                                        a.iter().zip(b.iter()).position(|(x, y)| x != y), pre2.as_ref().map(|x| x.len()), rel),
                                );
                            }
                            O::T(vec![o_file(b), O::b(a == b)])
                        }
                    }
                }
            };
            if some_longer {
                tags.push("over_some_prior_longer".into());
            }
            nontrivial = some_longer && c.chain.iter().any(|s| s.len() >= 3);
            O::T(vec![O::L(10), O::T(vec![o_prior(&pre), o_prior(&pre2)]), O::T(steps), fin])
        }
    };
    let input_coq = format!("(CExportOver {} {} {})", coq_prior(&c.pre), clist(&c.chain.iter().map(|s| coq_specs(s)).collect::<Vec<_>>()), coq_prior(&c.pre2));
    let id = sink.next_id();
    sink.push(Case {
        id,
        key: input_coq.clone(),
        input_coq,
        input_json: json!({"kind": "export_over", "pre": json_prior(&c.pre), "chain": c.chain.iter().map(|s| s.iter().map(|m| m.json()).collect::<Vec<_>>()).collect::<Vec<_>>(), "pre2": json_prior(&c.pre2)}),
        obs,
        verdict,
        classes: vec![],
        tags,
        nontrivial,
    });
}

/// the binary runs of the family, in parallel (process spawns only)
fn record_exports_over(sink: &mut Sink, cases: Vec<OverCase>) {
    let next = std::sync::atomic::AtomicUsize::new(0);
    let out: std::sync::Mutex<Vec<Option<Option<Result<OverRun, String>>>>> = std::sync::Mutex::new(cases.iter().map(|_| None).collect());
    let nthreads = std::thread::available_parallelism().map(|n| n.get()).unwrap_or(4).clamp(2, 8);
    std::thread::scope(|sc| {
        for _ in 0..nthreads {
            sc.spawn(|| loop {
                let k = next.fetch_add(1, std::sync::atomic::Ordering::SeqCst);
                if k >= cases.len() {
                    break;
                }
                let c = &cases[k];
                let ins: Vec<Vec<u8>> = c.chain.iter().map(|s| export_input(s).unwrap_or_default()).collect();
                let r = convert_over(&prior_bytes(&c.pre), &ins, &prior_bytes(&c.pre2));
                out.lock().unwrap()[k] = Some(r);
            });
        }
    });
    let runs = out.into_inner().unwrap();
    for (c, r) in cases.into_iter().zip(runs.into_iter()) {
        record_export_over(sink, c, r);
    }
}

/// n junk bytes, described run-length: a random head, a filler (one byte value, or the storage-header marker repeated, or a
/// marker followed by zeros: "messages" that do not parse), a random tail
fn gen_junk(rng: &mut Rng, n: usize) -> Segs {
    if n == 0 {
        return vec![];
    }
    let mode = rng.below(4);
    if n <= 24 {
        return vec![(1, g::rbytes(rng, n, mode))];
    }
    let hl = rng.range(1, 12) as usize;
    let head = g::rbytes(rng, hl, mode);
    let block: Vec<u8> = match rng.below(5) {
        0 => vec![0x5a],
        1 => vec![0],
        2 => b"DLT\x01".to_vec(),
        3 => b"DLT\x01\0\0\0\0\0\0\0\0ECU1\x35\0\0".to_vec(),
        _ => {
            let bl = rng.range(2, 7) as usize;
            g::rbytes(rng, bl, 0)
        }
    };
    let count = (n - head.len()) / block.len();
    let tail = g::rbytes(rng, n - head.len() - count * block.len(), mode);
    let mut v: Segs = vec![(1, head)];
    if count > 0 {
        v.push((count as u64, block));
    }
    if !tail.is_empty() {
        v.push((1, tail));
    }
    v
}

fn gen_small_specs(rng: &mut Rng) -> Vec<MSpec> {
    match rng.below(8) {
        0 | 1 => gen_merge_back(rng).0,
        2 => lcgen::gen_scenario(rng),
        3 => lcgen::gen_resume_chain(rng),
        4 => lcgen::gen_clean(rng).msgs,
        5 => lcgen::gen_merge_template(rng),
        _ => {
            let max_len = *rng.pick(&[3u64, 8, 14, 30]);
            lcgen::gen_general(rng, max_len)
        }
    }
}
/// a file longer than `len` bytes made of messages: `base` (may be empty) followed by further messages
fn longer_specs(rng: &mut Rng, base: &[MSpec], len: usize) -> Vec<MSpec> {
    let mut v = base.to_vec();
    loop {
        let more = gen_small_specs(rng);
        let k = if rng.chance(1, 3) { 1 } else { more.len() };
        v.extend(more.into_iter().take(k.max(1)));
        if v.len() > base.len() && export_input(&v).map_or(0, |f| f.len()) > len {
            return v;
        }
        if v.len() > 400 {
            return v;
        }
    }
}

/// the state of a path before a command that will leave `len` bytes (the export of `input`) there
fn gen_prior(rng: &mut Rng, kind: u64, input: &[MSpec], len: usize) -> (Prior, &'static str) {
    let none: Vec<MSpec> = vec![];
    match kind {
        0 => (None, "absent"),
        1 => (Some((none, 0, vec![])), "empty"),
        2 => {
            let n = if len <= 1 { 1 } else { rng.range(1, len as u64 - 1) as usize };
            (Some((none, 0, gen_junk(rng, n))), "junk_shorter")
        }
        3 => {
            let d = match rng.below(6) { 0 => rng.range(1, 4), 1 => rng.range(5, 40), 2 => rng.range(41, 600), 3 => rng.range(601, 9000), 4 => rng.range(60_000, 140_000), _ => rng.range(1, 3000) } as usize;
            (Some((none, 0, gen_junk(rng, len + d))), "junk_longer")
        }
        4 => (Some((none, 0, gen_junk(rng, len.max(1)))), "junk_same_length"),
        5 => (Some((longer_specs(rng, &[], len), 0, vec![])), "other_file_longer"),
        6 => {
            // another file ending in a truncated frame and / or junk, longer
            let specs = longer_specs(rng, &[], len + 40);
            let cut = rng.range(1, 19);
            let j = if rng.chance(1, 2) { 0 } else { rng.range(1, 30) as usize };
            (Some((specs, cut, gen_junk(rng, j))), "other_file_longer_damaged_end")
        }
        7 => {
            // the export itself followed by 1..4 bytes (too few for the iterator to look at) or a few more
            let j = if rng.chance(3, 4) { rng.range(1, 4) } else { rng.range(5, 15) } as usize;
            let junk = if rng.chance(1, 2) { vec![(1u64, b"DLT\x01DLT\x01DLT\x01DLT\x01"[..j].to_vec())] } else { gen_junk(rng, j) };
            (Some((input.to_vec(), 0, junk)), "this_export_plus_few_bytes")
        }
        8 => (Some((longer_specs(rng, input, len), 0, vec![])), "this_export_plus_messages"),
        9 => (Some((input.to_vec(), 0, vec![])), "this_export"),
        _ => {
            // a shorter file of messages: a proper prefix of the input's messages, or another small file
            let k = if input.len() >= 2 { rng.range(1, input.len() as u64 - 1) as usize } else { 0 };
            if k > 0 && rng.chance(2, 3) {
                (Some((input[..k].to_vec(), 0, vec![])), "prefix_of_this_export")
            } else {
                let o = lcgen::gen_general(rng, 3);
                (Some((o, 0, vec![])), "other_file_small")
            }
        }
    }
}

fn over_case(rng: &mut Rng, form: u64) -> OverCase {
    let mut tags: Vec<String> = vec![];
    let flen = |s: &Vec<MSpec>| export_input(s).map_or(0, |f| f.len());
    let x = gen_small_specs(rng);
    let (chain, pre_kind): (Vec<Vec<MSpec>>, u64) = match form {
        // one command, every kind of prior state
        0..=10 => {
            tags.push("over_single".into());
            (vec![x], form)
        }
        // a longer earlier export of another input, written by the binary itself: big -> out, small -> out
        11 | 12 => {
            tags.push("over_big_then_small".into());
            let big = longer_specs(rng, &[], flen(&x));
            (vec![big, x], *rng.pick(&[0, 0, 1, 3, 5]))
        }
        // the same export twice
        13 => {
            tags.push("over_same_twice".into());
            (vec![x.clone(), x], *rng.pick(&[0, 3, 5]))
        }
        14 => {
            tags.push("over_small_then_big".into());
            let big = longer_specs(rng, &[], flen(&x));
            (vec![x, big], *rng.pick(&[0, 2, 3]))
        }
        // three commands, sizes in any order, the empty input among them now and then
        _ => {
            tags.push("over_three".into());
            let mut v = vec![x];
            for _ in 0..2 {
                v.push(if rng.chance(1, 8) { vec![] } else if rng.chance(1, 2) { gen_small_specs(rng) } else { lcgen::gen_general(rng, 4) });
            }
            // a decreasing order now and then, so that every command finds a longer file
            if rng.chance(1, 2) {
                v.sort_by_key(|s| std::cmp::Reverse(flen(s)));
            }
            (v, rng.below(11))
        }
    };
    let (pre, pt) = gen_prior(rng, pre_kind, &chain[0], flen(&chain[0]));
    tags.push(format!("over_pre_{}", pt));
    let last = chain.last().unwrap().clone();
    let k2 = match rng.below(10) { 0 | 1 => 0, 2 => 1, 3 | 4 => 3, 5 => 5, 6 => 6, 7 => 7, 8 => 8, _ => rng.below(11) };
    let (pre2, pt2) = gen_prior(rng, k2, &last, flen(&last));
    tags.push(format!("over_second_pre_{}", pt2));
    OverCase { pre, chain, pre2, tags }
}

fn over_corpus() -> Vec<OverCase> {
    let t = |l: &[&str]| -> Vec<String> { l.iter().map(|s| s.to_string()).collect() };
    let big = merge_back_dense(2, 36, 2); // 41 messages
    let small = merge_back_dense(1, 2, 0); // 4 messages
    let mid = merge_back_dense(1, 12, 2);
    let junk = |n: u64| -> Segs { vec![(1, b"\x00\x01junk".to_vec()), (n, vec![0x5a])] };
    let mut v = vec![
        // a larger export first, a smaller one over it, the export of the export to a fresh path / over a longer file
        OverCase { pre: None, chain: vec![big.clone(), small.clone()], pre2: None, tags: t(&["corpus", "over_big_then_small"]) },
        OverCase { pre: None, chain: vec![big.clone(), small.clone()], pre2: Some((big.clone(), 0, vec![])), tags: t(&["corpus", "over_big_then_small"]) },
        OverCase { pre: None, chain: vec![big.clone(), mid.clone(), small.clone()], pre2: Some((vec![], 0, junk(3000))), tags: t(&["corpus", "over_three"]) },
        OverCase { pre: Some((big.clone(), 0, vec![])), chain: vec![mid.clone(), mid.clone()], pre2: Some((mid.clone(), 0, vec![(1, vec![68])])), tags: t(&["corpus", "over_same_twice"]) },
        // the empty input over a file: nothing may be left
        OverCase { pre: Some((mid.clone(), 0, vec![])), chain: vec![vec![]], pre2: Some((small.clone(), 0, vec![])), tags: t(&["corpus", "over_empty_input"]) },
        OverCase { pre: None, chain: vec![mid.clone(), vec![]], pre2: None, tags: t(&["corpus", "over_empty_input"]) },
    ];
    // one command over every kind of prior state (fixed instances)
    let len = export_input(&mid).map_or(0, |f| f.len()) as u64;
    let priors: Vec<(Prior, &str)> = vec![
        (None, "absent"),
        (Some((vec![], 0, vec![])), "empty"),
        (Some((vec![], 0, junk(len / 2))), "junk_shorter"),
        (Some((vec![], 0, junk(len - 6))), "junk_same_length"),
        (Some((vec![], 0, junk(len - 5))), "junk_longer"),
        (Some((vec![], 0, junk(len + 70_000))), "junk_longer"),
        (Some((mid.clone(), 0, vec![(1, vec![0])])), "this_export_plus_few_bytes"),
        (Some((mid.clone(), 0, vec![(1, b"DLT\x01".to_vec())])), "this_export_plus_few_bytes"),
        (Some((big.clone(), 0, vec![])), "other_file_longer"),
        (Some((big.clone(), 7, vec![])), "other_file_longer_damaged_end"),
        (Some((small.clone(), 0, vec![])), "other_file_small"),
        (Some((mid.clone(), 0, vec![])), "this_export"),
    ];
    for (k, (p, name)) in priors.iter().enumerate() {
        let p2 = priors[(k * 5 + 3) % priors.len()].0.clone();
        v.push(OverCase { pre: p.clone(), chain: vec![mid.clone()], pre2: p2, tags: vec!["corpus".to_string(), "over_single".to_string(), format!("over_pre_{}", name)] });
    }
    v
}

// ------------------------------------------------------------------ family 5: the library's export writer (plugins/export.rs)
/// ExportPlugin without filters (the library's "export everything" writer): the file named in its configuration is in
/// state `pre` before the plugin is built; every message of the input file is processed; sync_all.  The file must hold the
/// plugin's info messages (VsDl/Info) followed by exactly to_write of the input's messages, whatever it held before.
fn record_export_plugin(sink: &mut Sink, pre: Prior, specs: Vec<MSpec>, extra: &[&str]) {
    let fail = |c: &str, d: String| Verdict::Fail { clause: c.into(), detail: d };
    let mut verdict = Verdict::Ok;
    let mut tags: Vec<String> = extra.iter().map(|s| s.to_string()).collect();
    tags.push("export_plugin".into());
    let inp = export_input(&specs).unwrap_or_default();
    let prior = prior_bytes(&pre);
    tags.push(format!("plugin_prior_{}", len_rel(prior.as_ref().map(|b| b.len()), inp.len() + 100)));
    let dir = tempfile::tempdir().expect("tempdir");
    let path = dir.path().join("export.dlt");
    if let Some(c) = &prior {
        std::fs::write(&path, c).expect("write prior");
    }
    let r0 = read_all(0, &inp);
    let msgs: Vec<DltMessage> = r0.as_ref().map(|r| r.msgs.clone()).unwrap_or_default();
    let path_s = path.to_string_lossy().to_string();
    let ran = {
        let msgs = msgs.clone();
        catch_loc(move || {
            use adlt::plugins::plugin::Plugin;
            let cfg = json!({"name": "Export", "enabled": true, "exportFileName": path_s, "filters": []});
            let mut plugin = adlt::plugins::export::ExportPlugin::from_json(cfg.as_object().unwrap()).map_err(|e| e.to_string())?;
            for m in msgs.iter() {
                let mut m2 = m.clone();
                plugin.process_msg(&mut m2);
            }
            plugin.sync_all();
            drop(plugin);
            Ok::<(), String>(())
        })
    };
    let after = std::fs::read(&path).ok();
    let held = format!("the export path held {:?} bytes before", prior.as_ref().map(|b| b.len()));
    let mut body: Option<Vec<u8>> = None;
    match (&ran, &r0) {
        (Err(e), _) => verdict = fail("export_plugin_runs", e.clone()),
        (Ok(Err(e)), _) => verdict = fail("export_plugin_runs", e.clone()),
        (_, Err(e)) => verdict = fail("input_readable", e.clone()),
        (Ok(Ok(())), Ok(r0)) => match &after {
            None => {
                if !msgs.is_empty() {
                    verdict = fail("export_plugin_file_written", format!("{} messages processed, no file; {}", msgs.len(), held));
                }
            }
            Some(f) => match read_all(0, f) {
                Err(e) => verdict = fail("export_plugin_export_readable", e),
                Ok(rf) => {
                    let info_a = DltChar4::from_buf(b"VsDl");
                    let info_c = DltChar4::from_buf(b"Info");
                    let ninfo = rf.msgs.iter().take_while(|m| m.apid() == Some(&info_a) && m.ctid() == Some(&info_c)).count();
                    let off: usize = rf.msgs.iter().take(ninfo).map(|m| 16 + m.standard_header.len as usize).sum();
                    let b = f[off.min(f.len())..].to_vec();
                    if msgs.is_empty() {
                        if !rf.msgs.is_empty() {
                            verdict = fail("export_plugin_every_message", format!("no message processed, the file re-reads to {} messages; {}", rf.msgs.len(), held));
                        }
                    } else if rf.skipped != 0 || rf.rest != 0 || rf.processed != f.len() {
                        verdict = fail("export_plugin_export_is_a_sequence_of_messages", format!("skipped {} processed {} of {} rest {}; {}", rf.skipped, rf.processed, f.len(), rf.rest, held));
                    } else if ninfo == 0 {
                        verdict = fail("export_plugin_info_message_first", format!("first message is not the VsDl/Info message; {}", held));
                    } else if let Err((cl, d)) = check_export(&inp, r0, &b, &b) {
                        verdict = fail(&format!("export_plugin_{}", cl), format!("{}; {} info messages; {}", d.chars().take(500).collect::<String>(), ninfo, held));
                    } else if write_all(&r0.msgs).ok().as_ref() != Some(&b) {
                        verdict = fail("export_plugin_bytes_exact", format!("after the info messages the file has {} bytes, to_write of the {} input messages differs; {}", b.len(), msgs.len(), held));
                    }
                    body = Some(b);
                }
            },
        },
    }
    let obs = O::T(vec![O::L(11), o_prior(&prior), o_file(&inp), if after.is_none() { O::L(0) } else { o_path(&body) }]);
    let input_coq = format!("(CExportPlugin {} {})", coq_prior(&pre), coq_specs(&specs));
    let id = sink.next_id();
    let nontrivial = specs.len() >= 3 && prior.as_ref().map_or(false, |p| p.len() > inp.len() + 100);
    sink.push(Case { id, key: input_coq.clone(), input_coq, input_json: json!({"kind": "export_plugin", "pre": json_prior(&pre), "specs": specs.iter().map(|m| m.json()).collect::<Vec<_>>()}),
        obs, verdict, classes: vec![], tags, nontrivial });
}

// ------------------------------------------------------------------ family 6: export under the non-selecting options of the CLI
// `adlt convert` has options that select messages (-f, --eac, --lcs, -b, -e: property C14), one that rewrites ids on purpose
// (--anon: C19) and options that configure plugins or processing: --file_transfer=<glob> (+ --file_transfer_path / _apid /
// _ctid), --nonverbose_path, --someip_path, --rewrite_path, --can_path, --muniic_path, --sort, --debug_verify_sort,
// --debug_verify_lcs, the output styles -x / -a / -s.  None of the latter may remove a message from the file written with -o.
/// one message of an input file, field by field (mcnt = position mod 256 is set when the file is put together)
#[derive(Clone, Debug)]
struct XMsg {
    rt: u64,
    ecu: [u8; 4],
    ts: u32,
    htyp: u8,
    mcnt: u8,
    ext: Option<(u8, u8, [u8; 4], [u8; 4])>,
    payload: Vec<u8>,
    /// what the generator meant it to be (statistics only)
    tag: &'static str,
}
impl XMsg {
    fn build(&self, idx: u32) -> DltMessage {
        DltMessage {
            index: idx,
            reception_time_us: self.rt,
            ecu: DltChar4::from_buf(&self.ecu),
            timestamp_dms: self.ts,
            standard_header: DltStandardHeader { htyp: self.htyp, mcnt: self.mcnt, len: 0 },
            extended_header: self.ext.map(|e| DltExtendedHeader { verb_mstp_mtin: e.0, noar: e.1, apid: DltChar4::from_buf(&e.2), ctid: DltChar4::from_buf(&e.3) }),
            payload: self.payload.clone(),
            payload_text: None,
            lifecycle: 0,
        }
    }
    fn coq(&self) -> String {
        let c4 = |c: &[u8; 4]| format!("({}, {}, {}, {})", c[0], c[1], c[2], c[3]);
        let ext = match &self.ext {
            None => "None".to_string(),
            Some(e) => format!("(Some ({}, {}, {}, {}))", e.0, e.1, c4(&e.2), c4(&e.3)),
        };
        format!("({}, {}, {}, {}, {}, {}, {})", self.rt, c4(&self.ecu), self.ts, self.htyp, self.mcnt, ext, cnums(&self.payload))
    }
    fn json(&self) -> Value {
        json!({"rt": self.rt, "ecu": self.ecu, "ts": self.ts, "htyp": self.htyp, "mcnt": self.mcnt, "ext": self.ext.map(|e| json!([e.0, e.1, e.2, e.3])), "payload": self.payload})
    }
    fn from_json(v: &Value) -> XMsg {
        let a4 = |x: &Value| -> [u8; 4] {
            let v: Vec<u8> = serde_json::from_value(x.clone()).unwrap();
            [v[0], v[1], v[2], v[3]]
        };
        XMsg {
            rt: v["rt"].as_u64().unwrap(),
            ecu: a4(&v["ecu"]),
            ts: v["ts"].as_u64().unwrap() as u32,
            htyp: v["htyp"].as_u64().unwrap() as u8,
            mcnt: v["mcnt"].as_u64().unwrap() as u8,
            ext: if v["ext"].is_null() { None } else { Some((v["ext"][0].as_u64().unwrap() as u8, v["ext"][1].as_u64().unwrap() as u8, a4(&v["ext"][2]), a4(&v["ext"][3]))) },
            payload: serde_json::from_value(v["payload"].clone()).unwrap(),
            tag: "replay",
        }
    }
}

/// an option of `adlt convert` that does not select messages
#[derive(Clone, Debug, PartialEq)]
enum Opt {
    /// --file_transfer=<glob>
    Ft(String),
    /// --file_transfer_path: 0 = a directory that does not exist yet (two levels), 1 = the directory of the output files,
    /// 2 = the working directory of the process (exists)
    FtPath(u8),
    FtApid(String),
    FtCtid(String),
    NonVerbose,
    SomeIp,
    Rewrite,
    Can,
    Muniic,
    Sort,
    DebugSort,
    DebugLcs,
    Hex,
    Ascii,
    Headers,
}
impl Opt {
    fn code(&self) -> u64 {
        match self {
            Opt::Ft(_) => 1,
            Opt::FtPath(_) => 2,
            Opt::FtApid(_) => 3,
            Opt::FtCtid(_) => 4,
            Opt::NonVerbose => 5,
            Opt::SomeIp => 6,
            Opt::Rewrite => 7,
            Opt::Can => 8,
            Opt::Muniic => 9,
            Opt::Sort => 10,
            Opt::DebugSort => 11,
            Opt::DebugLcs => 12,
            Opt::Hex => 13,
            Opt::Ascii => 14,
            Opt::Headers => 15,
        }
    }
    fn name(&self) -> &'static str {
        ["", "file_transfer", "file_transfer_path", "file_transfer_apid", "file_transfer_ctid", "nonverbose_path", "someip_path", "rewrite_path", "can_path", "muniic_path", "sort",
            "debug_verify_sort", "debug_verify_lcs", "hex", "ascii", "headers"][self.code() as usize]
    }
    fn json(&self) -> Value {
        match self {
            Opt::Ft(s) | Opt::FtApid(s) | Opt::FtCtid(s) => json!([self.code(), s]),
            Opt::FtPath(k) => json!([2, k]),
            _ => json!([self.code()]),
        }
    }
    fn from_json(v: &Value) -> Opt {
        let s = || v[1].as_str().unwrap().to_string();
        match v[0].as_u64().unwrap() {
            1 => Opt::Ft(s()),
            2 => Opt::FtPath(v[1].as_u64().unwrap() as u8),
            3 => Opt::FtApid(s()),
            4 => Opt::FtCtid(s()),
            5 => Opt::NonVerbose,
            6 => Opt::SomeIp,
            7 => Opt::Rewrite,
            8 => Opt::Can,
            9 => Opt::Muniic,
            10 => Opt::Sort,
            11 => Opt::DebugSort,
            12 => Opt::DebugLcs,
            13 => Opt::Hex,
            14 => Opt::Ascii,
            15 => Opt::Headers,
            x => panic!("unknown option code {}", x),
        }
    }
    /// the command line arguments; `dir` = directory of in.dlt / a.dlt / b.dlt, the process runs in dir/cwd
    fn args(&self, dir: &std::path::Path) -> Vec<std::ffi::OsString> {
        let repo = std::env::var("VERIF_REPO").unwrap_or_else(|_| "/repo".to_string());
        let tests = format!("{}/tests", repo);
        let s = |x: &str| std::ffi::OsString::from(x);
        match self {
            Opt::Ft(g) => vec![s(&format!("--file_transfer={}", g))],
            Opt::FtPath(k) => vec![s("--file_transfer_path"), match k { 0 => dir.join("x").join("y").into_os_string(), 1 => dir.as_os_str().to_owned(), _ => dir.join("cwd").into_os_string() }],
            Opt::FtApid(a) => vec![s("--file_transfer_apid"), s(a)],
            Opt::FtCtid(c) => vec![s("--file_transfer_ctid"), s(c)],
            Opt::NonVerbose => vec![s("--nonverbose_path"), s(&tests)],
            Opt::SomeIp => vec![s("--someip_path"), s(&tests)],
            Opt::Rewrite => vec![s("--rewrite_path"), s(&format!("{}/rewrite.cfg", tests))],
            Opt::Can => vec![s("--can_path"), s(&tests)],
            Opt::Muniic => vec![s("--muniic_path"), s(&format!("{}/muniic", tests))],
            Opt::Sort => vec![s("--sort")],
            Opt::DebugSort => vec![s("--debug_verify_sort")],
            Opt::DebugLcs => vec![s("--debug_verify_lcs")],
            Opt::Hex => vec![s("-x")],
            Opt::Ascii => vec![s("-a")],
            Opt::Headers => vec![s("-s")],
        }
    }
}

fn pad4(s: &str) -> [u8; 4] {
    let mut c = [0u8; 4];
    for (i, b) in s.bytes().take(4).enumerate() {
        c[i] = b;
    }
    c
}

// ---- verbose arguments
fn xa_ti(p: &mut Vec<u8>, big: bool, ti: u32) {
    p.extend_from_slice(&if big { ti.to_be_bytes() } else { ti.to_le_bytes() });
}
fn xa_var(p: &mut Vec<u8>, big: bool, ti: u32, d: &[u8]) {
    xa_ti(p, big, ti);
    let l = d.len() as u16;
    p.extend_from_slice(&if big { l.to_be_bytes() } else { l.to_le_bytes() });
    p.extend_from_slice(d);
}
fn xa_str(p: &mut Vec<u8>, big: bool, s: &str) {
    let mut d = s.as_bytes().to_vec();
    d.push(0);
    xa_var(p, big, 0x200, &d);
}
fn xa_raw(p: &mut Vec<u8>, big: bool, d: &[u8]) {
    xa_var(p, big, 0x400, d);
}
fn xa_u32(p: &mut Vec<u8>, big: bool, v: u32) {
    xa_ti(p, big, 0x43);
    p.extend_from_slice(&if big { v.to_be_bytes() } else { v.to_le_bytes() });
}
fn xa_u16(p: &mut Vec<u8>, big: bool, v: u16) {
    xa_ti(p, big, 0x42);
    p.extend_from_slice(&if big { v.to_be_bytes() } else { v.to_le_bytes() });
}
fn xa_u8(p: &mut Vec<u8>, big: bool, v: u8) {
    xa_ti(p, big, 0x41);
    p.push(v);
}
fn xrand(rng: &mut Rng, n: u64) -> Vec<u8> {
    (0..n).map(|_| rng.below(256) as u8).collect()
}
/// a message of one ECU without times (assigned when the file is put together)
fn xproto(ecu: &[u8; 4], big: bool, ext: Option<(u8, u8, [u8; 4], [u8; 4])>, payload: Vec<u8>, tag: &'static str) -> XMsg {
    XMsg { rt: 0, ecu: *ecu, ts: 0, htyp: 0x30 | if ext.is_some() { 1 } else { 0 } | if big { 2 } else { 0 }, mcnt: 0, ext, payload, tag }
}

/// a file transfer of one serial: FLST (8 arguments), FLDA packages (5 arguments, first and last the string "FLDA"), FLFI --
/// complete, or damaged (a package lost / duplicated, announcement or end missing, data only)
fn x_ft_session(rng: &mut Rng, ecu: &[u8; 4], ids: ([u8; 4], [u8; 4]), name: &str) -> Vec<XMsg> {
    let big = rng.chance(1, 6);
    let ext = |noar: u8| Some((0x41u8, noar, ids.0, ids.1));
    let serial = rng.below(100_000) as u32;
    let n = rng.range(1, 4) as u32;
    let bs = rng.range(1, 6) as u16;
    let mut v = vec![];
    let mut p = vec![];
    xa_str(&mut p, big, "FLST");
    xa_u32(&mut p, big, serial);
    xa_str(&mut p, big, name);
    xa_u32(&mut p, big, n * bs as u32);
    xa_str(&mut p, big, "2026");
    xa_u32(&mut p, big, n);
    xa_u16(&mut p, big, bs);
    xa_str(&mut p, big, "FLST");
    v.push(xproto(ecu, big, ext(8), p, "ft_flst"));
    for k in 1..=n {
        let mut p = vec![];
        xa_str(&mut p, big, "FLDA");
        xa_u32(&mut p, big, serial);
        xa_u32(&mut p, big, k);
        let d = xrand(rng, bs as u64);
        xa_raw(&mut p, big, &d);
        xa_str(&mut p, big, "FLDA");
        v.push(xproto(ecu, big, ext(5), p, "ft_flda"));
    }
    let mut p = vec![];
    xa_str(&mut p, big, "FLFI");
    xa_u32(&mut p, big, serial);
    xa_str(&mut p, big, "FLFI");
    v.push(xproto(ecu, big, ext(3), p, "ft_flfi"));
    match rng.below(9) {
        0 => {
            v.remove(0); // announcement missing
        }
        1 => {
            if v.len() > 2 {
                let k = 1 + rng.below(v.len() as u64 - 2) as usize;
                v.remove(k); // a package lost
            }
        }
        2 => {
            let k = 1 + rng.below(v.len() as u64 - 2) as usize;
            let d = v[k].clone();
            v.insert(k, d); // a package twice
        }
        3 => {
            v.pop(); // end missing
        }
        4 => {
            v.remove(0);
            v.pop(); // data packages only
        }
        _ => {}
    }
    v
}

/// messages next to what the file-transfer plugin matches on: 5 arguments starting with "FLDA" but not ending with it,
/// 4 or 6 arguments, not log-info, non-verbose, "FLDA" as UTF-8 string
fn x_ft_lookalike(rng: &mut Rng, ecu: &[u8; 4], ids: ([u8; 4], [u8; 4])) -> XMsg {
    let big = rng.chance(1, 6);
    let mut p = vec![];
    let kind = rng.below(6);
    if kind == 5 {
        xa_var(&mut p, big, 0x200 | 0x8000, b"FLDA\0");
    } else {
        xa_str(&mut p, big, "FLDA");
    }
    xa_u32(&mut p, big, rng.below(50) as u32);
    xa_u32(&mut p, big, 1);
    let d = xrand(rng, 3);
    xa_raw(&mut p, big, &d);
    xa_str(&mut p, big, if kind == 0 { "FLDX" } else { "FLDA" });
    let (vmm, noar) = match kind {
        1 => (0x41u8, 4u8),
        2 => (0x41, 6),
        3 => (0x31, 5),               // log warn
        4 => (0x40, 5),               // not verbose
        _ => (0x41, 5),
    };
    xproto(ecu, big, Some((vmm, noar, ids.0, ids.1)), p, "ft_lookalike")
}

const NV_IDS: [u32; 5] = [805312382, 805834673, 800000000, 805834674, 1];
/// traffic the other plugins act on (FIBEX / json files of /repo/tests) and ordinary messages
fn x_traffic(rng: &mut Rng, ecu: &[u8; 4]) -> XMsg {
    let big = rng.chance(1, 5);
    let mut p = vec![];
    match rng.below(12) {
        0 => {
            let n = rng.size(10);
            xproto(ecu, big, None, xrand(rng, n), "plain")
        }
        1 | 2 | 3 => {
            // non-verbose: message id (known to tests/non_verbose*.xml for ECU Ecu1, or not) + data; without an extended header
            // the non-verbose plugin fills one in from the FIBEX
            let id = *rng.pick(&NV_IDS);
            p.extend_from_slice(&if big { id.to_be_bytes() } else { id.to_le_bytes() });
            let n = *rng.pick(&[0u64, 1, 2, 4, 5, 8, 12, 16, 24]);
            p.extend(xrand(rng, n));
            let ext = if rng.chance(3, 5) { None } else { Some((0x40u8, rng.below(2) as u8, pad4(*rng.pick(&["HLD", "APP1", "SYS"])), pad4(*rng.pick(&["MAIN", "ERR", "CTX1"])))) };
            xproto(ecu, big, ext, p, if ext.is_none() { "nonverbose_no_ext" } else { "nonverbose_ext" })
        }
        4 => {
            for _ in 0..rng.range(1, 3) {
                match rng.below(3) {
                    0 => xa_str(&mut p, big, *rng.pick(&["hello", "", "FLDA", "a b 12.5 c"])),
                    1 => xa_u32(&mut p, big, rng.next() as u32),
                    _ => {
                        let d = xrand(rng, 3);
                        xa_raw(&mut p, big, &d)
                    }
                }
            }
            let noar = rng.range(1, 3) as u8;
            xproto(ecu, big, Some((0x41, noar, pad4(*rng.pick(&["APP1", "SYS", "FTA"])), pad4(*rng.pick(&["CTX1", "FILE", "FTC"])))), p, "verbose_log")
        }
        5 => {
            // SOME/IP: NwTrace Ipc, ctid TC: 12 byte header + SOME/IP message of the service tests/fibex1.xml describes
            let mut h = xrand(rng, 12);
            h[8..12].copy_from_slice(&(rng.below(3) as u32).to_be_bytes());
            xa_raw(&mut p, big, &h);
            let mut s = vec![];
            s.extend_from_slice(&(if rng.chance(3, 4) { 64098u16 } else { rng.next() as u16 }).to_be_bytes());
            s.extend_from_slice(&(if rng.chance(3, 4) { 1000u16 } else { rng.next() as u16 }).to_be_bytes());
            let body = xrand(rng, rng.clone().below(5));
            s.extend_from_slice(&((8 + body.len()) as u32).to_be_bytes());
            s.extend_from_slice(&(rng.next() as u32).to_be_bytes());
            s.extend_from_slice(&[1, 1, *rng.pick(&[0u8, 1, 2, 0x80]), 0]);
            s.extend(body);
            xa_raw(&mut p, big, &s);
            xproto(ecu, big, Some((0x15, 2, pad4("APP1"), pad4("TC"))), p, "someip")
        }
        6 => {
            // CAN frame: NwTrace Can, apid CAN, ctid TC
            xa_u32(&mut p, big, *rng.pick(&[1u32, 0x123, 0x7ff, 0x1234_5678]));
            let n = rng.size(8);
            let d = xrand(rng, n);
            xa_raw(&mut p, big, &d);
            xproto(ecu, big, Some((0x25, 2, pad4("CAN"), pad4("TC"))), p, "can")
        }
        7 => {
            // Muniic MMSG (13 arguments)
            xa_str(&mut p, big, "HmiP");
            xa_u32(&mut p, big, 5711);
            xa_u32(&mut p, big, 83029);
            xa_u32(&mut p, big, 7);
            xa_u32(&mut p, big, 0);
            xa_str(&mut p, big, "InitialData...");
            xa_str(&mut p, big, "[Hmi]");
            xa_u32(&mut p, big, 1228779599);
            xa_u32(&mut p, big, 3478824001);
            xa_str(&mut p, big, "C/LC:");
            xa_u8(&mut p, big, 2);
            xa_u8(&mut p, big, 0);
            let d = xrand(rng, 2);
            xa_raw(&mut p, big, &d);
            xproto(ecu, big, Some((0x41, 13, pad4("MUN"), pad4("MMSG"))), p, "muniic")
        }
        8 | 9 => {
            // rewrite target (tests/rewrite.cfg: apid SYS, ctid JOUR, a time stamp in the text)
            xa_str(&mut p, big, *rng.pick(&["2024/01/01 12:00:00.000000 123.456789 kernel: text", "a b 0.5 x", "a b 99999.9 big", "single", "a b 1e5 nomatch"]));
            let ids = if rng.chance(4, 5) { ("SYS", "JOUR") } else { ("SYS", "FILE") };
            xproto(ecu, big, Some((0x41, 1, pad4(ids.0), pad4(ids.1))), p, "rewrite_target")
        }
        _ => {
            // control message: request / response, get software version, set log level...
            let response = rng.chance(2, 3);
            let vmm = (3 << 1) | ((if response { 2u8 } else { 1 }) << 4);
            let id: u32 = *rng.pick(&[19u32, 3, 0x13, 0xf01, 20]);
            p.extend_from_slice(&if big { id.to_be_bytes() } else { id.to_le_bytes() });
            if response {
                p.push(0);
                if id == 19 {
                    p.extend_from_slice(&if big { 8u32.to_be_bytes() } else { 8u32.to_le_bytes() });
                    p.extend_from_slice(b"SW 1.2.3");
                }
            }
            xproto(ecu, big, Some((vmm, 1, pad4("APP1"), pad4("CTX1"))), p, "control")
        }
    }
}

/// SOME/IP segmented transfer: NWST (id, header, ?, number of chunks, chunk size), NWCH chunks, NWEN -- complete, a chunk lost, or
/// without its start (the plugin keeps per-id state across these messages)
fn x_someip_segments(rng: &mut Rng, ecu: &[u8; 4]) -> Vec<XMsg> {
    let big = rng.chance(1, 6);
    let id = *rng.pick(&[0u32, 1, 42, 0x0102_0304]);
    let ext = |noar: u8| Some((0x15u8, noar, pad4("APP1"), pad4("TC")));
    let nr = rng.range(1, 3) as u16;
    let cs = *rng.pick(&[4u16, 8, 16]);
    let total = nr as usize * cs as usize;
    let mut data = vec![];
    data.extend_from_slice(&64098u16.to_be_bytes());
    data.extend_from_slice(&1000u16.to_be_bytes());
    data.extend_from_slice(&(total.saturating_sub(8) as u32).to_be_bytes());
    data.extend_from_slice(&(rng.next() as u32).to_be_bytes());
    data.extend_from_slice(&[1, 1, 2, 0]);
    data.resize(total, 0x33);
    let mut v = vec![];
    let mut p = vec![];
    xa_str(&mut p, big, "NWST");
    xa_raw(&mut p, big, &id.to_le_bytes());
    let mut h = xrand(rng, 12);
    h[8..12].copy_from_slice(&(rng.below(3) as u32).to_be_bytes());
    xa_raw(&mut p, big, &h);
    xa_raw(&mut p, big, &[0]);
    xa_raw(&mut p, big, &nr.to_le_bytes());
    xa_raw(&mut p, big, &cs.to_le_bytes());
    v.push(xproto(ecu, big, ext(6), p, "someip_seg"));
    for (k, c) in data.chunks(cs as usize).enumerate() {
        let mut p = vec![];
        xa_str(&mut p, big, "NWCH");
        xa_raw(&mut p, big, &id.to_le_bytes());
        xa_raw(&mut p, big, &(k as u16).to_le_bytes());
        xa_raw(&mut p, big, c);
        v.push(xproto(ecu, big, ext(4), p, "someip_seg"));
    }
    let mut p = vec![];
    xa_str(&mut p, big, "NWEN");
    xa_raw(&mut p, big, &id.to_le_bytes());
    v.push(xproto(ecu, big, ext(2), p, "someip_seg"));
    match rng.below(5) {
        0 => {
            v.remove(0);
        }
        1 => {
            if v.len() > 2 {
                v.remove(1);
            }
        }
        _ => {}
    }
    v
}

/// CAN: frames before and after the channel announcement (GET_LOG_INFO response for apid CAN / ctid TC) of the ECU
fn x_can_session(rng: &mut Rng, ecu: &[u8; 4]) -> Vec<XMsg> {
    let big = rng.chance(1, 6);
    let mut frame = |rng: &mut Rng| {
        let mut p = vec![];
        xa_u32(&mut p, big, *rng.pick(&[1u32, 0x123, 0x7ff]));
        let n = rng.size(8);
        let d = xrand(rng, n);
        xa_raw(&mut p, big, &d);
        xproto(ecu, big, Some((0x25, 2, pad4("CAN"), pad4("TC"))), p, "can")
    };
    let mut p = vec![];
    p.extend_from_slice(&if big { 3u32.to_be_bytes() } else { 3u32.to_le_bytes() });
    p.push(7);
    let put16 = |p: &mut Vec<u8>, v: u16| p.extend_from_slice(&if big { v.to_be_bytes() } else { v.to_le_bytes() });
    put16(&mut p, 1);
    p.extend_from_slice(b"CAN\0");
    put16(&mut p, 0);
    let desc = b"IuK_CAN 431";
    put16(&mut p, desc.len() as u16);
    p.extend_from_slice(desc);
    let announce = xproto(ecu, big, Some((0x26, 0, pad4("CAN"), pad4("TC"))), p, "can_announce");
    let mut v = vec![];
    if rng.chance(1, 2) {
        v.push(frame(rng));
    }
    v.push(announce);
    for _ in 0..rng.range(1, 2) {
        v.push(frame(rng));
    }
    v
}

/// Muniic configuration message (model hash) followed by a message decoded with it
fn x_muniic_cfg(rng: &mut Rng, ecu: &[u8; 4]) -> XMsg {
    let big = rng.chance(1, 6);
    let mut p = vec![];
    xa_str(&mut p, big, &format!("Version: 20.48, git: 123, model hash: {}", *rng.pick(&["2874425776", "2944352002", "5"])));
    xproto(ecu, big, Some((0x41, 1, pad4("MUN"), pad4("MDLT"))), p, "muniic_cfg")
}

/// random merge that keeps the order inside each sequence
fn x_interleave(rng: &mut Rng, mut seqs: Vec<Vec<XMsg>>) -> Vec<XMsg> {
    for s in seqs.iter_mut() {
        s.reverse();
    }
    let mut out = vec![];
    loop {
        seqs.retain(|s| !s.is_empty());
        if seqs.is_empty() {
            return out;
        }
        let k = rng.below(seqs.len() as u64) as usize;
        out.push(seqs[k].pop().unwrap());
    }
}

/// an input file for the option set: 1..3 file transfers (ids: those the options restrict the plugin to, and others), the
/// look-alikes, traffic for the decoders, of 1..2 ECUs; reception times ascending, timestamps of an ECU = time since its boot
fn gen_opts_input(rng: &mut Rng, opts: &[Opt]) -> Vec<XMsg> {
    let apid = opts.iter().find_map(|o| if let Opt::FtApid(a) = o { Some(pad4(a)) } else { None });
    let ctid = opts.iter().find_map(|o| if let Opt::FtCtid(c) = o { Some(pad4(c)) } else { None });
    let ecus: Vec<[u8; 4]> = if rng.chance(2, 3) { vec![*b"Ecu1"] } else { vec![*b"Ecu1", *b"ECU2"] };
    let names = ["f.bin", "log.txt", "sub/dir/core.bin", "a.dlt", "b.dlt", "in.dlt", "../up.bin", "x", ".bin"];
    let mut seqs: Vec<Vec<XMsg>> = vec![];
    for s in 0..rng.range(1, 3) {
        // the first transfer carries the ids the plugin is restricted to (if any), later ones sometimes other ids
        let ids = if s == 0 || rng.chance(1, 2) {
            (apid.unwrap_or(pad4(*rng.pick(&["FTA", "SYS", "APP1"]))), ctid.unwrap_or(pad4(*rng.pick(&["FTC", "FILE", "CTX1"]))))
        } else {
            (pad4(*rng.pick(&["FTA", "SYS", "OTHR"])), pad4(*rng.pick(&["FTC", "FILE", "OTHR"])))
        };
        let ecu = *rng.pick(&ecus);
        let name = *rng.pick(&names);
        let mut t = x_ft_session(rng, &ecu, ids, name);
        if rng.chance(1, 3) {
            let k = rng.below(t.len() as u64 + 1) as usize;
            t.insert(k, x_ft_lookalike(rng, &ecu, ids));
        }
        seqs.push(t);
    }
    // stateful paths of the decoders: a segmented SOME/IP transfer, a CAN channel announcement, a Muniic configuration
    // (always a candidate; more often when the respective plugin is configured)
    let want = |rng: &mut Rng, o: &Opt| rng.chance(if opts.contains(o) { 5 } else { 1 }, 6);
    if want(rng, &Opt::SomeIp) {
        let ecu = *rng.pick(&ecus);
        seqs.push(x_someip_segments(rng, &ecu));
    }
    if want(rng, &Opt::Can) {
        let ecu = *rng.pick(&ecus);
        seqs.push(x_can_session(rng, &ecu));
    }
    let mut traffic = vec![];
    if want(rng, &Opt::Muniic) {
        let ecu = *rng.pick(&ecus);
        traffic.push(x_muniic_cfg(rng, &ecu));
    }
    for _ in 0..rng.range(2, 8) {
        let ecu = *rng.pick(&ecus);
        traffic.push(x_traffic(rng, &ecu));
    }
    if opts.contains(&Opt::NonVerbose) {
        // messages the FIBEX of /repo/tests describes (ECU Ecu1), long enough, without extended header: the plugin completes it
        for _ in 0..rng.range(1, 3) {
            let big = rng.chance(1, 5);
            let id = *rng.pick(&NV_IDS[..2]);
            let mut p = if big { id.to_be_bytes().to_vec() } else { id.to_le_bytes().to_vec() };
            let n = rng.range(11, 24);
            p.extend(xrand(rng, n));
            traffic.push(xproto(b"Ecu1", big, None, p, "nonverbose_no_ext"));
        }
    }
    seqs.push(traffic);
    let mut ms = x_interleave(rng, seqs);
    let t0 = lcgen::RHO + rng.below(1_000_000) * 1_000_000 + rng.below(1_000_000);
    let boots: Vec<u64> = ecus.iter().map(|_| t0 - rng.range(1, 30) * 1_000_000).collect();
    let mut now = t0;
    for (i, m) in ms.iter_mut().enumerate() {
        now += match rng.below(6) { 0 => rng.range(1_000_000, 3_000_000), 1 => 0, _ => rng.range(100, 400_000) };
        m.rt = now;
        let b = boots[ecus.iter().position(|e| *e == m.ecu).unwrap()];
        m.ts = ((now - b) / 100) as u32 - if rng.chance(1, 8) { rng.below(2000) as u32 } else { 0 };
        m.mcnt = (i & 0xff) as u8;
        if rng.chance(1, 20) {
            m.htyp &= !0x10; // no timestamp
            m.ts = 0;
        }
    }
    ms
}

struct OptsRun {
    a: Vec<u8>,
    b: Vec<u8>,
    /// the plain export of a.dlt (a sample)
    c: Option<Vec<u8>>,
    in_after: Vec<u8>,
    /// files the commands left besides the outputs (auto-saved transfers): relative path, size
    extra: Vec<(String, usize)>,
}
/// T/in.dlt; `adlt convert <opts> -o T/a.dlt T/in.dlt` and `adlt convert <opts'> -o T/b.dlt T/a.dlt` (opts' = opts without
/// --sort) run in T/cwd; optionally `adlt convert -o T/c.dlt T/a.dlt`
fn convert_opts(opts: &[Opt], data: &[u8], with_c: bool) -> Option<Result<OptsRun, String>> {
    let bin = std::env::var("VERIF_ADLT_BIN").ok()?;
    if !std::path::Path::new(&bin).exists() {
        return None;
    }
    let dir = tempfile::tempdir().ok()?;
    let p = |n: &str| dir.path().join(n);
    std::fs::write(p("in.dlt"), data).ok()?;
    std::fs::create_dir(p("cwd")).ok()?;
    if let Some(c) = derived_prior(data, 4) {
        std::fs::write(p("a.dlt"), c).ok()?;
    }
    if let Some(c) = derived_prior(data, 5) {
        std::fs::write(p("b.dlt"), c).ok()?;
    }
    let run = |opts: &[&Opt], out: &str, inp: &str| -> Result<Vec<u8>, String> {
        let mut cmd = std::process::Command::new(&bin);
        cmd.arg("convert");
        for o in opts {
            cmd.args(o.args(dir.path()));
        }
        let o = cmd.arg("-o").arg(p(out)).arg(p(inp)).current_dir(p("cwd")).output().map_err(|e| e.to_string())?;
        if !o.status.success() {
            return Err(format!("adlt convert {:?} exit {:?}: {}", opts, o.status.code(), String::from_utf8_lossy(&o.stderr).chars().take(400).collect::<String>()));
        }
        std::fs::read(p(out)).map_err(|e| e.to_string())
    };
    Some((|| {
        let all: Vec<&Opt> = opts.iter().collect();
        let a = run(&all, "a.dlt", "in.dlt")?;
        let unsorted: Vec<&Opt> = opts.iter().filter(|o| **o != Opt::Sort).collect();
        let b = run(&unsorted, "b.dlt", "a.dlt")?;
        let c = if with_c { Some(run(&[], "c.dlt", "a.dlt")?) } else { None };
        let in_after = std::fs::read(p("in.dlt")).map_err(|e| e.to_string())?;
        let mut extra = vec![];
        let mut stack = vec![dir.path().to_path_buf()];
        while let Some(d) = stack.pop() {
            for e in std::fs::read_dir(&d).map_err(|e| e.to_string())?.flatten() {
                let path = e.path();
                if path.is_dir() {
                    stack.push(path);
                } else {
                    let rel = path.strip_prefix(dir.path()).unwrap().to_string_lossy().to_string();
                    if !["in.dlt", "a.dlt", "b.dlt", "c.dlt"].contains(&rel.as_str()) {
                        extra.push((rel, e.metadata().map(|m| m.len() as usize).unwrap_or(0)));
                    }
                }
            }
        }
        extra.sort();
        Ok(OptsRun { a, b, c, in_after, extra })
    })())
}

struct OptsCase {
    opts: Vec<Opt>,
    msgs: Vec<XMsg>,
    tags: Vec<String>,
}
fn opts_input(msgs: &[XMsg]) -> Result<Vec<u8>, String> {
    let built: Vec<DltMessage> = msgs.iter().enumerate().map(|(i, m)| m.build(i as u32)).collect();
    write_all(&built)
}

/// the frames of `a` put back: the completions the decoders may make undone, a sorted export back in input order -- when `a`
/// holds exactly the input's messages; else `a` as it is
fn normalize_export(inp: &[u8], r0: &Read, a: &[u8], allow_ext: bool, allow_ts: bool, sorted: bool, tags: &mut Vec<String>) -> Vec<u8> {
    let ra = match read_all(0, a) {
        Ok(r) => r,
        Err(_) => return a.to_vec(),
    };
    if ra.skipped != 0 || ra.rest != 0 || ra.msgs.len() != r0.msgs.len() {
        return a.to_vec();
    }
    let sys = DltChar4::from_buf(b"SYS\0");
    let jour = DltChar4::from_buf(b"JOUR");
    // the exported message `m` with the completions undone that are allowed for the input message `m0`; (ext undone, ts undone)
    let undo = |m0: &DltMessage, m: &DltMessage| -> (DltMessage, bool, bool) {
        let mut m = m.clone();
        let (mut e, mut t) = (false, false);
        if allow_ext && m0.extended_header.is_none() && m.extended_header.is_some() {
            m.extended_header = None;
            e = true;
        }
        if allow_ts && m.timestamp_dms != m0.timestamp_dms && m0.apid() == Some(&sys) && m0.ctid() == Some(&jour) {
            m.timestamp_dms = m0.timestamp_dms;
            t = true;
        }
        (m, e, t)
    };
    let frame = |m: &DltMessage| -> Vec<u8> {
        let mut v = vec![];
        let _ = m.to_write(&mut v);
        v
    };
    let mut ms: Vec<Option<DltMessage>> = vec![None; r0.msgs.len()];
    let (mut any_e, mut any_t) = (false, false);
    if sorted {
        // each exported message to the first unused input message it is a completion of
        let want = frames_of(inp, r0);
        let mut permuted = false;
        for (i, g) in ra.msgs.iter().enumerate() {
            let hit = (0..want.len()).filter(|k| ms[*k].is_none()).find_map(|k| {
                let (m, e, t) = undo(&r0.msgs[k], g);
                if frame(&m) == want[k] { Some((k, m, e, t)) } else { None }
            });
            match hit {
                Some((k, m, e, t)) => {
                    ms[k] = Some(m);
                    any_e |= e;
                    any_t |= t;
                    permuted |= k != i;
                }
                None => return a.to_vec(),
            }
        }
        if permuted {
            tags.push("opts_sort_permuted".into());
        }
    } else {
        for (k, (m0, g)) in r0.msgs.iter().zip(ra.msgs.iter()).enumerate() {
            let (m, e, t) = undo(m0, g);
            ms[k] = Some(m);
            any_e |= e;
            any_t |= t;
        }
    }
    if any_e {
        tags.push("opts_ext_header_completed".into());
    }
    if any_t {
        tags.push("opts_timestamp_rewritten".into());
    }
    let ms: Vec<DltMessage> = ms.into_iter().map(|m| m.unwrap()).collect();
    write_all(&ms).unwrap_or_else(|_| a.to_vec())
}

fn record_export_opts(sink: &mut Sink, c: OptsCase, run: Option<Option<Result<OptsRun, String>>>, k: usize) {
    let fail = |c: String, d: String| Verdict::Fail { clause: c, detail: d };
    let mut verdict = Verdict::Ok;
    let mut tags = c.tags.clone();
    tags.push("export_opts".into());
    tags.push(format!("opts_n{}", c.opts.len().min(5)));
    for o in &c.opts {
        tags.push(format!("opt_{}", o.name()));
    }
    for t in c.msgs.iter().map(|m| m.tag).collect::<std::collections::BTreeSet<_>>() {
        tags.push(format!("xmsg_{}", t));
    }
    let has = |code: u64| c.opts.iter().any(|o| o.code() == code);
    let (allow_ext, allow_ts, sorted) = (has(5), has(7), has(10));
    let what = format!("options {:?}", c.opts.iter().map(|o| o.json().to_string()).collect::<Vec<_>>());
    let mut nontrivial = false;
    let obs = match opts_input(&c.msgs) {
        Err(e) => {
            verdict = fail("write_ok".into(), e);
            O::T(vec![O::L(7)])
        }
        Ok(inp) => match read_all(0, &inp) {
            Err(e) => {
                verdict = fail("input_readable".into(), e);
                O::T(vec![O::L(15), o_file(&inp)])
            }
            Ok(r0) => {
                if r0.msgs.len() != c.msgs.len() || r0.skipped != 0 || r0.rest != 0 {
                    verdict = fail("input_is_the_messages_written".into(), format!("{} messages written, {} read, skipped {}", c.msgs.len(), r0.msgs.len(), r0.skipped));
                }
                let run = run.unwrap_or_else(|| convert_opts(&c.opts, &inp, k % 3 == 0));
                match run {
                    None => {
                        tags.push("e2e_skipped_no_binary".into());
                        O::T(vec![O::L(12)])
                    }
                    Some(Err(e)) => {
                        if matches!(verdict, Verdict::Ok) {
                            verdict = fail("convert_opts_runs".into(), e);
                        }
                        O::T(vec![O::L(15), o_file(&inp)])
                    }
                    Some(Ok(r)) => {
                        let norm = normalize_export(&inp, &r0, &r.a, allow_ext, allow_ts, sorted, &mut tags);
                        tags.sort();
                        tags.dedup();
                        if !r.extra.is_empty() {
                            tags.push("opts_file_auto_saved".into());
                        }
                        nontrivial = c.opts.iter().any(|o| matches!(o, Opt::Ft(_))) && c.msgs.iter().any(|m| m.tag == "ft_flda");
                        if matches!(verdict, Verdict::Ok) {
                            // the export clause: exactly the input's messages, in order (under --sort: the same multiset), every
                            // frame byte-identical once the completions a decoder is allowed to make are undone
                            if let Err((cl, d)) = check_export(&inp, &r0, &norm, &norm) {
                                let note = if (allow_ext || allow_ts) && norm == r.a { " (the export does not hold the input's messages one to one: frames compared as they are, completions not undone)" } else { "" };
                                verdict = fail(format!("convert_opts_{}", cl), format!("{}{}; {}", d.chars().take(500).collect::<String>(), note, what));
                            } else if !allow_ext && !allow_ts && !sorted && r.a != inp {
                                verdict = fail("convert_opts_bytes_exact".into(), format!("the export differs from to_write of the input's messages ({} vs {} bytes); {}", r.a.len(), inp.len(), what));
                            } else if r.b != r.a {
                                verdict = fail("convert_opts_export_of_export_identical".into(), format!("{} vs {} bytes, first difference at {:?}; {}", r.a.len(), r.b.len(), r.a.iter().zip(r.b.iter()).position(|(x, y)| x != y), what));
                            } else if r.c.as_ref().map_or(false, |c| *c != r.a) {
                                verdict = fail("convert_opts_plain_export_of_export_identical".into(), format!("{} vs {} bytes; {}", r.a.len(), r.c.as_ref().unwrap().len(), what));
                            } else if r.in_after != inp {
                                verdict = fail("convert_opts_input_file_untouched".into(), format!("in.dlt has {} bytes after the commands, {} before; files left: {:?}; {}", r.in_after.len(), inp.len(), r.extra, what));
                            }
                        }
                        let order = match read_all(0, &norm) {
                            Ok(rn) => O::T(vec![O::T(rn.msgs.iter().map(|m| O::n(m.mcnt())).collect()), O::n(rn.rest as u64)]),
                            Err(_) => O::L(1),
                        };
                        O::T(vec![O::L(14), o_file(&inp), o_file(&norm), order, O::b(r.a == r.b)])
                    }
                }
            }
        },
    };
    let c4 = |c: &[u8; 4]| format!("({}, {}, {}, {})", c[0], c[1], c[2], c[3]);
    let ft = if has(1) {
        let a = c.opts.iter().find_map(|o| if let Opt::FtApid(a) = o { Some(c4(&pad4(a))) } else { None });
        let t = c.opts.iter().find_map(|o| if let Opt::FtCtid(a) = o { Some(c4(&pad4(a))) } else { None });
        format!("(Some ({}, {}))", copt(a), copt(t))
    } else {
        "None".to_string()
    };
    let input_coq = format!("(CExportOpts {} {} {})", cnums(&c.opts.iter().map(|o| o.code()).collect::<Vec<_>>()), ft, clist(&c.msgs.iter().map(|m| m.coq()).collect::<Vec<_>>()));
    let key = format!("{}|{}", what, input_coq);
    let id = sink.next_id();
    sink.push(Case {
        id,
        key,
        input_coq,
        input_json: json!({"kind": "export_opts", "opts": c.opts.iter().map(|o| o.json()).collect::<Vec<_>>(), "msgs": c.msgs.iter().map(|m| m.json()).collect::<Vec<_>>()}),
        obs,
        verdict,
        classes: vec![],
        tags,
        nontrivial,
    });
}

fn record_exports_opts(sink: &mut Sink, cases: Vec<OptsCase>) {
    let next = std::sync::atomic::AtomicUsize::new(0);
    let out: std::sync::Mutex<Vec<Option<Option<Result<OptsRun, String>>>>> = std::sync::Mutex::new(cases.iter().map(|_| None).collect());
    let nthreads = std::thread::available_parallelism().map(|n| n.get()).unwrap_or(4).clamp(2, 8);
    std::thread::scope(|sc| {
        for _ in 0..nthreads {
            sc.spawn(|| loop {
                let k = next.fetch_add(1, std::sync::atomic::Ordering::SeqCst);
                if k >= cases.len() {
                    break;
                }
                let r = opts_input(&cases[k].msgs).ok().and_then(|inp| convert_opts(&cases[k].opts, &inp, k % 3 == 0));
                out.lock().unwrap()[k] = Some(r);
            });
        }
    });
    let runs = out.into_inner().unwrap();
    for (k, (c, r)) in cases.into_iter().zip(runs.into_iter()).enumerate() {
        // (an input that cannot be written is reported by record_export_opts itself)
        let r = if opts_input(&c.msgs).is_ok() { r } else { None };
        record_export_opts(sink, c, r, k);
    }
}

/// the atoms the option sets are made of: one option, or --file_transfer with one of its companions
fn opt_atom(rng: &mut Rng, k: u64) -> Vec<Opt> {
    let glob = |rng: &mut Rng| Opt::Ft(rng.pick(&["*.bin", "*", "*.txt", "nomatch*", "**/*.bin", "*.dlt", "?"]).to_string());
    let apid = |rng: &mut Rng| Opt::FtApid(rng.pick(&["FTA", "SYS", "APP1", "F"]).to_string());
    let ctid = |rng: &mut Rng| Opt::FtCtid(rng.pick(&["FTC", "FILE", "CTX1", "FT"]).to_string());
    match k {
        0 => vec![glob(rng)],
        1 => vec![glob(rng), Opt::FtPath(rng.below(3) as u8)],
        2 => vec![glob(rng), apid(rng)],
        3 => vec![glob(rng), ctid(rng)],
        4 => vec![glob(rng), apid(rng), ctid(rng)],
        5 => vec![Opt::NonVerbose],
        6 => vec![Opt::SomeIp],
        7 => vec![Opt::Rewrite],
        8 => vec![Opt::Can],
        9 => vec![Opt::Muniic],
        10 => vec![Opt::Sort],
        11 => vec![Opt::DebugSort],
        12 => vec![Opt::DebugLcs],
        13 => vec![Opt::Hex],
        14 => vec![Opt::Ascii],
        15 => vec![Opt::Headers],
        // the companions without --file_transfer: no plugin is built
        _ => vec![if rng.chance(1, 2) { apid(rng) } else { Opt::FtPath(rng.below(3) as u8) }, ctid(rng)],
    }
}
const N_ATOMS: u64 = 17;
/// union of atoms; at most one --file_transfer group and one output style
fn opts_union(atoms: Vec<Vec<Opt>>) -> Vec<Opt> {
    let mut v: Vec<Opt> = vec![];
    for a in atoms {
        for o in a {
            let style = |c: u64| (13..=15).contains(&c);
            if v.iter().any(|x| x.code() == o.code() || (style(x.code()) && style(o.code()))) {
                continue;
            }
            v.push(o);
        }
    }
    v
}

fn opts_cases(rng: &mut Rng, tier: &str) -> Vec<OptsCase> {
    let mut v: Vec<OptsCase> = vec![];
    let t = |l: &[&str]| -> Vec<String> { l.iter().map(|s| s.to_string()).collect() };
    if tier != "search" {
        // corpus: hello, FLST, FLDA #1, text, FLDA #2, FLFI, bye -- one complete transfer, extracted to a new directory
        let e = *b"ECU1";
        let ids = (pad4("SYS"), pad4("FILE"));
        let text = |s: &str| {
            let mut p = vec![];
            xa_str(&mut p, false, s);
            xproto(&e, false, Some((0x41, 1, pad4("APP1"), pad4("CTX1"))), p, "verbose_log")
        };
        let flda = |k: u32, d: &[u8]| {
            let mut p = vec![];
            xa_str(&mut p, false, "FLDA");
            xa_u32(&mut p, false, 4711);
            xa_u32(&mut p, false, k);
            xa_raw(&mut p, false, d);
            xa_str(&mut p, false, "FLDA");
            xproto(&e, false, Some((0x41, 5, ids.0, ids.1)), p, "ft_flda")
        };
        let mut flst = vec![];
        xa_str(&mut flst, false, "FLST");
        xa_u32(&mut flst, false, 4711);
        xa_str(&mut flst, false, "corpus_c02.bin");
        xa_u32(&mut flst, false, 8);
        xa_str(&mut flst, false, "2026");
        xa_u32(&mut flst, false, 2);
        xa_u16(&mut flst, false, 4);
        xa_str(&mut flst, false, "FLST");
        let mut flfi = vec![];
        xa_str(&mut flfi, false, "FLFI");
        xa_u32(&mut flfi, false, 4711);
        xa_str(&mut flfi, false, "FLFI");
        let mut ms = vec![text("hello"), xproto(&e, false, Some((0x41, 8, ids.0, ids.1)), flst, "ft_flst"), flda(1, b"data"), text("text"), flda(2, b"DATA"),
            xproto(&e, false, Some((0x41, 3, ids.0, ids.1)), flfi, "ft_flfi"), text("bye")];
        for (i, m) in ms.iter_mut().enumerate() {
            m.rt = lcgen::RHO + 1_000_000 + i as u64 * 1000;
            m.ts = 10_000 + i as u32 * 10;
            m.mcnt = i as u8;
        }
        v.push(OptsCase { opts: vec![Opt::Ft("*.bin".into()), Opt::FtPath(0)], msgs: ms.clone(), tags: t(&["corpus"]) });
        v.push(OptsCase { opts: vec![Opt::Ft("*".into()), Opt::FtApid("SYS".into()), Opt::FtCtid("FILE".into())], msgs: ms.clone(), tags: t(&["corpus"]) });
        v.push(OptsCase { opts: vec![Opt::Ft("nomatch".into()), Opt::FtApid("OTHR".into())], msgs: ms.clone(), tags: t(&["corpus"]) });
        v.push(OptsCase { opts: vec![], msgs: ms, tags: t(&["corpus"]) });
    }
    let mut add = |rng: &mut Rng, atoms: Vec<u64>, tag: &str| {
        let opts = opts_union(atoms.iter().map(|k| opt_atom(rng, *k)).collect());
        let msgs = gen_opts_input(rng, &opts);
        v.push(OptsCase { opts, msgs, tags: vec![tag.to_string()] });
    };
    let rounds = if tier == "thorough" { 4 } else { 1 };
    for _ in 0..rounds {
        // every option alone, twice (two inputs)
        for k in 0..N_ATOMS {
            add(rng, vec![k], "opts_single");
            add(rng, vec![k], "opts_single");
        }
        // pairs: every pair with a --file_transfer atom, and a sample of the others (all of them above quick)
        for i in 0..N_ATOMS {
            for j in i + 1..N_ATOMS {
                let ft_pair = i <= 4 && j > 4;
                if ft_pair && (tier != "quick" || (i + j + rng.below(2)) % 2 == 0) || (!ft_pair && j > 4 && i > 4 && (tier != "quick" || rng.chance(1, 4))) {
                    add(rng, vec![i, j], "opts_pair");
                }
            }
        }
        // larger sets
        for _ in 0..if tier == "quick" { 8 } else { 30 } {
            let n = rng.range(3, 6);
            let atoms: Vec<u64> = (0..n).map(|_| rng.below(N_ATOMS)).collect();
            add(rng, atoms, "opts_many");
        }
        add(rng, vec![4, 1, 5, 6, 7, 8, 9, 11, 12, 14], "opts_all_plugins");
        add(rng, vec![1, 5, 6, 7, 8, 9, 10, 11, 12, 13], "opts_all_plugins_sorted");
    }
    v
}

#[derive(Clone)]
struct CMsg {
    rt: u64,
    ecu: [u8; 4],
    ts: u32,
    htyp: u8,
    mcnt: u8,
    len: u16,
    ext: Option<(u8, u8, [u8; 4], [u8; 4])>,
    payload: Segs,
}

fn record_msg(sink: &mut Sink, c: CMsg, extra: &[&str]) {
    let m = DltMessage {
        index: 0,
        reception_time_us: c.rt,
        ecu: DltChar4::from_buf(&c.ecu),
        timestamp_dms: c.ts,
        standard_header: DltStandardHeader { htyp: c.htyp, mcnt: c.mcnt, len: c.len },
        extended_header: c.ext.map(|e| DltExtendedHeader { verb_mstp_mtin: e.0, noar: e.1, apid: DltChar4::from_buf(&e.2), ctid: DltChar4::from_buf(&e.3) }),
        payload: flatten(&c.payload),
        payload_text: None,
        lifecycle: 0,
    };
    let r = write_all_w(&[m]);
    let mut tags: Vec<String> = extra.iter().map(|s| s.to_string()).collect();
    tags.push("msg".into());
    let obs = match &r {
        Ok(W::Ok(b)) => O::T(vec![O::L(0), o_wbytes(b)]),
        Ok(W::IoErr(p, _)) => {
            tags.push("write_io_err".into());
            O::T(vec![O::L(3), o_wbytes(p)])
        }
        Err(_) => {
            tags.push("write_panic".into());
            O::T(vec![O::L(1)])
        }
    };
    let c4 = |c: &[u8; 4]| format!("({}, {}, {}, {})", c[0], c[1], c[2], c[3]);
    let ext = match &c.ext {
        None => "None".to_string(),
        Some(e) => format!("(Some ({}, {}, {}, {}))", e.0, e.1, c4(&e.2), c4(&e.3)),
    };
    let input_coq = format!("(CMsg {} {} {} {} {} {} {} {})", c.rt, c4(&c.ecu), c.ts, c.htyp, c.mcnt, c.len, ext, coq_segs(&c.payload));
    let id = sink.next_id();
    let plen = segs_len(&c.payload);
    sink.push(Case {
        id,
        key: input_coq.clone(),
        input_coq,
        input_json: json!({"kind": "msg", "rt": c.rt, "ecu": c.ecu, "ts": c.ts, "htyp": c.htyp, "mcnt": c.mcnt, "len": c.len,
            "ext": c.ext.map(|e| json!([e.0, e.1, e.2, e.3])), "payload": c.payload}),
        obs,
        verdict: Verdict::Ok, // directly constructed messages are outside the property's quantifier (model vs code only)
        classes: vec![],
        tags,
        nontrivial: plen > 0 && c.ext.is_some(),
    });
}

fn gen_cmsg(rng: &mut Rng) -> CMsg {
    let htyp = rng.below(256) as u8;
    let plen: usize = match rng.below(8) {
        0 => 65535 - rng.below(30) as usize,
        1 => 65536 + rng.below(30) as usize,
        _ => rng.size(40) as usize,
    };
    let payload: Segs = if plen == 0 {
        vec![]
    } else if plen > 100 {
        vec![(1, g::rbytes(rng, 5, 0)), ((plen - 5) as u64, vec![rng.below(256) as u8])]
    } else {
        vec![(1, g::rbytes(rng, plen, 0))]
    };
    CMsg {
        rt: match rng.below(5) { 0 => 0, 1 => u64::MAX, 2 => (u32::MAX as u64 + 1) * 1_000_000 + rng.below(1_000_000), _ => rng.below(4_000_000_000) * 1_000_000 + rng.below(1_000_000) },
        ecu: g::r4(rng),
        ts: rng.next() as u32,
        htyp,
        mcnt: rng.below(256) as u8,
        len: rng.next() as u16,
        ext: if rng.chance(1, 2) { Some((rng.below(256) as u8, rng.below(256) as u8, g::r4(rng), g::r4(rng))) } else { None },
        payload,
    }
}

fn stream_of(inp: Input) -> (u32, Segs) {
    match inp {
        Input::Raw { start, segs } => (start, segs),
        Input::Stream { framing, start, parts } => (start, g::build(framing, &parts).segs),
    }
}

fn main() {
    let a = parse_args();
    let mut sink = Sink::new("C02", &a.out);
    sink.shard_size = 50;
    if let Some(p) = &a.replay {
        let v = read_replay(p);
        let c = &v["case"];
        if c["kind"] == "export_runs" {
            let runs: Runs = c["runs"].as_array().unwrap().iter().map(|r| (r[0].as_u64().unwrap(), r[1].as_u64().unwrap(), r[2].as_bool().unwrap())).collect();
            record_export_big(&mut sink, c["t0"].as_u64().unwrap(), runs, vec!["replay".to_string()], None);
        } else if c["kind"] == "export_over" {
            let chain: Vec<Vec<MSpec>> = c["chain"].as_array().unwrap().iter().map(|s| s.as_array().unwrap().iter().map(MSpec::from_json).collect()).collect();
            record_export_over(&mut sink, OverCase { pre: prior_from_json(&c["pre"]), chain, pre2: prior_from_json(&c["pre2"]), tags: vec!["replay".to_string()] }, None);
        } else if c["kind"] == "export_opts" {
            let oc = OptsCase { opts: c["opts"].as_array().unwrap().iter().map(Opt::from_json).collect(), msgs: c["msgs"].as_array().unwrap().iter().map(XMsg::from_json).collect(), tags: vec!["replay".to_string()] };
            record_export_opts(&mut sink, oc, None, 0);
        } else if c["kind"] == "export_plugin" {
            record_export_plugin(&mut sink, prior_from_json(&c["pre"]), c["specs"].as_array().unwrap().iter().map(MSpec::from_json).collect(), &["replay"]);
        } else if c["kind"] == "export" {
            record_export(&mut sink, c["specs"].as_array().unwrap().iter().map(MSpec::from_json).collect(), &["replay"], None);
        } else if c["kind"] == "stream" {
            record_stream(&mut sink, c["start"].as_u64().unwrap() as u32, serde_json::from_value(c["segs"].clone()).unwrap(), &["replay"]);
        } else {
            let a4 = |x: &Value| -> [u8; 4] {
                let v: Vec<u8> = serde_json::from_value(x.clone()).unwrap();
                [v[0], v[1], v[2], v[3]]
            };
            let ext = if c["ext"].is_null() { None } else { Some((c["ext"][0].as_u64().unwrap() as u8, c["ext"][1].as_u64().unwrap() as u8, a4(&c["ext"][2]), a4(&c["ext"][3]))) };
            record_msg(&mut sink, CMsg { rt: c["rt"].as_u64().unwrap(), ecu: a4(&c["ecu"]), ts: c["ts"].as_u64().unwrap() as u32, htyp: c["htyp"].as_u64().unwrap() as u8,
                mcnt: c["mcnt"].as_u64().unwrap() as u8, len: c["len"].as_u64().unwrap() as u16, ext, payload: serde_json::from_value(c["payload"].clone()).unwrap() }, &["replay"]);
        }
        sink.finish();
        return;
    }
    let mut rng = Rng::new(a.seed);
    let quick = a.tier == "quick";
    if a.tier != "search" {
        // corpus: all optional parts + big endian (the rewritten header is 8 bytes shorter), serial input, markers in payloads
        for f in 0..2u8 {
            let mut m1 = g::plain(0x3f, b"xyz");
            m1.micros = 999_999;
            let m2 = g::plain(0x21, b"xxDLT\x01yyDLS\x01");
            let m3 = g::plain(0x20, b"");
            let (s, segs) = stream_of(Input::Stream { framing: f, start: 10, parts: vec![Part::G(vec![(1, vec![1, 2, 3])]), Part::M(m1), Part::M(m2), Part::M(m3)] });
            record_stream(&mut sink, s, segs.clone(), &["corpus"]);
            record_stream(&mut sink, 0, segs, &["corpus", "e2e"]);
        }
        // near-maximum payloads: every header shape at len = 65535
        for htyp in [0x20u8, 0x3f, 0x2c, 0x31] {
            let mut m = g::plain(htyp, b"");
            let hs = m.hs();
            m.payload = vec![(1, vec![9, 8, 7]), ((65535 - hs - 3) as u64, vec![htyp])];
            let (s, segs) = stream_of(Input::Stream { framing: 0, start: 0, parts: vec![Part::M(m), Part::M(g::plain(0x20, b"q"))] });
            record_stream(&mut sink, s, segs, &["near_max"]);
        }
        // all 32 flag sets x both framings, two messages each
        for f in 0..2u8 {
            for low in 0..32u8 {
                let mut m1 = g::gen_msg(&mut rng, 6);
                m1.htyp = (m1.htyp & 0xe0) | low;
                m1.micros %= 1_000_000;
                let mut m2 = g::gen_msg(&mut rng, 3);
                m2.htyp = (m2.htyp & 0xe0) | low;
                m2.micros %= 1_000_000;
                let (s, segs) = stream_of(Input::Stream { framing: f, start: 100, parts: vec![Part::M(m1), Part::M(m2)] });
                record_stream(&mut sink, s, segs, &["flag_product"]);
            }
        }
        // u16 boundary of the rewritten length
        for (ts, ext, plen) in [(false, false, 65531usize), (false, false, 65532), (true, false, 65527), (true, false, 65528), (true, true, 65517), (true, true, 65518), (false, true, 65521), (false, true, 65522), (false, false, 65536), (true, true, 65536 + 65517)] {
            record_msg(&mut sink, CMsg { rt: 1_700_000_000_123_456, ecu: *b"ECU1", ts: 5, htyp: 0x20 | if ts { 0x10 } else { 0 } | if ext { 1 } else { 0 }, mcnt: 3, len: 0,
                ext: if ext { Some((0x41, 1, *b"APID", *b"CTID")) } else { None }, payload: vec![(plen as u64, vec![0x5a])] }, &["corpus", "u16_boundary"]);
        }
    }
    // family 3: own random stream, so that the cases of the families above do not depend on it
    let mut xrng = Rng::new(a.seed ^ 0xe4b0_27);
    let mut xcases: Vec<(Vec<MSpec>, Vec<String>)> = vec![];
    if a.tier != "search" {
        let t = |l: &[&str]| -> Vec<String> { l.iter().map(|s| s.to_string()).collect() };
        // a dense confirmed lifecycle, k = 0..4 messages of a tentative lifecycle merged back, with and without a tail
        for k in 0..5u64 {
            xcases.push((merge_back_dense(k, 50, 5), t(&["corpus", "merge_back_dense"])));
            xcases.push((merge_back_dense(k, 12, if k % 2 == 0 { 0 } else { 2 }), t(&["corpus", "merge_back_dense"])));
        }
        for (_pre, msgs) in lcgen::corpus().into_iter().filter(|c| c.0.is_empty()) {
            xcases.push((msgs, t(&["corpus", "lc_corpus"])));
        }
        xcases.push((vec![], t(&["corpus", "empty_file"])));
    }
    let ne = a.count.unwrap_or(if quick { 260 } else if a.tier == "search" { 900 } else { 3000 });
    export_cases(&mut xcases, &mut xrng, ne, if quick { 60 } else { 80 });
    let mut bigs = gen_big_layouts(&mut xrng, if quick || a.tier == "search" { 1 } else { 4 });
    if a.tier != "search" {
        // corpus: 1100 messages of 64 bytes (70 400 bytes: 65 536 unconsumed bytes at the only compaction)
        bigs.insert(0, (lcgen::RHO + 123, vec![(1100, 64, true)], vec!["corpus".to_string(), "big_uniform_pow2".to_string()]));
    }
    if a.count == Some(0) {
        bigs.clear();
    }
    record_exports(&mut sink, xcases, bigs);
    // family 4: the prior state of the `-o` path as an input dimension; family 5: the library's export writer
    let mut orng = Rng::new(a.seed ^ 0x0f11_e5);
    let mut ocases: Vec<OverCase> = if a.tier != "search" { over_corpus() } else { vec![] };
    let no = a.count.map(|c| c / 3).unwrap_or(if quick { 96 } else if a.tier == "search" { 300 } else { 1200 });
    for k in 0..no {
        ocases.push(over_case(&mut orng, k % 18));
    }
    record_exports_over(&mut sink, ocases);
    let np = a.count.map(|c| c / 8).unwrap_or(if quick { 36 } else if a.tier == "search" { 100 } else { 400 });
    if a.tier != "search" {
        let mid = merge_back_dense(1, 12, 2);
        record_export_plugin(&mut sink, None, mid.clone(), &["corpus"]);
        record_export_plugin(&mut sink, Some((merge_back_dense(2, 36, 2), 0, vec![])), mid.clone(), &["corpus"]);
        record_export_plugin(&mut sink, Some((vec![], 0, vec![(5000, vec![0x5a])])), mid.clone(), &["corpus"]);
        record_export_plugin(&mut sink, Some((mid, 0, vec![])), vec![], &["corpus"]);
    }
    for k in 0..np {
        let specs = if k % 12 == 11 { vec![] } else { gen_small_specs(&mut orng) };
        let len = export_input(&specs).map_or(0, |f| f.len()) + 120;
        let (pre, pt) = gen_prior(&mut orng, [3, 5, 8, 0, 3, 6, 1, 2, 5, 7, 3, 9][(k % 12) as usize], &specs, len);
        let t = format!("plugin_pre_{}", pt);
        record_export_plugin(&mut sink, pre, specs, &[&t]);
    }
    // family 6: the export under the non-selecting options of the CLI (own random stream)
    let mut prng = Rng::new(a.seed ^ 0x0b7_10f5);
    if a.count != Some(0) {
        let pcases = opts_cases(&mut prng, &a.tier);
        record_exports_opts(&mut sink, pcases);
    }
    let n = a.count.unwrap_or(if quick { 300 } else if a.tier == "search" { 1200 } else { 5000 });
    for k in 0..n {
        match k % 4 {
            0 => {
                let c = gen_cmsg(&mut rng);
                record_msg(&mut sink, c, &[]);
            }
            1 => {
                let (s, segs) = stream_of(g::gen_malformed(&mut rng));
                record_stream(&mut sink, s, segs, &["malformed"]);
            }
            _ => {
                let inp = if quick { g::gen_stream(&mut rng, 5, 20, 12) } else { g::gen_stream(&mut rng, 10, 64, 30) };
                let (s, segs) = stream_of(inp);
                // every 16th case also goes through the `adlt convert -o` binary twice (index starts at 0 there)
                if k % 16 == 2 {
                    record_stream(&mut sink, 0, segs, &["e2e"]);
                } else {
                    record_stream(&mut sink, s, segs, &[]);
                }
            }
        }
    }
    sink.finish();
}
