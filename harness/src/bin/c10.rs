//! C10 — adlt::utils::buffer_sort_messages vs Sort/BufferSort.v
//!
//! One case = (window size, minimum delay, lifecycle table + its visibility, message stream).
//! The real function is fed through an mpsc channel, the lifecycle table is a real evmap read handle
//! (published / never refreshed / destroyed), the outflow closure collects the delivered messages.
//! The table entries are real `Lifecycle` values of every kind the table can hold: plain ones, resumed ones
//! (start after / equal to / before the start recorded for the lifecycle they resume, chains), made with the
//! cfg(adlt_verif) constructor or through the public API (`Lifecycle::new` + `Lifecycle::update` sequences, as the
//! lifecycle detection does).  What the entries look like through their public accessors goes into the Coq case;
//! the model takes `start_time` of it.
//! Observation: positions (in the input) of the delivered messages in delivery order + "fields intact".
//! Oracle (the property text, independent of the model): permutation + intact always; ordered by
//! (calculated time, index) with ties in original order whenever the bound hypothesis holds; calculated time =
//! start_time of the entry under the message's lifecycle id + timestamp, capped at the reception time.
use adlt::dlt::DltMessage;
use adlt::lifecycle::{Lifecycle, LifecycleId, LifecycleItem};
use std::sync::mpsc::channel;
use vharness::*;

const US_PER_SEC: u64 = 1_000_000;
/// what parse_lifecycles_buffered_from_stream passes to Lifecycle::update
const LC_MAX_BUFFERING_DELAY_US: u64 = 60 * US_PER_SEC;

/// (index, reception time us, ecu number, timestamp dms, ext code (0: no extended header, else 1 + verb_mstp_mtin), lifecycle id)
type RawMsg = (u32, u64, u8, u32, u16, u32);

/// one message handed to the lifecycle API: (reception time us, timestamp dms, kind 0: with timestamp, 1: control request,
/// 2: without timestamp)
type ApiOp = (u64, u32, u8);

/// how a table entry (a `Lifecycle` value) is made
#[derive(Clone, Debug, PartialEq)]
enum Build {
    /// `Lifecycle::new(dummy message)` with the pub field `start_time` assigned
    Plain(u64),
    /// the cfg(adlt_verif) constructor: start_time, ecu, resume origin (id, start time recorded for it)
    Direct { start: u64, ecu: u8, resume: Option<(u32, u64)> },
    /// the public API as the lifecycle detection uses it: `Lifecycle::new(first)`, then `current.update(next, 60 s)`;
    /// a lifecycle returned by update becomes the current one.  The entry is the k-th lifecycle created (the last
    /// one if there are fewer)
    Api { ecu: u8, ops: Vec<ApiOp>, k: u8 },
}
/// (key in the table, the entry)
type Entry = (u32, Build);

/// a table entry seen through the public interface of `Lifecycle`
#[derive(Clone, Debug, PartialEq)]
struct View {
    start: u64,
    is_resume: bool,
    resume_start: u64,
    resume_time: u64,
    end: u64,
    suspend: u64,
    nr: u32,
}

#[derive(Clone, Debug)]
struct CaseIn {
    w: u8,
    mind: u64,
    /// 0: published, 1: inserted but never refreshed (read() yields None), 2: published, then the write handle dropped
    table_mode: u8,
    table: Vec<Entry>,
    /// table changes made from inside the outflow closure: (after this many delivered messages, new table;
    /// None = the write handle is dropped, the map is destroyed).  Deterministic stand-in for the concurrent writer.
    changes: Vec<(usize, Option<Vec<Entry>>)>,
    msgs: Vec<RawMsg>,
}

fn new_lc_item(start: u64) -> Lifecycle {
    let mut dummy = dltgen::plain_msg(0, 0, 0, 0);
    let mut lc = Lifecycle::new(&mut dummy);
    lc.start_time = start;
    lc
}

fn api_msg(ecu: u8, op: &ApiOp) -> DltMessage {
    let (rt, ts, kind) = *op;
    let mut m = dltgen::plain_msg(0, ecu, rt, ts);
    match kind {
        1 => m = dltgen::with_ext(m, 0x16, 0, b"APID", b"CTID"),
        2 => m.standard_header.htyp &= !0x10,
        _ => {}
    }
    m
}

/// the lifecycles the detection would create for these messages of one ECU (no merging), in creation order
fn api_chain(ecu: u8, ops: &[ApiOp]) -> Vec<Lifecycle> {
    let mut chain = vec![];
    let mut m = api_msg(ecu, &ops[0]);
    let mut cur = Lifecycle::new(&mut m);
    for op in &ops[1..] {
        let mut m = api_msg(ecu, op);
        if let Some(n) = cur.update(&mut m, LC_MAX_BUFFERING_DELAY_US) {
            chain.push(cur);
            cur = n;
        }
    }
    chain.push(cur);
    chain
}

fn materialize(e: &Entry) -> Lifecycle {
    match &e.1 {
        Build::Plain(s) => new_lc_item(*s),
        Build::Direct { start, ecu, resume } => Lifecycle::verif_new(e.0, dltgen::ecu(*ecu), *start, *resume),
        Build::Api { ecu, ops, k } => {
            if ops.is_empty() {
                return new_lc_item(0);
            }
            let mut c = api_chain(*ecu, ops);
            let k = (*k as usize).min(c.len() - 1);
            c.swap_remove(k)
        }
    }
}

fn view_of(l: &Lifecycle) -> View {
    // the derived times can overflow for extreme entries (the sort never calls them): u64::MAX then
    let safe = |f: &dyn Fn() -> u64| catch(std::panic::AssertUnwindSafe(|| f())).unwrap_or(u64::MAX);
    View {
        start: l.start_time,
        is_resume: l.is_resume(),
        resume_start: safe(&|| l.resume_start_time()),
        resume_time: safe(&|| l.resume_time()),
        end: safe(&|| l.end_time()),
        suspend: safe(&|| l.suspend_duration()),
        nr: l.nr_msgs,
    }
}

/// a table version as the oracle and the Coq side see it: (key, start time for the oracle, accessor view)
type MatTable = Vec<(u32, u64, View)>;
struct Mat {
    table: MatTable,
    changes: Vec<(usize, Option<MatTable>)>,
}
fn mat_table(t: &[Entry]) -> MatTable {
    t.iter()
        .map(|e| {
            let v = view_of(&materialize(e));
            // the lifecycle start of the property text: the number the entry was made with; for entries made by the
            // public API the value of the pub field start_time
            let start = match &e.1 {
                Build::Plain(s) => *s,
                Build::Direct { start, .. } => *start,
                Build::Api { .. } => v.start,
            };
            assert_eq!(start, v.start, "harness: entry not built as specified");
            (e.0, start, v)
        })
        .collect()
}
fn mat_of(c: &CaseIn) -> Mat {
    Mat { table: mat_table(&c.table), changes: c.changes.iter().map(|(at, t)| (*at, t.as_ref().map(|t| mat_table(t)))).collect() }
}

fn build_msg(pos: usize, r: &RawMsg) -> DltMessage {
    let (index, rt, ecu, ts, ext, lc) = *r;
    let mut m = dltgen::plain_msg(index, ecu, rt, ts);
    if ext != 0 {
        m = dltgen::with_ext(m, (ext - 1) as u8, (pos % 3) as u8, b"APID", b"CTID");
    }
    m.standard_header.mcnt = (pos * 7 % 256) as u8;
    m.payload = (pos as u32).to_le_bytes().to_vec();
    m.payload.push((pos % 251) as u8);
    m.standard_header.len = (4 + 4 + 4 + if ext != 0 { 10 } else { 0 } + m.payload.len()) as u16;
    m.lifecycle = lc;
    m
}

fn is_ctrl_request(ext: u16) -> bool {
    ext != 0 && {
        let v = (ext - 1) as u8;
        (v >> 1) & 7 == 3 && v >> 4 == 1
    }
}

fn run_impl(c: &CaseIn) -> Result<(Vec<usize>, bool), String> {
    let c = c.clone();
    catch_loc(move || {
        let inputs: Vec<DltMessage> = c.msgs.iter().enumerate().map(|(p, r)| build_msg(p, r)).collect();
        let (lcs_r, mut lcs_w) = evmap::new::<LifecycleId, LifecycleItem>();
        for e in &c.table {
            lcs_w.insert(e.0, materialize(e));
        }
        if c.table_mode != 1 {
            lcs_w.refresh();
        }
        let writer = std::cell::RefCell::new(if c.table_mode == 2 {
            drop(lcs_w);
            None
        } else {
            Some(lcs_w)
        });
        let content = std::cell::RefCell::new(c.table.iter().map(|x| x.0).collect::<Vec<u32>>());
        let (tx, rx) = channel();
        for m in inputs.iter() {
            tx.send(m.clone()).unwrap();
        }
        drop(tx);
        let out = std::cell::RefCell::new(Vec::<DltMessage>::new());
        let res = adlt::utils::buffer_sort_messages(
            rx,
            &|m| {
                out.borrow_mut().push(m);
                let n = out.borrow().len();
                for (at, newt) in c.changes.iter() {
                    if *at == n {
                        let mut wopt = writer.borrow_mut();
                        match newt {
                            None => {
                                *wopt = None; // drops the write handle: read() yields None from now on
                            }
                            Some(t) => {
                                if let Some(w) = wopt.as_mut() {
                                    let mut cont = content.borrow_mut();
                                    for id in cont.iter() {
                                        if !t.iter().any(|x| x.0 == *id) {
                                            w.empty(*id);
                                        }
                                    }
                                    for e in t.iter() {
                                        w.update(e.0, materialize(e));
                                    }
                                    w.refresh();
                                    *cont = t.iter().map(|x| x.0).collect();
                                }
                            }
                        }
                    }
                }
                Ok(())
            },
            &lcs_r,
            c.w,
            c.mind,
        );
        assert!(res.is_ok(), "buffer_sort_messages returned Err although outflow never fails");
        drop(writer);
        let out = out.into_inner();
        let mut intact = true;
        let mut tags = vec![];
        for m in out.iter() {
            let pos = if m.payload.len() >= 4 { u32::from_le_bytes([m.payload[0], m.payload[1], m.payload[2], m.payload[3]]) as usize } else { usize::MAX };
            if pos < inputs.len() {
                if *m != inputs[pos] {
                    intact = false;
                }
                tags.push(pos);
            } else {
                intact = false;
                tags.push(inputs.len());
            }
        }
        (tags, intact)
    })
}

/// the calculated time as the property words it (lifecycle start = start time of the table entry under the message's
/// lifecycle id, 0 without entry or without published table); None if the sum does not fit u64 (outside the domain).
/// `key` selects what is taken as an entry's start: the oracle uses the start time; the tags also ask what the key
/// would be under other readings of the entry.
fn calc_with(c: &CaseIn, mt: &Mat, r: &RawMsg, key: &dyn Fn(&(u32, u64, View)) -> u64) -> Option<u64> {
    let (_, rt, _, ts, ext, lc) = *r;
    if is_ctrl_request(ext) {
        return Some(rt);
    }
    let start = if c.table_mode == 0 { mt.table.iter().find(|x| x.0 == lc).map(|x| key(x)).unwrap_or(0) } else { 0 };
    // with a changing table every version must fit (the ordering clause is only evaluated for a fixed table)
    for (_, t) in mt.changes.iter() {
        if let Some(t) = t {
            let st = t.iter().find(|x| x.0 == lc).map(|x| key(x)).unwrap_or(0);
            st.checked_add(ts as u64 * 100)?;
        }
    }
    start.checked_add(ts as u64 * 100).map(|t| t.min(rt))
}
fn calc_of(c: &CaseIn, mt: &Mat, r: &RawMsg) -> Option<u64> {
    calc_with(c, mt, r, &|x| x.1)
}

fn in_overflow_domain(c: &CaseIn, mt: &Mat) -> bool {
    // sums the function forms: start + timestamp, reception + window span, min_delay + max(1000 s, delay), calc + threshold
    let maxrt = c.msgs.iter().map(|m| m.1).max().unwrap_or(0) as u128;
    let fits = 2 * maxrt + c.mind as u128 + 1000 * US_PER_SEC as u128 + 255 * US_PER_SEC as u128 <= u64::MAX as u128;
    fits && c.msgs.iter().all(|m| calc_of(c, mt, m).is_some())
}

fn hypothesis_holds(c: &CaseIn, mt: &Mat) -> bool {
    c.changes.is_empty() && c.msgs.windows(2).all(|p| p[0].1 <= p[1].1 && p[0].0 < p[1].0)
        && c.msgs.iter().all(|m| match calc_of(c, mt, m) {
            Some(calc) => m.1 - calc <= c.mind,
            None => false,
        })
}

fn oracle(c: &CaseIn, mt: &Mat, r: &Result<(Vec<usize>, bool), String>) -> Verdict {
    let fail = |cl: &str, d: String| Verdict::Fail { clause: cl.into(), detail: d };
    let (tags, intact) = match r {
        Err(e) => {
            // window size 0 and sums beyond u64 are outside the quantifier
            if (c.w == 0 && !c.msgs.is_empty()) || !in_overflow_domain(c, mt) {
                return Verdict::Ok;
            }
            return fail("no_panic", e.clone());
        }
        Ok(x) => x,
    };
    let n = c.msgs.len();
    if tags.len() != n {
        return fail("permutation", format!("{} messages out, {} in", tags.len(), n));
    }
    let mut seen = vec![false; n];
    for t in tags {
        if *t >= n || seen[*t] {
            return fail("permutation", format!("position {} duplicated or unknown", t));
        }
        seen[*t] = true;
    }
    if !intact {
        return fail("messages_unaltered", "a delivered message differs from the message put in".into());
    }
    if hypothesis_holds(c, mt) {
        for p in tags.windows(2) {
            let (a, b) = (&c.msgs[p[0]], &c.msgs[p[1]]);
            let (ca, cb) = (calc_of(c, mt, a).unwrap(), calc_of(c, mt, b).unwrap());
            if ca > cb || (ca == cb && p[0] > p[1]) {
                return fail("ordered_under_bound", format!("input positions {} (calc {}) before {} (calc {})", p[0], ca, p[1], cb));
            }
        }
    }
    Verdict::Ok
}

// ------------------------------------------------------------------------------------------ generator
/// messages for the lifecycle API so that the first lifecycle starts at `tstart`: normal traffic (the buffering delay
/// shrinks and grows: the start estimate moves earlier), reception gaps > 10 s with continuing timestamps (resume, also
/// chains of them), messages that pull the start of a resumed lifecycle to around / exactly to / before the start
/// recorded for the lifecycle it resumes, control requests, messages without timestamp, timestamps that restart
fn gen_api(rng: &mut Rng, ecu: u8, tstart: u64) -> Build {
    let ts0: u64 = match rng.below(6) {
        0 => 0,
        1 => 1,
        2 => rng.below(1000),
        3 => 100_000 + rng.below(1_000_000),
        _ => rng.below(300_000),
    };
    let mut rt = tstart + ts0 * 100;
    let mut ts = ts0;
    let mut ops: Vec<ApiOp> = vec![(rt, ts as u32, if rng.chance(1, 15) { 1 } else { 0 })];
    let n = rng.below(8);
    for _ in 0..n {
        match rng.below(11) {
            0 | 1 => {
                let d = rng.below(2_000_000);
                rt += d;
                ts += d / 100;
                if rng.chance(1, 2) {
                    ts = ts.saturating_sub(rng.below(5000));
                }
                ops.push((rt, ts as u32, 0));
            }
            2 => {
                rt += rng.below(1_000_000);
                ts += rng.below(300_000);
                ops.push((rt, ts as u32, 0));
            }
            3 | 4 | 5 => {
                let g = rng.range(10_500_000, 60_000_000);
                let t = rng.below(g - 10_400_000);
                rt += g;
                ts += t / 100;
                ops.push((rt, ts as u32, 0));
            }
            6 | 7 => {
                let chain = api_chain(ecu, &ops);
                if chain.len() >= 2 {
                    let origin = chain[chain.len() - 2].start_time;
                    let target = match rng.below(8) {
                        0 | 1 => origin,
                        2 => origin.saturating_sub(100),
                        3 => origin + 100,
                        4 => origin.saturating_sub(1),
                        5 => origin + 1,
                        6 => origin.saturating_sub(rng.below(9_000_000)),
                        _ => origin + rng.below(5_000_000),
                    };
                    let mut nrt = rt + rng.below(1_500_000);
                    if nrt >= target {
                        nrt += (100 - (nrt - target) % 100) % 100;
                        let nts = (nrt - target) / 100;
                        if nts <= u32::MAX as u64 {
                            rt = nrt;
                            ts = nts;
                            ops.push((rt, ts as u32, 0));
                        }
                    }
                }
            }
            8 => ops.push((rt + rng.below(1_000_000), rng.below(1 << 32) as u32, 1)),
            9 => {
                rt += rng.below(1_000_000);
                ops.push((rt, 0, 2));
            }
            _ => {
                rt += rng.range(1_000_000, 40_000_000);
                ts = rng.below(50_000);
                ops.push((rt, ts as u32, 0));
            }
        }
    }
    let chain = api_chain(ecu, &ops);
    let k = if rng.chance(2, 3) { chain.len() - 1 } else { rng.below(chain.len() as u64) as usize };
    // move everything so that the chosen lifecycle (not the first one) starts around tstart
    let s = chain[k].start_time;
    if s > tstart {
        let d = s - tstart;
        if ops.iter().all(|o| o.0 >= d + o.1 as u64 * 100) {
            for o in ops.iter_mut() {
                o.0 -= d;
            }
        }
    } else if s < tstart {
        let d = tstart - s;
        for o in ops.iter_mut() {
            o.0 += d;
        }
    }
    Build::Api { ecu, ops, k: k as u8 }
}

/// a table entry with (about) the start time `tstart`: every kind of `Lifecycle` value the table can hold
fn gen_build(rng: &mut Rng, ecu: u8, tstart: u64, table: &[(u32, u64)], wild: bool) -> Build {
    let huge = tstart > 1 << 62;
    match rng.below(20) {
        0..=5 => Build::Plain(tstart),
        6 | 7 => Build::Direct { start: tstart, ecu, resume: None },
        8..=13 => {
            // a resumed lifecycle: which lifecycle it resumes (in the table or not) and the start time recorded for that one
            let existing = if !table.is_empty() && rng.chance(3, 4) { Some(*rng.pick(table)) } else { None };
            let oid = match existing {
                Some(x) => x.0,
                None => 1000 + rng.below(5) as u32,
            };
            let ostart = match rng.below(11) {
                0 => tstart,
                1 => tstart.saturating_add(1),
                2 => tstart.saturating_sub(1),
                3 => tstart.saturating_add(100),
                4 => tstart.saturating_sub(100),
                5 | 6 => tstart.saturating_add(rng.below(30 * US_PER_SEC)), // this start was moved to before the origin's
                7 => tstart.saturating_sub(rng.below(30 * US_PER_SEC)),     // the usual: resumed after the origin
                8 => existing.map(|x| x.1).unwrap_or(0),                    // the origin's start as the table has it
                9 => {
                    if wild {
                        u64::MAX - rng.below(3)
                    } else {
                        0
                    }
                }
                _ => tstart.saturating_add(rng.below(2_000_000)),
            };
            Build::Direct { start: tstart, ecu, resume: Some((oid, ostart)) }
        }
        _ if huge => Build::Plain(tstart),
        _ => gen_api(rng, ecu, tstart),
    }
}

/// the same entry with another start time (table changes while sorting); what it resumes is kept
fn with_start(e: &Entry, start: u64) -> Entry {
    match &e.1 {
        Build::Plain(_) => (e.0, Build::Plain(start)),
        Build::Direct { ecu, resume, .. } => (e.0, Build::Direct { start, ecu: *ecu, resume: *resume }),
        Build::Api { ecu, .. } => {
            let v = view_of(&materialize(e));
            let resume = if v.is_resume { Some((0, if v.resume_start != v.start { v.resume_start - 1 } else { v.start - v.suspend })) } else { None };
            (e.0, Build::Direct { start, ecu: *ecu, resume })
        }
    }
}

fn gen_case(rng: &mut Rng, big: bool) -> CaseIn {
    let w: u8 = match rng.below(20) {
        0 => 0,
        1 => 255,
        2..=5 => 1,
        6..=9 => 2,
        10..=14 => 3,
        _ => rng.range(4, 6) as u8,
    };
    let mind: u64 = match rng.below(14) {
        0 => 0,
        1 => 1,
        2 => 100,
        3 => 50_000,
        4 | 5 => 500_000,
        6 | 7 => 2_000_000,
        8 => 20_000_000,
        9 => rng.range(0, 3_000_000),
        10 => 1_000_000,
        11 => 999_999_999,
        12 => {
            if rng.chance(1, 3) {
                u64::MAX - rng.below(3_000_000_000)
            } else {
                rng.range(0, 5_000_000)
            }
        }
        _ => 200_000,
    };
    // style: 0 everything inside the bound (the ordering hypothesis is meant to hold), 1 mostly inside, 2 wild
    let style = match rng.below(10) {
        0..=4 => 0,
        5..=7 => 1,
        _ => 2,
    };
    let base: u64 = match rng.below(6) {
        0 => 0,
        1 => rng.range(0, 5_000_000),
        2 | 3 => 1_600_000_000_000_000 + rng.below(1_000_000_000),
        4 => 1_000_000_000_000,
        _ => rng.range(1_000_000, 100_000_000),
    };
    let necu = 1 + rng.below(3) as usize;
    let maxn = if big { 120 } else { 60 };
    let n = match rng.below(10) {
        0 => rng.below(4),
        1 => maxn,
        _ => rng.range(3, maxn),
    } as usize;
    // tie mode: few distinct reception times and indices, timestamps beyond the reception time (capped):
    // many entries with equal (calculated time, index) so that the heap's tie-breaking shows
    let tie_mode = rng.chance(1, 7);
    // time step profile: 0 dense (ms), 1 around a second (window entries), 2 mixed with jumps, 3 mostly standing still
    let step_profile = if tie_mode { 3 } else { rng.below(3) };
    let table_mode: u8 = match rng.below(12) {
        0 => 1,
        1 => 2,
        _ => 0,
    };
    // lifecycles: per ecu a current lifecycle (id, true start); table start may deviate or be missing
    let mut next_id: u32 = 1 + rng.below(3) as u32;
    // `table`: (id, start time of the entry), `entries`: how the entry is made (parallel)
    let mut table: Vec<(u32, u64)> = vec![];
    let mut entries: Vec<Entry> = vec![];
    let mut cur: Vec<(u32, u64)> = vec![];
    let mut known_lcs: Vec<Vec<(u32, u64)>> = vec![vec![]; necu];
    let new_lc = |rng: &mut Rng, now: u64, ecu: u8, next_id: &mut u32, table: &mut Vec<(u32, u64)>, entries: &mut Vec<Entry>| -> (u32, u64) {
        let id = if rng.chance(1, 12) { 0 } else { *next_id };
        *next_id += 1 + rng.below(2) as u32;
        let start = now.saturating_sub(if rng.chance(1, 3) { rng.below(3 * US_PER_SEC) } else { rng.below(100 * US_PER_SEC) });
        let tstart = match rng.below(12) {
            0 => None,                                                  // id missing in the table: start 0
            1 => Some(start.saturating_sub(rng.below(2_000_000))),      // table start earlier than the truth
            2 => Some(start + rng.below(2_000_000)),                    // later than the truth
            3 if style == 2 => Some(u64::MAX - rng.below(1000)),        // marker value of merged lifecycles
            _ => Some(start),
        };
        if let Some(ts) = tstart {
            if !table.iter().any(|x| x.0 == id) {
                let e: Entry = (id, gen_build(rng, ecu, ts, table, style == 2));
                let actual = view_of(&materialize(&e)).start;
                table.push((id, actual));
                entries.push(e);
            }
        }
        (id, start)
    };
    for e in 0..necu {
        let lc = new_lc(rng, base, e as u8 + 1, &mut next_id, &mut table, &mut entries);
        known_lcs[e].push(lc);
        cur.push(lc);
    }
    let mut msgs: Vec<RawMsg> = vec![];
    let mut now = base;
    let mut idx: u32 = rng.below(5) as u32;
    let idx_mode = rng.below(10); // 0 all equal, 1 random, else increasing
    for _ in 0..n {
        // advance the clock
        let step = match step_profile {
            0 => rng.below(20_000),
            1 => rng.range(300_000, 1_400_000),
            3 => {
                if rng.chance(1, 4) {
                    rng.below(1_500_000)
                } else {
                    0
                }
            }
            _ => match rng.below(10) {
                0 => rng.range(1_000_000, 4_000_000),
                1 => 0,
                2 => 1_000_000,
                3 => 1_000_001,
                _ => rng.below(400_000),
            },
        };
        now += step;
        let mut rt = now;
        if style == 2 && rng.chance(1, 10) {
            rt = now.saturating_sub(rng.below(3_000_000)); // reception times going back
        }
        let e = rng.below(necu as u64) as usize;
        // lifecycle change / an old lifecycle's message showing up again
        if rng.chance(1, 15) {
            let lc = new_lc(rng, rt, e as u8 + 1, &mut next_id, &mut table, &mut entries);
            known_lcs[e].push(lc);
            cur[e] = lc;
        }
        let (lc_id, lc_start) = if rng.chance(1, 20) { *rng.pick(&known_lcs[e]) } else { cur[e] };
        // intended delay
        let delay = match style {
            0 => rng.below(mind.min(10_000_000) + 1),
            1 => {
                if rng.chance(1, 8) {
                    mind.min(1 << 40) + rng.below(3_000_000)
                } else {
                    rng.below(mind.min(10_000_000) + 1)
                }
            }
            _ => match rng.below(4) {
                0 => rng.below(5_000_000),
                1 => 0,
                2 => rng.below(mind.min(1 << 40) + 2_000_000),
                _ => rng.below(100_000),
            },
        };
        let want_calc = rt.saturating_sub(delay);
        // timestamp so that table-start + ts*100 ~ want_calc (rounded up: the delay does not exceed the intention)
        let tstart = if table_mode == 0 { table.iter().find(|x| x.0 == lc_id).map(|x| x.1).unwrap_or(0) } else { 0 };
        let from = if style == 0 { tstart } else { lc_start };
        let mut ts = (want_calc.saturating_sub(from) + 99) / 100;
        if ts > u32::MAX as u64 {
            ts = u32::MAX as u64 - rng.below(1000);
        }
        if style == 2 && rng.chance(1, 12) {
            ts = rng.below(1 << 32);
        }
        let ext: u16 = match rng.below(20) {
            0 | 1 => 1 + 0x16,                    // control request (non-verbose)
            2 => 1 + 0x17,                        // control request, verbose bit set
            3 => 1 + 0x26,                        // control response
            4 => 1 + 0x41,                        // verbose log info
            5 => 1 + rng.below(256) as u16,       // any type byte
            _ => 0,
        };
        if tie_mode && rng.chance(2, 3) {
            ts = u32::MAX as u64 - rng.below(5); // far beyond the reception time: capped
        }
        if is_ctrl_request(ext) && rng.chance(1, 2) {
            ts = rng.below(1 << 32); // timestamp of the logger's own clock: must be ignored
        }
        let index = match if tie_mode { idx_mode % 2 } else { idx_mode } {
            0 => 7,
            1 => rng.below(if tie_mode { 3 } else { 8 }) as u32,
            _ => {
                idx += 1 + if rng.chance(1, 6) { rng.below(4) as u32 } else { 0 };
                idx
            }
        };
        msgs.push((index, rt, e as u8 + 1, ts as u32, ext, lc_id));
    }
    if style == 2 && rng.chance(1, 8) && !msgs.is_empty() {
        // a reception time close to the end of u64 (overflow of the window arithmetic)
        let k = rng.below(msgs.len() as u64) as usize;
        msgs[k].1 = u64::MAX - rng.below(2_000_000);
    }
    // table changes while sorting (never for a destroyed map)
    let mut changes: Vec<(usize, Option<Vec<Entry>>)> = vec![];
    if table_mode != 2 && !msgs.is_empty() && rng.chance(1, 4) {
        let k = 1 + rng.below(3);
        let mut ats: Vec<usize> = (0..k).map(|_| 1 + rng.below(msgs.len() as u64) as usize).collect();
        ats.sort();
        ats.dedup();
        let mut cur: Vec<(Entry, u64)> = entries.iter().cloned().zip(table.iter().map(|x| x.1)).collect();
        for (j, at) in ats.iter().enumerate() {
            if j + 1 == ats.len() && rng.chance(1, 8) {
                changes.push((*at, None));
                break;
            }
            for x in cur.iter_mut() {
                match rng.below(4) {
                    0 => {
                        x.1 = x.1.saturating_sub(rng.below(2_000_000));
                        x.0 = with_start(&x.0, x.1);
                    }
                    1 => {
                        x.1 = x.1.saturating_add(rng.below(2_000_000));
                        x.0 = with_start(&x.0, x.1);
                    }
                    _ => {}
                }
            }
            if !cur.is_empty() && rng.chance(1, 4) {
                let i = rng.below(cur.len() as u64) as usize;
                cur.remove(i);
            }
            if rng.chance(1, 3) {
                let id = rng.below(next_id as u64 + 1) as u32;
                if !cur.iter().any(|x| x.0 .0 == id) {
                    let st = base.saturating_sub(rng.below(5_000_000));
                    let known: Vec<(u32, u64)> = cur.iter().map(|x| (x.0 .0, x.1)).collect();
                    let ecu = 1 + rng.below(necu as u64) as u8;
                    let e: Entry = (id, gen_build(rng, ecu, st, &known, false));
                    let actual = view_of(&materialize(&e)).start;
                    cur.push((e, actual));
                }
            }
            changes.push((*at, Some(cur.iter().map(|x| x.0.clone()).collect())));
        }
    }
    let table = entries;
    CaseIn { w, mind, table_mode, table, changes, msgs }
}

// ------------------------------------------------------------------------------------------ recording
fn entry_json(e: &Entry) -> Value {
    match &e.1 {
        Build::Plain(s) => json!([e.0, s]),
        Build::Direct { start, ecu, resume } => json!([e.0, {"direct": {"start": start, "ecu": ecu, "resume": resume.map(|r| vec![r.0 as u64, r.1])}}]),
        Build::Api { ecu, ops, k } => json!([e.0, {"api": {"ecu": ecu, "k": k, "ops": ops.iter().map(|o| json!([o.0, o.1, o.2])).collect::<Vec<_>>()}}]),
    }
}
fn entry_from_json(v: &Value) -> Entry {
    let id = v[0].as_u64().unwrap() as u32;
    if let Some(s) = v[1].as_u64() {
        return (id, Build::Plain(s));
    }
    if let Some(d) = v[1].get("direct") {
        let resume = d["resume"].as_array().map(|a| (a[0].as_u64().unwrap() as u32, a[1].as_u64().unwrap()));
        return (id, Build::Direct { start: d["start"].as_u64().unwrap(), ecu: d["ecu"].as_u64().unwrap() as u8, resume });
    }
    let a = &v[1]["api"];
    let ops = a["ops"].as_array().unwrap().iter().map(|o| (o[0].as_u64().unwrap(), o[1].as_u64().unwrap() as u32, o[2].as_u64().unwrap() as u8)).collect();
    (id, Build::Api { ecu: a["ecu"].as_u64().unwrap() as u8, ops, k: a["k"].as_u64().unwrap() as u8 })
}
fn table_json(t: &[Entry]) -> Value {
    Value::Array(t.iter().map(entry_json).collect())
}
fn table_from_json(v: &Value) -> Vec<Entry> {
    v.as_array().unwrap().iter().map(entry_from_json).collect()
}
fn case_json(c: &CaseIn) -> Value {
    json!({"w": c.w, "mind": c.mind, "table_mode": c.table_mode, "table": table_json(&c.table),
           "changes": c.changes.iter().map(|(at, t)| json!([at, t.as_ref().map(|t| table_json(t))])).collect::<Vec<_>>(),
           "msgs": c.msgs.iter().map(|m| json!([m.0, m.1, m.2, m.3, m.4, m.5])).collect::<Vec<_>>()})
}
fn case_from_json(v: &Value) -> CaseIn {
    CaseIn {
        w: v["w"].as_u64().unwrap() as u8,
        mind: v["mind"].as_u64().unwrap(),
        table_mode: v["table_mode"].as_u64().unwrap() as u8,
        table: table_from_json(&v["table"]),
        changes: match v.get("changes") {
            Some(ch) if ch.is_array() => ch.as_array().unwrap().iter().map(|x| (x[0].as_u64().unwrap() as usize, if x[1].is_null() { None } else { Some(table_from_json(&x[1])) })).collect(),
            _ => vec![],
        },
        msgs: v["msgs"]
            .as_array()
            .unwrap()
            .iter()
            .map(|x| {
                (x[0].as_u64().unwrap() as u32, x[1].as_u64().unwrap(), x[2].as_u64().unwrap() as u8, x[3].as_u64().unwrap() as u32, x[4].as_u64().unwrap() as u16, x[5].as_u64().unwrap() as u32)
            })
            .collect(),
    }
}

fn record(sink: &mut Sink, c: CaseIn, origin: &str) {
    // the table entries as values (what the oracle and the Coq side are told about the input)
    let mt = {
        let c2 = c.clone();
        match catch(move || mat_of(&c2)) {
            Ok(m) => m,
            Err(e) => {
                eprintln!("c10: table of a case cannot be built ({}), case skipped", e);
                return;
            }
        }
    };
    let r = run_impl(&c);
    let verdict = oracle(&c, &mt, &r);
    let obs = match &r {
        Ok((tags, intact)) => O::T(vec![O::L(0), O::T(tags.iter().map(|t| O::n(*t as u64)).collect()), O::b(*intact)]),
        Err(_) => O::T(vec![O::L(1)]),
    };
    let ctable = |t: &MatTable| {
        format!(
            "(Some {})",
            clist(&t.iter().map(|(i, _, v)| format!("({}, ({}, {}, {}, {}, {}, {}, {}))", i, v.start, v.is_resume as u8, v.resume_start, v.resume_time, v.end, v.suspend, v.nr)).collect::<Vec<_>>())
        )
    };
    let mut versions = vec![format!("(0, {})", if c.table_mode == 0 { ctable(&mt.table) } else { "None".to_string() })];
    for (at, t) in mt.changes.iter() {
        versions.push(format!("({}, {})", at, match t {
            Some(t) => ctable(t),
            None => "None".to_string(),
        }));
    }
    let tbl = clist(&versions);
    let msgs = clist(&c.msgs.iter().map(|m| format!("({}, {}, {}, {}, {}, {})", m.0, m.1, m.2, m.3, m.4, m.5)).collect::<Vec<_>>());
    let input_coq = format!("({}, {}, {}, {})", c.w, c.mind, tbl, msgs);
    let hyp = hypothesis_holds(&c, &mt);
    let mut tags = vec![origin.to_string(), format!("w{}", if c.w > 6 { 255 } else { c.w }), format!("table_mode{}", c.table_mode)];
    if hyp {
        tags.push("bound_hypothesis_holds".into());
    }
    if !c.changes.is_empty() {
        tags.push("table_changes_while_sorting".into());
    }
    let mut ecus: Vec<u8> = c.msgs.iter().map(|m| m.2).collect();
    ecus.sort();
    ecus.dedup();
    tags.push(format!("ecus{}", ecus.len()));
    let mut lcs: Vec<u32> = c.msgs.iter().map(|m| m.5).collect();
    lcs.sort();
    lcs.dedup();
    if lcs.len() > ecus.len() {
        tags.push("lifecycle_change".into());
    }
    if c.msgs.iter().any(|m| is_ctrl_request(m.4)) {
        tags.push("ctrl_request".into());
    }
    if c.table_mode == 0 && c.msgs.iter().any(|m| !c.table.iter().any(|t| t.0 == m.5)) {
        tags.push("id_missing_in_table".into());
    }
    // kinds of table entries, and whether reading an entry differently would change a sort key of this stream
    {
        let all: Vec<&(u32, u64, View)> = mt.table.iter().chain(mt.changes.iter().filter_map(|x| x.1.as_ref()).flatten()).collect();
        let mut kinds: Vec<&str> = vec![];
        for e in c.table.iter().chain(c.changes.iter().filter_map(|x| x.1.as_ref()).flatten()) {
            kinds.push(match &e.1 {
                Build::Plain(_) => "entry_plain",
                Build::Direct { .. } => "entry_constructed",
                Build::Api { .. } => "entry_by_lifecycle_api",
            });
            if let Build::Api { ecu, ops, .. } = &e.1 {
                if !ops.is_empty() && api_chain(*ecu, ops).len() > 2 {
                    kinds.push("entry_api_chain_of_3_or_more");
                }
            }
        }
        kinds.sort();
        kinds.dedup();
        tags.extend(kinds.iter().map(|k| k.to_string()));
        if all.iter().any(|x| x.2.is_resume) {
            tags.push("entry_resumed".into());
        }
        if all.iter().any(|x| x.2.is_resume && x.2.resume_start == x.2.start) {
            tags.push("entry_resumed_start_after_origin".into());
        }
        if all.iter().any(|x| x.2.is_resume && x.2.resume_start != x.2.start) {
            tags.push("entry_resumed_start_le_origin".into());
        }
        if all.iter().any(|x| x.2.is_resume && x.2.resume_start == x.2.start.wrapping_add(1)) {
            tags.push("entry_resumed_start_eq_origin".into());
        }
        if mt.table.iter().any(|x| x.2.is_resume && mt.table.iter().any(|y| y.2.is_resume && y.0 != x.0 && (x.2.resume_start == y.1 + 1 || x.1.checked_sub(x.2.suspend) == Some(y.1)))) {
            tags.push("entry_resume_of_a_resumed".into());
        }
        if all.iter().any(|x| x.2.end != x.2.start && x.2.end != 0) {
            tags.push("entry_with_timestamps".into());
        }
        if all.iter().any(|x| x.1 == 0) {
            tags.push("entry_start_0".into());
        }
        let differs = |key: &dyn Fn(&(u32, u64, View)) -> u64| c.msgs.iter().any(|m| calc_with(&c, &mt, m, key) != calc_of(&c, &mt, m));
        if differs(&|x| x.2.resume_start) {
            tags.push("key_would_differ_by_resume_start_time".into());
            if hyp {
                tags.push("key_would_differ_by_resume_start_time_under_hypothesis".into());
            }
        }
        if differs(&|x| x.2.resume_time) {
            tags.push("key_would_differ_by_resume_time".into());
        }
        if differs(&|x| x.2.end) {
            tags.push("key_would_differ_by_end_time".into());
        }
        if differs(&|x| x.1.saturating_sub(x.2.suspend)) {
            tags.push("key_would_differ_by_origin_start".into());
        }
    }
    match &r {
        Ok((t, _)) => {
            if t.windows(2).any(|p| p[0] > p[1]) {
                tags.push("reordered".into());
            }
            if !hyp {
                // is the output ordered although the hypothesis does not hold?
                let sorted = t.windows(2).all(|p| match (calc_of(&c, &mt, &c.msgs[p[0]]), calc_of(&c, &mt, &c.msgs[p[1]])) {
                    (Some(a), Some(b)) => a <= b,
                    _ => true,
                });
                tags.push(if sorted { "outside_bound_sorted".into() } else { "outside_bound_unsorted".into() });
            }
            // equal (calculated time, index): did the real heap pop them against the input order?
            if t.windows(2).any(|p| p[0] > p[1] && c.msgs[p[0]].0 == c.msgs[p[1]].0 && calc_of(&c, &mt, &c.msgs[p[0]]) == calc_of(&c, &mt, &c.msgs[p[1]])) {
                tags.push("tie_popped_against_input_order".into());
            }
            let span = c.msgs.iter().map(|m| m.1).max().unwrap_or(0) - c.msgs.iter().map(|m| m.1).min().unwrap_or(0);
            if span > (c.w as u64 + 1) * US_PER_SEC {
                tags.push("span_exceeds_window".into());
            }
        }
        Err(e) => {
            tags.push("panic".into());
            tags.push(if c.w == 0 { "panic_window0".into() } else { "panic_overflow".into() });
            let _ = e;
        }
    }
    {
        let mut keys: Vec<(u64, u32)> = c.msgs.iter().filter_map(|m| calc_of(&c, &mt, m).map(|k| (k, m.0))).collect();
        keys.sort();
        if keys.windows(2).any(|p| p[0] == p[1]) {
            tags.push("equal_keys".into());
        }
    }
    let nontrivial = c.msgs.len() >= 3;
    let key = input_coq.clone();
    let id = sink.next_id();
    sink.push(Case { id, input_coq, input_json: case_json(&c), obs, verdict, classes: vec![], tags, nontrivial, key });
}

fn corpus() -> Vec<CaseIn> {
    let pl = |t: Vec<(u32, u64)>| -> Vec<Entry> { t.into_iter().map(|(i, s)| (i, Build::Plain(s))).collect() };
    let plain = |w: u8, mind: u64, table: Vec<(u32, u64)>, msgs: Vec<RawMsg>| CaseIn { w, mind, table_mode: 0, table: pl(table), changes: vec![], msgs };
    let r: u64 = 1_640_995_200_000_000;
    let mut v = vec![
        // the three repo tests (basic2, basic3 shapes)
        CaseIn { w: 3, mind: 2_000_000, table_mode: 1, table: vec![], changes: vec![], msgs: vec![(0, r + 1_000_000, 1, 10_000, 0, 0), (1, r + 1_200_000, 1, 11_000, 0, 0)] },
        plain(3, 2_000_000, vec![(1, r - 110_000)], vec![(0, r, 1, 1_100, 0, 1), (1, r + 1_000, 1, 1_000, 0, 1)]),
        // empty stream, single message, window size 0 (panics on the first message), window size 0 with no message
        plain(3, 0, vec![], vec![]),
        plain(1, 0, vec![], vec![(5, 10, 1, 0, 0, 0)]),
        plain(0, 0, vec![], vec![(5, 10, 1, 0, 0, 0)]),
        plain(0, 0, vec![], vec![]),
        // equal keys (same calculated time, same index): heap tie-breaking is free
        plain(2, 0, vec![(1, 0)], vec![(7, 100, 1, 1, 0, 1), (7, 100, 2, 1, 0, 1), (7, 100, 1, 1, 0, 1), (7, 100, 2, 1, 0, 1), (7, 5_000_000, 1, 1, 0, 1)]),
        // two ECUs, two lifecycles in parallel, delays inside a 0.5 s bound, span longer than the window
        plain(
            2,
            500_000,
            vec![(1, r), (2, r + 200_000)],
            vec![
                (0, r + 1_000_000, 1, 9_000, 0, 1),
                (1, r + 1_100_000, 2, 6_000, 0, 2),
                (2, r + 1_200_000, 1, 8_000, 0, 1),
                (3, r + 2_300_000, 2, 20_000, 0, 2),
                (4, r + 2_400_000, 1, 22_000, 0, 1),
                (5, r + 3_500_000, 1, 33_000, 0x17, 1),
                (6, r + 3_600_000, 2, 32_000, 0, 2),
                (7, r + 4_700_000, 1, 45_000, 0, 1),
                (8, r + 5_800_000, 2, 53_000, 0, 2),
                (9, r + 6_900_000, 1, 66_000, 0, 1),
                (10, r + 8_000_000, 2, 76_000, 0, 2),
            ],
        ),
        // a delay beyond the bound after the window matured: released too early, output unsorted (permutation still)
        plain(
            1,
            100_000,
            vec![(1, 0)],
            vec![(0, 1_000_000, 1, 10_000, 0, 1), (1, 2_500_000, 1, 25_000, 0, 1), (2, 4_000_000, 1, 40_000, 0, 1), (3, 5_500_000, 1, 55_000, 0, 1), (4, 5_600_000, 1, 20_000, 0, 1)],
        ),
        // lifecycle start = u64::MAX (the marker Lifecycle::merge leaves behind) + a timestamp: u64 overflow
        plain(3, 0, vec![(1, u64::MAX)], vec![(0, 1_000_000, 1, 1, 0, 1)]),
        // minimum delay close to u64::MAX: min_delay + 1000 s overflows
        plain(3, u64::MAX - 5, vec![], vec![(0, 1_000_000, 1, 1, 0, 1)]),
        // destroyed map
        CaseIn { w: 3, mind: 0, table_mode: 2, table: pl(vec![(1, 500)]), changes: vec![], msgs: vec![(0, 1_000, 1, 3, 0, 1), (1, 1_001, 1, 2, 0, 1), (2, 3_000_000, 1, 1, 0, 1)] },
        // first-sight cache: lifecycle 1 is looked up before the table changes (start 0 stays cached although the table
        // moves it to 900 ms), lifecycle 2 is first seen after the change (start 500 ms); window 1, no minimum delay
        CaseIn {
            w: 1,
            mind: 0,
            table_mode: 0,
            table: pl(vec![(1, 0), (2, 0)]),
            changes: vec![(1, Some(pl(vec![(1, 900_000), (2, 500_000)])))],
            msgs: vec![(0, 1_000_000, 1, 10_000, 0, 1), (1, 2_500_000, 1, 25_000, 0, 1), (2, 4_000_000, 1, 30_000, 0, 1), (3, 4_000_001, 2, 30_000, 0, 2), (4, 9_000_000, 1, 90_000, 0, 1)],
        },
        // unpublished map that gets published by a refresh while sorting; later the writer goes away
        CaseIn {
            w: 2,
            mind: 1_000,
            table_mode: 1,
            table: pl(vec![(1, 100)]),
            changes: vec![(2, Some(pl(vec![(1, 100), (2, 200)]))), (3, None)],
            msgs: vec![(0, 1_000_000, 1, 100, 0, 1), (1, 2_500_000, 2, 200, 0, 1), (2, 4_000_000, 1, 300, 0, 2), (3, 5_600_000, 2, 400, 0, 3), (4, 7_000_000, 1, 500, 0, 2), (5, 9_000_000, 2, 600, 0, 3)],
        },
    ];
    v.extend(resume_family());
    v
}

/// a resumed lifecycle next to the lifecycle it resumes and a second ECU's lifecycle in parallel: the resumed one starts
/// 9 s / 1 s / 100 us / 1 us before, exactly at, 1 us / 100 us / 15 s after the start recorded for its origin; entries made
/// with the constructor and through the lifecycle API; the stream interleaves the three lifecycles and control requests
/// within a 2 s bound (equal timestamps in origin and resumed lifecycle: ties when the starts coincide)
fn resume_family() -> Vec<CaseIn> {
    let r: u64 = 1_640_995_200_000_000;
    let s = US_PER_SEC;
    let mut v = vec![];
    for (j, delta) in [-9_000_000i64, -1_000_000, -100, -1, 0, 1, 100, 15_000_000].iter().enumerate() {
        for api in [false, true] {
            let origin = r + 100 * s;
            let bstart = r + 50 * s;
            let rstart = (origin as i64 + delta) as u64;
            let table: Vec<Entry> = if api {
                let mut ops: Vec<ApiOp> = vec![(r + 110 * s, 100_000, 0), (r + 130 * s, 150_000, 0)];
                if *delta != 15_000_000 {
                    let rt = r + 131 * s + rstart % 100;
                    ops.push((rt, ((rt - rstart) / 100) as u32, 0));
                }
                vec![(1, Build::Api { ecu: 1, ops: ops.clone(), k: 0 }), (2, Build::Api { ecu: 1, ops, k: 1 }), (3, Build::Api { ecu: 2, ops: vec![(bstart, 0, 0)], k: 0 })]
            } else {
                vec![
                    (1, Build::Direct { start: origin, ecu: 1, resume: None }),
                    (2, Build::Direct { start: rstart, ecu: 1, resume: Some((1, origin)) }),
                    (3, Build::Direct { start: bstart, ecu: 2, resume: None }),
                ]
            };
            let mut msgs: Vec<RawMsg> = vec![];
            let mut push = |rt: u64, ecu: u8, lc: u32, start: u64, delay: u64, ext: u16| {
                let idx = msgs.len() as u32;
                msgs.push((idx, rt, ecu, ((rt - delay - start) / 100) as u32, ext, lc));
            };
            push(r + 112_300_000, 1, 1, origin, 300_000, 0);
            for i in 0..8u64 {
                push(r + 200_600_000 + i * s, 2, 3, bstart, 100_000, 0);
                push(r + 201_500_000 + i * s, 1, 2, rstart, 1_500_000 - (i % 3) * 200_000, 0);
                if i == 3 {
                    push(r + 201_600_000 + i * s, 1, 2, rstart, 0, 1 + 0x16);
                }
            }
            if *delta <= 1_000_000 {
                // the origin lifecycle shows up again with the timestamps of the resumed one
                let mut k = 2;
                while k < msgs.len() {
                    if msgs[k].5 == 2 && msgs[k].4 == 0 {
                        let m = msgs[k];
                        msgs.insert(k + 1, (0, m.1 + 50_000, 1, m.3, 0, 1));
                        k += 1;
                    }
                    k += 3;
                }
                for (i, m) in msgs.iter_mut().enumerate() {
                    m.0 = i as u32;
                }
            }
            v.push(CaseIn { w: 1 + (j % 3) as u8, mind: 2 * s, table_mode: 0, table, changes: vec![], msgs });
        }
    }
    // a chain: 3 resumes 2 resumes 1, every start at or before the start recorded for its origin; the origin of 4 is not in the table
    let t0 = r + 100 * s;
    let table: Vec<Entry> = vec![
        (1, Build::Direct { start: t0, ecu: 1, resume: None }),
        (2, Build::Direct { start: t0 - 3 * s, ecu: 1, resume: Some((1, t0)) }),
        (3, Build::Direct { start: t0 - 3 * s, ecu: 1, resume: Some((2, t0 - 3 * s)) }),
        (4, Build::Direct { start: t0 - 40 * s, ecu: 2, resume: Some((77, t0 + 5 * s)) }),
    ];
    let mut msgs: Vec<RawMsg> = vec![];
    for i in 0..16u64 {
        let lc = 1 + (i % 4) as u32;
        let start = [t0, t0 - 3 * s, t0 - 3 * s, t0 - 40 * s][(i % 4) as usize];
        let rt = r + 300 * s + i * 400_000;
        let delay = [100_000u64, 1_900_000, 700_000, 1_200_000, 0][(i % 5) as usize];
        msgs.push((i as u32, rt, if lc == 4 { 2 } else { 1 }, ((rt - delay - start) / 100) as u32, 0, lc));
    }
    v.push(CaseIn { w: 2, mind: 2 * s, table_mode: 0, table, changes: vec![], msgs });
    v
}

fn main() {
    let a = parse_args();
    let mut sink = Sink::new("C10", &a.out);
    sink.shard_size = 50;
    if let Some(p) = &a.replay {
        let v = read_replay(p);
        record(&mut sink, case_from_json(&v["case"]), "replay");
        sink.finish();
        return;
    }
    for c in corpus() {
        record(&mut sink, c, "corpus");
    }
    let n = a.count.unwrap_or(match a.tier.as_str() {
        "quick" => 1500,
        "thorough" => 24000,
        _ => 6000,
    });
    let mut rng = Rng::new(a.seed);
    for _ in 0..n {
        let c = gen_case(&mut rng, a.tier != "quick");
        record(&mut sink, c, "generated");
    }
    sink.finish();
}
