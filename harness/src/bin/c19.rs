//! C19 — plugins keep the stream intact; anonymisation keeps its structure.
//!
//! Five kinds of cases, all through the real `adlt::plugins::plugins_process_msgs`:
//!  loop   scripted plugins (implemented here, same scripts in Exec/C19.v) — the loop itself vs Plugins/Chain.v
//!  anon   explicit streams through the real AnonymizePlugin vs Plugins/Anon.v (full messages compared)
//!  pop    structured id populations up to and beyond the pseudonym capacity (ids compared)
//!  frame  subsets/orders of the real decoders (+ FileTransfer) configured from /repo/tests: the frame
//!         condition `Conservative` is checked message by message (oracle here, `framed_run` in Coq)
//!  equiv  real lifecycle detection on the original vs the anonymised stream: same boundaries and counts
use adlt::dlt::*;
use adlt::lifecycle::{parse_lifecycles_buffered_from_stream, LifecycleId, LifecycleItem};
use adlt::plugins::anonymize::AnonymizePlugin;
use adlt::plugins::factory::get_plugin;
use adlt::plugins::plugin::{LcsRType, Plugin, PluginState};
use adlt::plugins::plugins_process_msgs;
use adlt::utils::eac_stats::EacStats;
use std::collections::{BTreeMap, BTreeSet};
use std::sync::mpsc::SendError;
use std::sync::{Arc, Mutex, RwLock};
use vharness::*;

// ------------------------------------------------------------------------------------------------ messages
fn c4(x: &DltChar4) -> u32 {
    u32::from_be_bytes(*x.as_buf())
}
fn c4_of(n: u32) -> DltChar4 {
    DltChar4::from_buf(&n.to_be_bytes())
}

fn mk(idx: u32, rt: u64, ecu: u32, ts: u32, htyp: u8, ext: Option<(u8, u8, u32, u32)>, payload: Vec<u8>) -> DltMessage {
    DltMessage {
        index: idx,
        reception_time_us: rt,
        ecu: c4_of(ecu),
        timestamp_dms: ts,
        standard_header: DltStandardHeader { htyp, len: 0, mcnt: (idx & 0xff) as u8 },
        extended_header: ext.map(|(v, n, a, c)| DltExtendedHeader { verb_mstp_mtin: v, noar: n, apid: c4_of(a), ctid: c4_of(c) }),
        payload,
        payload_text: None,
        lifecycle: 0,
    }
}

fn msg_coq(m: &DltMessage) -> String {
    let ext = match &m.extended_header {
        Some(e) => format!("(Some ({}, {}, {}, {}))", e.verb_mstp_mtin, e.noar, c4(&e.apid), c4(&e.ctid)),
        None => "None".to_string(),
    };
    let text = match &m.payload_text {
        Some(t) => format!("(Some {})", cnums(t.as_bytes())),
        None => "None".to_string(),
    };
    format!(
        "(M {} {} {} {} {} {} {} {} {} {} {})",
        m.index,
        m.reception_time_us,
        c4(&m.ecu),
        m.timestamp_dms,
        m.standard_header.htyp,
        m.standard_header.mcnt,
        m.standard_header.len,
        ext,
        cnums(&m.payload),
        text,
        m.lifecycle
    )
}

fn msg_obs(m: &DltMessage) -> O {
    O::T(vec![
        O::n(m.index),
        O::n(m.reception_time_us),
        O::n(c4(&m.ecu)),
        O::n(m.timestamp_dms),
        O::n(m.standard_header.htyp),
        O::n(m.standard_header.mcnt),
        O::n(m.standard_header.len),
        match &m.extended_header {
            Some(e) => O::T(vec![O::n(e.verb_mstp_mtin), O::n(e.noar), O::n(c4(&e.apid)), O::n(c4(&e.ctid))]),
            None => O::T(vec![]),
        },
        O::bytes(&m.payload),
        match &m.payload_text {
            Some(t) => O::T(vec![O::bytes(t.as_bytes())]),
            None => O::T(vec![]),
        },
        O::n(m.lifecycle),
    ])
}

fn msg_json(m: &DltMessage) -> Value {
    json!({"i": m.index, "rt": m.reception_time_us, "ecu": c4(&m.ecu), "ts": m.timestamp_dms,
        "htyp": m.standard_header.htyp, "mcnt": m.standard_header.mcnt, "len": m.standard_header.len,
        "ext": m.extended_header.as_ref().map(|e| vec![e.verb_mstp_mtin as u32, e.noar as u32, c4(&e.apid), c4(&e.ctid)]),
        "p": m.payload, "text": m.payload_text.as_ref().map(|t| t.as_bytes().to_vec()), "lc": m.lifecycle})
}

fn msg_from_json(v: &Value) -> DltMessage {
    let ext = if v["ext"].is_null() {
        None
    } else {
        let e: Vec<u64> = serde_json::from_value(v["ext"].clone()).unwrap();
        Some(DltExtendedHeader { verb_mstp_mtin: e[0] as u8, noar: e[1] as u8, apid: c4_of(e[2] as u32), ctid: c4_of(e[3] as u32) })
    };
    DltMessage {
        index: v["i"].as_u64().unwrap() as u32,
        reception_time_us: v["rt"].as_u64().unwrap(),
        ecu: c4_of(v["ecu"].as_u64().unwrap() as u32),
        timestamp_dms: v["ts"].as_u64().unwrap() as u32,
        standard_header: DltStandardHeader {
            htyp: v["htyp"].as_u64().unwrap() as u8,
            mcnt: v["mcnt"].as_u64().unwrap() as u8,
            len: v["len"].as_u64().unwrap() as u16,
        },
        extended_header: ext,
        payload: serde_json::from_value(v["p"].clone()).unwrap(),
        payload_text: if v["text"].is_null() {
            None
        } else {
            let b: Vec<u8> = serde_json::from_value(v["text"].clone()).unwrap();
            Some(String::from_utf8_lossy(&b).to_string())
        },
        lifecycle: v["lc"].as_u64().unwrap() as u32,
    }
}

/// runs the real loop; returns (Ok plugins returned? / Err message, forwarded messages)
fn run_loop(
    msgs: Vec<DltMessage>,
    plugins: Vec<Box<dyn Plugin + Send>>,
    cap: Option<usize>,
) -> (Result<usize, DltMessage>, Vec<DltMessage>) {
    let (tx, rx) = std::sync::mpsc::channel();
    for m in msgs {
        tx.send(m).unwrap();
    }
    drop(tx);
    let out: Mutex<Vec<DltMessage>> = Mutex::new(vec![]);
    let r = plugins_process_msgs(
        rx,
        &|m| {
            let mut o = out.lock().unwrap();
            if let Some(c) = cap {
                if o.len() >= c {
                    return Err(SendError(m));
                }
            }
            o.push(m);
            Ok(())
        },
        plugins,
    );
    let o = out.into_inner().unwrap();
    (r.map(|p| p.len()).map_err(|e| e.0), o)
}

/// the real loop with the outflow writing into `out`: what was forwarded survives a panic of a plugin (the panic
/// unwinds plugins_process_msgs exactly as it unwinds the plugin thread of `adlt convert` / `adlt remote`)
fn run_loop_into(msgs: Vec<DltMessage>, plugins: Vec<Box<dyn Plugin + Send>>, out: &Arc<Mutex<Vec<DltMessage>>>) -> Result<usize, DltMessage> {
    let (tx, rx) = std::sync::mpsc::channel();
    for m in msgs {
        tx.send(m).unwrap();
    }
    drop(tx);
    let r = plugins_process_msgs(
        rx,
        &|m| {
            out.lock().unwrap_or_else(|e| e.into_inner()).push(m);
            Ok(())
        },
        plugins,
    );
    r.map(|p| p.len()).map_err(|e| e.0)
}

fn text_of(m: &DltMessage) -> String {
    let m2 = m.clone();
    match catch(std::panic::AssertUnwindSafe(move || m2.payload_as_text().map(|c| c.into_owned()))) {
        Ok(Ok(t)) => t,
        Ok(Err(_)) => "<no text>".to_string(),
        Err(_) => "<payload_as_text panics>".to_string(),
    }
}

/// a plugin panicked: the loop (= the plugin thread) is dead.  Says which message killed it and what was lost.
fn death_detail(ins: &[(DltMessage, bool)], out: &Arc<Mutex<Vec<DltMessage>>>, panic: &str) -> String {
    let o = out.lock().unwrap_or_else(|e| e.into_inner());
    let mut j = 0usize;
    let mut fatal: Option<usize> = None;
    let mut first_missing: Option<usize> = None;
    for (k, (m, droppable)) in ins.iter().enumerate() {
        if j < o.len() && o[j].index == m.index {
            j += 1;
        } else {
            first_missing = first_missing.or(Some(k));
            if !*droppable {
                fatal = Some(k);
                break;
            }
        }
    }
    let fatal = fatal.or(first_missing);
    match fatal {
        Some(k) => {
            let m = &ins[k].0;
            format!(
                "plugin thread dead ({}): {} of {} messages forwarded, message #{} (ecu {:?} apid {:?} ctid {:?}) and the {} after it are lost; text of the fatal message: {:?}",
                panic,
                o.len(),
                ins.len(),
                m.index,
                m.ecu,
                m.apid(),
                m.ctid(),
                ins.len() - k - 1,
                text_of(m)
            )
        }
        None => format!("plugin thread dead ({}) after the last message", panic),
    }
}

// ------------------------------------------------------------------------------------------------ frame oracle
/// what a decoding plugin must keep (everything but text, a missing extended header and — allow_ts — the timestamp)
fn frame_violation(allow_ts: bool, a: &DltMessage, b: &DltMessage) -> Option<String> {
    if a.index != b.index {
        return Some(format!("index {} -> {}", a.index, b.index));
    }
    if a.reception_time_us != b.reception_time_us {
        return Some(format!("#{} reception time changed", a.index));
    }
    if a.ecu != b.ecu {
        return Some(format!("#{} ecu changed", a.index));
    }
    if a.payload != b.payload {
        return Some(format!("#{} payload changed", a.index));
    }
    if a.lifecycle != b.lifecycle {
        return Some(format!("#{} lifecycle changed", a.index));
    }
    if a.standard_header != b.standard_header {
        return Some(format!("#{} standard header changed", a.index));
    }
    if let Some(e) = &a.extended_header {
        if b.extended_header.as_ref() != Some(e) {
            return Some(format!("#{} existing extended header changed", a.index));
        }
    }
    if !allow_ts && a.timestamp_dms != b.timestamp_dms {
        return Some(format!("#{} timestamp changed without rewrite plugin", a.index));
    }
    None
}

/// outputs = inputs in order, each inside the frame, skipping only droppable ones
fn frame_oracle(allow_ts: bool, ins: &[(DltMessage, bool)], outs: &[DltMessage]) -> Verdict {
    let fail = |c: &str, d: String| Verdict::Fail { clause: c.into(), detail: d };
    let mut j = 0usize;
    for (m, droppable) in ins {
        if j < outs.len() && outs[j].index == m.index {
            if let Some(v) = frame_violation(allow_ts, m, &outs[j]) {
                return fail("message_intact", v);
            }
            j += 1;
        } else {
            // not forwarded at this position: removed (or reordered / index rewritten)
            if outs.iter().any(|o| o.index == m.index) {
                return fail("no_reorder", format!("#{} forwarded out of order", m.index));
            }
            if !droppable {
                return fail("no_removal", format!("#{} was not forwarded", m.index));
            }
        }
    }
    if j != outs.len() {
        return fail("no_duplicate", format!("{} extra message(s) forwarded, first index {}", outs.len() - j, outs[j].index));
    }
    Verdict::Ok
}

// ------------------------------------------------------------------------------------------------ scripted plugins
#[derive(Clone, Debug, PartialEq)]
enum Act {
    Pass,
    Drop,
    Stamp,
    SetText(u8),
    ClearText,
    Ts(u32),
    Ext,
    Payload(u8),
    Index,
    Ecu(u32),
    Lc(u32),
    Rtime(u64),
}
impl Act {
    fn coq(&self) -> String {
        match self {
            Act::Pass => "APass".into(),
            Act::Drop => "ADrop".into(),
            Act::Stamp => "AStamp".into(),
            Act::SetText(t) => format!("(ASetText {})", t),
            Act::ClearText => "AClearText".into(),
            Act::Ts(d) => format!("(ATs {})", d),
            Act::Ext => "AExt".into(),
            Act::Payload(b) => format!("(APayload {})", b),
            Act::Index => "AIndex".into(),
            Act::Ecu(e) => format!("(AEcu {})", e),
            Act::Lc(l) => format!("(ALc {})", l),
            Act::Rtime(d) => format!("(ARtime {})", d),
        }
    }
    fn json(&self) -> Value {
        match self {
            Act::Pass => json!(["pass"]),
            Act::Drop => json!(["drop"]),
            Act::Stamp => json!(["stamp"]),
            Act::SetText(t) => json!(["settext", t]),
            Act::ClearText => json!(["cleartext"]),
            Act::Ts(d) => json!(["ts", d]),
            Act::Ext => json!(["ext"]),
            Act::Payload(b) => json!(["payload", b]),
            Act::Index => json!(["index"]),
            Act::Ecu(e) => json!(["ecu", e]),
            Act::Lc(l) => json!(["lc", l]),
            Act::Rtime(d) => json!(["rtime", d]),
        }
    }
    fn from_json(v: &Value) -> Act {
        let n = |i: usize| v[i].as_u64().unwrap();
        match v[0].as_str().unwrap() {
            "pass" => Act::Pass,
            "drop" => Act::Drop,
            "stamp" => Act::Stamp,
            "settext" => Act::SetText(n(1) as u8),
            "cleartext" => Act::ClearText,
            "ts" => Act::Ts(n(1) as u32),
            "ext" => Act::Ext,
            "payload" => Act::Payload(n(1) as u8),
            "index" => Act::Index,
            "ecu" => Act::Ecu(n(1) as u32),
            "lc" => Act::Lc(n(1) as u32),
            "rtime" => Act::Rtime(n(1)),
            x => panic!("unknown action {}", x),
        }
    }
    /// inside the frame of a decoder (Ts: only with allow_ts)
    fn conservative(&self) -> bool {
        matches!(self, Act::Pass | Act::Stamp | Act::SetText(_) | Act::ClearText | Act::Ext | Act::Ts(_))
    }
}

struct ScriptPlugin {
    id: u8,
    acts: Vec<Act>,
    count: u64,
    state: Arc<RwLock<PluginState>>,
}
impl Plugin for ScriptPlugin {
    fn name(&self) -> &str {
        "script"
    }
    fn enabled(&self) -> bool {
        true
    }
    fn state(&self) -> Arc<RwLock<PluginState>> {
        self.state.clone()
    }
    fn set_lifecycle_read_handle(&mut self, _lcs_r: &LcsRType) {}
    fn sync_all(&mut self) {}
    fn process_msg(&mut self, msg: &mut DltMessage) -> bool {
        let count = self.count;
        self.count += 1;
        let a = if self.acts.is_empty() { Act::Pass } else { self.acts[(count % self.acts.len() as u64) as usize].clone() };
        match a {
            Act::Pass => {}
            Act::Drop => return false,
            Act::Stamp => {
                let mut t = msg.payload_text.take().unwrap_or_default();
                t.push((48 + self.id) as char);
                t.push((33 + (count % 90) as u8) as char);
                msg.payload_text = Some(t);
            }
            Act::SetText(t) => msg.payload_text = Some((t as char).to_string()),
            Act::ClearText => msg.payload_text = None,
            Act::Ts(d) => msg.timestamp_dms = msg.timestamp_dms.wrapping_add(d),
            Act::Ext => {
                if msg.extended_header.is_none() {
                    msg.extended_header = Some(DltExtendedHeader {
                        verb_mstp_mtin: 65,
                        noar: self.id,
                        apid: DltChar4::from_buf(&[83, 67, 82, 48 + self.id]),
                        ctid: DltChar4::from_buf(&[67, 84, 88, 48]),
                    });
                }
            }
            Act::Payload(b) => msg.payload.push(b),
            Act::Index => msg.index = msg.index.wrapping_add(1),
            Act::Ecu(e) => msg.ecu = c4_of(e),
            Act::Lc(l) => msg.lifecycle = l,
            Act::Rtime(d) => msg.reception_time_us = msg.reception_time_us.wrapping_add(d),
        }
        true
    }
}

fn record_loop(sink: &mut Sink, scripts: Vec<(u8, Vec<Act>)>, cap: Option<usize>, msgs: Vec<DltMessage>) {
    let plugins: Vec<Box<dyn Plugin + Send>> = scripts
        .iter()
        .map(|(id, acts)| Box::new(ScriptPlugin { id: *id, acts: acts.clone(), count: 0, state: Arc::new(RwLock::new(PluginState::default())) }) as Box<dyn Plugin + Send>)
        .collect();
    let nplug = plugins.len();
    let ins = msgs.clone();
    let r = catch_loc(std::panic::AssertUnwindSafe(move || run_loop(msgs, plugins, cap)));
    let all_cons = scripts.iter().all(|(_, a)| a.iter().all(|x| x.conservative() || *x == Act::Drop));
    let has_drop = scripts.iter().any(|(_, a)| a.contains(&Act::Drop));
    let (obs, verdict) = match &r {
        Err(e) => (O::T(vec![O::L(9)]), Verdict::Fail { clause: "loop_no_panic".into(), detail: e.clone() }),
        Ok((res, outs)) => {
            let obs = O::T(vec![
                match res {
                    Ok(_) => O::T(vec![]),
                    Err(m) => O::T(vec![msg_obs(m)]),
                },
                O::T(outs.iter().map(msg_obs).collect()),
            ]);
            // the statement: conservative plugins -> every message once, in order, intact; only a `false` removes one
            let mut v = Verdict::Ok;
            if let Ok(n) = res {
                if *n != nplug {
                    v = Verdict::Fail { clause: "plugins_returned".into(), detail: format!("{} of {}", n, nplug) };
                }
            }
            if all_cons && matches!(v, Verdict::Ok) {
                let flagged: Vec<(DltMessage, bool)> = ins.iter().map(|m| (m.clone(), has_drop)).collect();
                match (res, cap) {
                    (Ok(_), _) => v = frame_oracle(true, &flagged, outs),
                    (Err(_), Some(c)) => {
                        if outs.len() != c {
                            v = Verdict::Fail { clause: "outflow_error_stops".into(), detail: format!("{} delivered, cap {}", outs.len(), c) };
                        } else {
                            // delivered messages are a framed prefix
                            let mut j = 0;
                            for m in &ins {
                                if j < outs.len() && outs[j].index == m.index {
                                    if let Some(d) = frame_violation(true, m, &outs[j]) {
                                        v = Verdict::Fail { clause: "message_intact".into(), detail: d };
                                    }
                                    j += 1;
                                }
                            }
                            if j != outs.len() {
                                v = Verdict::Fail { clause: "no_reorder".into(), detail: "delivered prefix is not a subsequence".into() };
                            }
                        }
                    }
                    (Err(_), None) => v = Verdict::Fail { clause: "outflow".into(), detail: "error without cap".into() },
                }
                if !has_drop {
                    if let (Ok(_), Verdict::Ok) = (res, &v) {
                        if outs.len() != ins.len() {
                            v = Verdict::Fail { clause: "no_removal".into(), detail: format!("{} in, {} out", ins.len(), outs.len()) };
                        }
                    }
                }
            }
            (obs, v)
        }
    };
    let coq_scripts = clist(&scripts.iter().map(|(id, a)| format!("({}, {})", id, clist(&a.iter().map(|x| x.coq()).collect::<Vec<_>>()))).collect::<Vec<_>>());
    let input_coq = format!(
        "(CLoop {} {} {})",
        coq_scripts,
        copt(cap.map(|c| c.to_string())),
        clist(&ins.iter().map(msg_coq).collect::<Vec<_>>())
    );
    let mut tags = vec!["loop".to_string(), format!("loop_plugins{}", nplug.min(4))];
    if has_drop {
        tags.push("loop_drop".into())
    }
    if cap.is_some() {
        tags.push("loop_outflow_error".into())
    }
    if all_cons {
        tags.push("loop_conservative".into())
    } else {
        tags.push("loop_frame_breaking_script".into())
    }
    let id = sink.next_id();
    sink.push(Case {
        id,
        key: input_coq.clone(),
        input_coq,
        input_json: json!({"v": "loop", "scripts": scripts.iter().map(|(id, a)| json!({"id": id, "acts": a.iter().map(|x| x.json()).collect::<Vec<_>>()})).collect::<Vec<_>>(),
            "cap": cap, "msgs": ins.iter().map(msg_json).collect::<Vec<_>>()}),
        obs,
        verdict,
        classes: vec![],
        tags,
        nontrivial: nplug >= 2 && ins.len() >= 3,
    });
}

// ------------------------------------------------------------------------------------------------ anonymiser
fn run_anon(msgs: Vec<DltMessage>) -> Result<Vec<DltMessage>, String> {
    catch_loc(move || {
        let plugins: Vec<Box<dyn Plugin + Send>> = vec![Box::new(AnonymizePlugin::new("anon"))];
        let (_, outs) = run_loop(msgs, plugins, None);
        outs
    })
}

/// equal ids -> equal pseudonyms, distinct -> distinct (below capacity), times and structure untouched
fn anon_oracle(ins: &[DltMessage], r: &Result<Vec<DltMessage>, String>) -> (Verdict, bool) {
    let fail = |c: &str, d: String| Verdict::Fail { clause: c.into(), detail: d };
    let outs = match r {
        Err(e) => return (fail("anon_no_panic", e.clone()), false),
        Ok(o) => o,
    };
    if outs.len() != ins.len() {
        return (fail("anon_forwards_all", format!("{} in, {} out", ins.len(), outs.len())), false);
    }
    let mut ecus: BTreeMap<u32, u32> = BTreeMap::new();
    let mut apids: BTreeMap<(u32, u32), u32> = BTreeMap::new();
    let mut ctids: BTreeMap<(u32, u32, u32), u32> = BTreeMap::new();
    for (a, b) in ins.iter().zip(outs.iter()) {
        if a.index != b.index || a.lifecycle != b.lifecycle || a.standard_header != b.standard_header {
            return (fail("anon_keeps_structure", format!("#{} index/lifecycle/standard header changed", a.index)), false);
        }
        if a.reception_time_us != b.reception_time_us || a.timestamp_dms != b.timestamp_dms {
            return (fail("anon_keeps_times", format!("#{} time changed", a.index)), false);
        }
        match (&a.extended_header, &b.extended_header) {
            (None, None) => {}
            (Some(x), Some(y)) => {
                if x.verb_mstp_mtin != y.verb_mstp_mtin || x.noar != y.noar {
                    return (fail("anon_keeps_structure", format!("#{} message type / noar changed", a.index)), false);
                }
                let (e, ap, ct) = (c4(&a.ecu), c4(&x.apid), c4(&x.ctid));
                if *apids.entry((e, ap)).or_insert(c4(&y.apid)) != c4(&y.apid) {
                    return (fail("anon_equal_ids_equal_pseudonyms", format!("#{} apid", a.index)), false);
                }
                if *ctids.entry((e, ap, ct)).or_insert(c4(&y.ctid)) != c4(&y.ctid) {
                    return (fail("anon_equal_ids_equal_pseudonyms", format!("#{} ctid", a.index)), false);
                }
            }
            _ => return (fail("anon_keeps_structure", format!("#{} extended header presence changed", a.index)), false),
        }
        if *ecus.entry(c4(&a.ecu)).or_insert(c4(&b.ecu)) != c4(&b.ecu) {
            return (fail("anon_equal_ids_equal_pseudonyms", format!("#{} ecu", a.index)), false);
        }
    }
    // populations: ecus overall, apids per ecu, ctids per (ecu, apid)
    let mut per_ecu: BTreeMap<u32, Vec<u32>> = BTreeMap::new();
    for ((e, _), p) in &apids {
        per_ecu.entry(*e).or_default().push(*p);
    }
    let mut per_apid: BTreeMap<(u32, u32), Vec<u32>> = BTreeMap::new();
    for ((e, a, _), p) in &ctids {
        per_apid.entry((*e, *a)).or_default().push(*p);
    }
    let within = ecus.len() <= 999 && per_ecu.values().all(|v| v.len() <= 999) && per_apid.values().all(|v| v.len() <= 999);
    if within {
        let distinct = |v: &Vec<u32>| v.iter().collect::<BTreeSet<_>>().len() == v.len();
        if !distinct(&ecus.values().cloned().collect()) {
            return (fail("anon_distinct_ids_distinct_pseudonyms", "two ECUs share a pseudonym".into()), within);
        }
        if !per_ecu.values().all(distinct) {
            return (fail("anon_distinct_ids_distinct_pseudonyms", "two APIDs of one ECU share a pseudonym".into()), within);
        }
        if !per_apid.values().all(distinct) {
            return (fail("anon_distinct_ids_distinct_pseudonyms", "two CTIDs of one ECU/APID share a pseudonym".into()), within);
        }
    }
    (Verdict::Ok, within)
}

fn record_anon(sink: &mut Sink, msgs: Vec<DltMessage>, extra_tag: &str) {
    let ins = msgs.clone();
    let r = run_anon(msgs);
    let (verdict, _) = anon_oracle(&ins, &r);
    let obs = match &r {
        Ok(outs) => O::T(vec![O::L(0), O::T(outs.iter().map(msg_obs).collect())]),
        Err(_) => O::T(vec![O::L(1)]),
    };
    let input_coq = format!("(CAnon {})", clist(&ins.iter().map(msg_coq).collect::<Vec<_>>()));
    let mut tags = vec!["anon".to_string()];
    if !extra_tag.is_empty() {
        tags.push(extra_tag.to_string());
    }
    if ins.iter().any(|m| m.is_ctrl_response()) {
        tags.push("anon_ctrl_response".into());
    }
    if ins.iter().any(|m| m.standard_header.is_big_endian()) {
        tags.push("anon_big_endian".into());
    }
    let necu = ins.iter().map(|m| c4(&m.ecu)).collect::<BTreeSet<_>>().len();
    let id = sink.next_id();
    sink.push(Case {
        id,
        key: input_coq.clone(),
        input_coq,
        input_json: json!({"v": "anon", "msgs": ins.iter().map(msg_json).collect::<Vec<_>>()}),
        obs,
        verdict,
        classes: vec![],
        tags,
        nontrivial: necu >= 2 && ins.len() >= 4,
    });
}

fn pop_stream(necu: u64, napid: u64, nctid: u64, n: u64) -> Vec<DltMessage> {
    (0..n)
        .map(|k| {
            let mut m = mk(
                k as u32,
                1_000_000 * k,
                (0x5000_0000 + k % necu) as u32,
                k as u32,
                49,
                Some((65, 1, (0x4100_0000 + (k / necu) % napid) as u32, (0x4300_0000 + (k / (necu * napid)) % nctid) as u32)),
                vec![],
            );
            m.standard_header.mcnt = 0;
            m
        })
        .collect()
}

fn record_pop(sink: &mut Sink, necu: u64, napid: u64, nctid: u64, n: u64) {
    let ins = pop_stream(necu, napid, nctid, n);
    let r = run_anon(ins.clone());
    let (verdict, within) = anon_oracle(&ins, &r);
    let obs = match &r {
        Ok(outs) => O::T(vec![
            O::L(0),
            O::T(
                outs.iter()
                    .map(|m| {
                        O::T(vec![
                            O::n(c4(&m.ecu)),
                            match &m.extended_header {
                                Some(e) => O::T(vec![O::n(c4(&e.apid)), O::n(c4(&e.ctid))]),
                                None => O::T(vec![]),
                            },
                        ])
                    })
                    .collect(),
            ),
        ]),
        Err(_) => O::T(vec![O::L(1)]),
    };
    let input_coq = format!("(CAnonPop {} {} {} {})", necu, napid, nctid, n);
    let id = sink.next_id();
    sink.push(Case {
        id,
        key: input_coq.clone(),
        input_coq,
        input_json: json!({"v": "pop", "necu": necu, "napid": napid, "nctid": nctid, "n": n}),
        obs,
        verdict,
        classes: vec![],
        tags: vec!["pop".into(), if within { "pop_within_capacity".into() } else { "pop_beyond_capacity".into() }],
        nontrivial: true,
    });
}

/// (n, (ecu base, modulus), (apid base, modulus), (ctid base, modulus), reversed) — Exec/C19.v seg_msg
type Seg = (u64, (u64, u64), (u64, u64), (u64, u64), bool);

fn segs_stream(segs: &[Seg]) -> Vec<DltMessage> {
    let mut v = vec![];
    let mut start = 0u64;
    for (n, (e0, en), (a0, an), (c0, cn), rv) in segs {
        for j in 0..*n {
            let jj = if *rv { n - 1 - j } else { j };
            let k = start + j;
            let mut m = mk(k as u32, 1_000_000 * k, (e0 + jj % en) as u32, k as u32, 49, Some((65, 1, (a0 + (jj / en) % an) as u32, (c0 + (jj / (en * an)) % cn) as u32)), vec![]);
            m.standard_header.mcnt = 0;
            v.push(m);
        }
        start += n;
    }
    v
}

/// id populations described structurally (table growth up to, at and beyond the capacity at every level, mixtures,
/// arrival orders); the model expands the same description
fn record_seg(sink: &mut Sink, segs: Vec<Seg>, what: &str) {
    let ins = segs_stream(&segs);
    let r = run_anon(ins.clone());
    let (verdict, within) = anon_oracle(&ins, &r);
    let obs = match &r {
        Ok(outs) => O::T(vec![
            O::L(0),
            O::T(
                outs.iter()
                    .map(|m| {
                        O::T(vec![
                            O::n(c4(&m.ecu)),
                            match &m.extended_header {
                                Some(e) => O::T(vec![O::n(c4(&e.apid)), O::n(c4(&e.ctid))]),
                                None => O::T(vec![]),
                            },
                        ])
                    })
                    .collect(),
            ),
        ]),
        Err(_) => O::T(vec![O::L(1)]),
    };
    let input_coq = format!(
        "(CAnonSeg {})",
        clist(&segs.iter().map(|(n, e, a, c, rv)| format!("({}, ({}, {}), ({}, {}), ({}, {}), {})", n, e.0, e.1, a.0, a.1, c.0, c.1, cbool(*rv))).collect::<Vec<_>>())
    );
    let id = sink.next_id();
    sink.push(Case {
        id,
        key: input_coq.clone(),
        input_coq,
        input_json: json!({"v": "seg", "segs": segs.iter().map(|(n, e, a, c, rv)| json!([n, e.0, e.1, a.0, a.1, c.0, c.1, rv])).collect::<Vec<_>>(), "what": what}),
        obs,
        verdict,
        classes: vec![],
        tags: vec!["pop".into(), format!("pop_{}", what), if within { "pop_within_capacity".into() } else { "pop_beyond_capacity".into() }],
        nontrivial: true,
    });
}

/// the capacity family of one run: per table level 999 / 1000 / a little more (in order and reversed), mixtures
fn capacity_family(rng: &mut Rng, big: bool) -> Vec<(Vec<Seg>, String)> {
    const E: u64 = 0x5000_0000;
    const A: u64 = 0x4100_0000;
    const C: u64 = 0x4300_0000;
    let level = |lv: u64, ids: u64, n: u64, rv: bool, off: u64| -> Seg {
        match lv {
            0 => (n, (E + off, ids), (A, 1), (C, 1), rv),
            1 => (n, (E + off, 1), (A, ids), (C, 1), rv),
            _ => (n, (E + off, 1), (A + off, 1), (C, ids), rv),
        }
    };
    let names = ["ecu", "apid", "ctid"];
    let mut v = vec![];
    for lv in 0..3u64 {
        let over = 1000 + rng.range(1, 15);
        v.push((vec![level(lv, 999, 999 + rng.range(0, 12), false, 0)], format!("{}_999", names[lv as usize])));
        v.push((vec![level(lv, 1000, 1000, false, 0)], format!("{}_1000", names[lv as usize])));
        v.push((vec![level(lv, over, over + rng.range(0, 5), false, 0)], format!("{}_above", names[lv as usize])));
        v.push((vec![level(lv, over, over, true, 0)], format!("{}_above_reversed", names[lv as usize])));
    }
    // mixtures: a table beyond the capacity next to small ones, in both arrival orders; every id seen twice
    let over = 1000 + rng.range(1, 9);
    v.push((vec![(over, (E, 1), (A, 1), (C, over), false), (3, (E, 1), (A + 1, 1), (C, 3), false)], "mix_ctid_big_then_small".into()));
    v.push((vec![(3, (E, 1), (A + 1, 1), (C, 3), false), (over, (E, 1), (A, 1), (C, over), true)], "mix_ctid_small_then_big".into()));
    v.push((vec![(over, (E, 1), (A, over), (C, 1), false), (5, (E + 1, 1), (A, 5), (C, 2), false)], "mix_apid_two_ecus".into()));
    v.push((vec![(over, (E, over), (A, 1), (C, 1), false), (over, (E, over), (A, 1), (C, 1), true)], "mix_ecu_seen_twice".into()));
    v.push((vec![(2400, (E, 1), (A, 4), (C, 600), false)], "spread_within".into()));
    if big {
        v.push((vec![(10_050, (E, 1), (A, 1), (C, 10_050), false)], "ctid_10050".into()));
        v.push((vec![(3000, (E, 3), (A, 1000), (C, 1), false), (2000, (E, 2000), (A, 1), (C, 1), true)], "mix_levels".into()));
    }
    v
}

// ------------------------------------------------------------------------------------------------ traffic generators
const TI_STR: u32 = 0x200;
const TI_RAW: u32 = 0x400;
const TI_U32: u32 = 0x43;
const TI_U16: u32 = 0x42;
const TI_U8: u32 = 0x41;
const TI_BOOL: u32 = 0x11;

fn put_ti(p: &mut Vec<u8>, big: bool, ti: u32) {
    p.extend_from_slice(&if big { ti.to_be_bytes() } else { ti.to_le_bytes() });
}
fn arg_var(p: &mut Vec<u8>, big: bool, ti: u32, data: &[u8]) {
    put_ti(p, big, ti);
    let l = data.len() as u16;
    p.extend_from_slice(&if big { l.to_be_bytes() } else { l.to_le_bytes() });
    p.extend_from_slice(data);
}
fn arg_str(p: &mut Vec<u8>, big: bool, s: &str) {
    let mut d = s.as_bytes().to_vec();
    d.push(0);
    arg_var(p, big, TI_STR, &d);
}
fn arg_u32(p: &mut Vec<u8>, big: bool, v: u32) {
    put_ti(p, big, TI_U32);
    p.extend_from_slice(&if big { v.to_be_bytes() } else { v.to_le_bytes() });
}
fn arg_u16(p: &mut Vec<u8>, big: bool, v: u16) {
    put_ti(p, big, TI_U16);
    p.extend_from_slice(&if big { v.to_be_bytes() } else { v.to_le_bytes() });
}
fn arg_u8(p: &mut Vec<u8>, big: bool, v: u8) {
    put_ti(p, big, TI_U8);
    p.push(v);
}
fn rand_bytes(rng: &mut Rng, n: u64) -> Vec<u8> {
    (0..n).map(|_| rng.below(256) as u8).collect()
}
fn ch(s: &[u8; 4]) -> u32 {
    u32::from_be_bytes(*s)
}

const ECU1: u32 = u32::from_be_bytes(*b"Ecu1");
const ECUS: [[u8; 4]; 5] = [*b"Ecu1", *b"ECU2", *b"CANX", *b"E001", *b"ABC\0"];
const APIDS: [[u8; 4]; 6] = [*b"APP1", *b"SYS\0", *b"FTA\0", *b"CAN\0", *b"A001", *b"HLD\0"];
const CTIDS: [[u8; 4]; 7] = [*b"CTX1", *b"JOUR", *b"FTC\0", *b"TC\0\0", *b"MMSG", *b"MDLT", *b"C001"];

/// one message aimed at (or deliberately next to) what the plugins match on
fn gen_traffic(rng: &mut Rng, idx: u32, rt: u64, ts: u32) -> (DltMessage, &'static str) {
    let big = rng.chance(1, 4);
    let htyp: u8 = 0x21 | 0x10 | if big { 2 } else { 0 };
    let ecu = if rng.chance(1, 2) { ECU1 } else { ch(rng.pick(&ECUS)) };
    let kind = rng.below(14);
    let mut p = vec![];
    let (mut m, tag) = match kind {
        0 => {
            // no extended header, arbitrary payload
            let n = rng.size(12);
            (mk(idx, rt, ecu, ts, htyp & !1, None, rand_bytes(rng, n)), "plain")
        }
        1 | 2 => {
            // non-verbose message with a (known / unknown) message id
            let id: u32 = *rng.pick(&[805312382u32, 805834673, 800000000, 805834674, 1, 0]);
            p.extend_from_slice(&if big { id.to_be_bytes() } else { id.to_le_bytes() });
            let n = rng.size(15);
            p.extend(rand_bytes(rng, n));
            if rng.chance(1, 6) {
                p.truncate(rng.below(5) as usize);
            }
            let ext = if rng.chance(1, 2) { None } else { Some((0x40u8, rng.below(3) as u8, ch(rng.pick(&APIDS)), ch(rng.pick(&CTIDS)))) };
            (mk(idx, rt, ecu, ts, if ext.is_some() { htyp } else { htyp & !1 }, ext, p), "nonverbose")
        }
        3 => {
            // verbose log
            let noar = rng.range(1, 3) as u8;
            for _ in 0..noar {
                match rng.below(4) {
                    0 => arg_str(&mut p, big, *rng.pick(&["hello", "", "a b 12.5 c", "FLDA"])),
                    1 => arg_u32(&mut p, big, rng.next() as u32),
                    2 => {
                        put_ti(&mut p, big, TI_BOOL);
                        p.push(rng.below(2) as u8)
                    }
                    _ => {
                        let n = rng.size(6);
                        let d = rand_bytes(rng, n);
                        arg_var(&mut p, big, TI_RAW, &d)
                    }
                }
            }
            (mk(idx, rt, ecu, ts, htyp, Some((0x41, noar, ch(rng.pick(&APIDS)), ch(rng.pick(&CTIDS)))), p), "verbose_log")
        }
        4 | 5 => {
            // SOME/IP: NwTrace Ipc, ctid TC, noar >= 2
            let seg = rng.below(6);
            let mut noar = 2u8;
            match seg {
                0..=2 => {
                    let hl = *rng.pick(&[9usize, 10, 12, 12, 12, 4]);
                    let mut h = rand_bytes(rng, hl as u64);
                    if hl == 12 {
                        h[8..12].copy_from_slice(&(rng.below(3) as u32).to_be_bytes());
                    }
                    arg_var(&mut p, big, TI_RAW, &h);
                    // someip header: service, method, length, client, session, proto, iface, msg type, return code
                    let mut s = vec![];
                    let sid: u16 = if rng.chance(3, 4) { 64098 } else { rng.next() as u16 };
                    let mid: u16 = if rng.chance(3, 4) { 1000 } else { rng.next() as u16 };
                    s.extend_from_slice(&sid.to_be_bytes());
                    s.extend_from_slice(&mid.to_be_bytes());
                    let pl = rng.size(6);
                    let body = rand_bytes(rng, pl);
                    s.extend_from_slice(&((8 + body.len()) as u32).to_be_bytes());
                    s.extend_from_slice(&(rng.next() as u32).to_be_bytes());
                    s.extend_from_slice(&[1, 1, *rng.pick(&[0u8, 1, 2, 0x80, 0x81]), 0]);
                    s.extend(body);
                    if rng.chance(1, 5) {
                        s.truncate(rng.below(17) as usize);
                    }
                    arg_var(&mut p, big, TI_RAW, &s);
                }
                3 => {
                    // NWST id, header, ?, nr chunks, chunk size
                    noar = 6;
                    arg_str(&mut p, big, "NWST");
                    arg_var(&mut p, big, TI_RAW, &(rng.below(3) as u32).to_le_bytes());
                    let hl = *rng.pick(&[9u64, 10, 12, 3]);
                    let h = rand_bytes(rng, hl);
                    arg_var(&mut p, big, TI_RAW, &h);
                    arg_var(&mut p, big, TI_RAW, &[0]);
                    arg_var(&mut p, big, TI_RAW, &(rng.below(4) as u16).to_le_bytes());
                    arg_var(&mut p, big, TI_RAW, &(rng.below(5) as u16).to_le_bytes());
                }
                4 => {
                    noar = 4;
                    arg_str(&mut p, big, "NWCH");
                    arg_var(&mut p, big, TI_RAW, &(rng.below(3) as u32).to_le_bytes());
                    arg_var(&mut p, big, TI_RAW, &(rng.below(4) as u16).to_le_bytes());
                    let n = rng.size(5);
                    let d = rand_bytes(rng, n);
                    arg_var(&mut p, big, TI_RAW, &d);
                }
                _ => {
                    noar = 2;
                    arg_str(&mut p, big, "NWEN");
                    arg_var(&mut p, big, TI_RAW, &(rng.below(3) as u32).to_le_bytes());
                }
            }
            let ctid = if rng.chance(5, 6) { ch(b"TC\0\0") } else { ch(rng.pick(&CTIDS)) };
            if rng.chance(1, 10) {
                noar = rng.below(3) as u8;
            }
            // DltMessageNwType::from maps every mtin outside 2..6 to Ipc: the SOME/IP plugin selects those as well
            let vmm: u8 = if rng.chance(1, 5) { 1 | (2 << 1) | (*rng.pick(&[0u8, 7, 15, 6, 3, 2]) << 4) } else { 0x15 };
            (mk(idx, rt, ecu, ts, htyp, Some((vmm, noar, ch(rng.pick(&APIDS)), ctid)), p), "someip")
        }
        6 => {
            // CAN: NwTrace Can, ctid TC, frame id + data
            let fid: u32 = *rng.pick(&[0u32, 1, 0x123, 0x7ff, 0x1234_5678]);
            if rng.chance(1, 2) {
                arg_u32(&mut p, big, fid)
            } else {
                arg_var(&mut p, big, TI_RAW, &fid.to_le_bytes())
            }
            let n = rng.size(8);
            let d = rand_bytes(rng, n);
            arg_var(&mut p, big, TI_RAW, &d);
            let ctid = if rng.chance(5, 6) { ch(b"TC\0\0") } else { ch(rng.pick(&CTIDS)) };
            (mk(idx, rt, ecu, ts, htyp, Some((0x25, 2, ch(b"CAN\0"), ctid)), p), "can")
        }
        7 => {
            // non-verbose control response GET_LOG_INFO for apid CAN / ctid TC (channel announcement)
            let id: u32 = if rng.chance(3, 4) { 3 } else { rng.below(30) as u32 };
            p.extend_from_slice(&if big { id.to_be_bytes() } else { id.to_le_bytes() });
            p.push(*rng.pick(&[7u8, 6, 3, 0, 8]));
            let put16 = |p: &mut Vec<u8>, v: u16| p.extend_from_slice(&if big { v.to_be_bytes() } else { v.to_le_bytes() });
            put16(&mut p, 1);
            p.extend_from_slice(b"CAN\0");
            put16(&mut p, 0);
            let desc = b"IuK_CAN 431";
            put16(&mut p, desc.len() as u16);
            p.extend_from_slice(desc);
            if rng.chance(1, 3) {
                p.truncate(rng.below(p.len() as u64 + 1) as usize);
            }
            (mk(idx, rt, ecu, ts, htyp, Some((0x26, 0, ch(b"CAN\0"), ch(b"TC\0\0"))), p), "can_log_info")
        }
        8 | 9 => {
            // Muniic: MMSG with 13 args / MDLT config message
            if rng.chance(3, 4) {
                arg_str(&mut p, big, "HmiP");
                arg_u32(&mut p, big, 5711);
                arg_u32(&mut p, big, 83029);
                arg_u32(&mut p, big, 7);
                arg_u32(&mut p, big, 0);
                arg_str(&mut p, big, "InitialData...");
                arg_str(&mut p, big, "[Hmi]");
                arg_u32(&mut p, big, if rng.chance(3, 4) { 1228779599 } else { rng.next() as u32 });
                arg_u32(&mut p, big, if rng.chance(3, 4) { 3478824001 } else { rng.next() as u32 });
                arg_str(&mut p, big, "C/LC:");
                arg_u8(&mut p, big, 2);
                arg_u8(&mut p, big, 0);
                let n = rng.size(3);
                let d = rand_bytes(rng, n);
                arg_var(&mut p, big, TI_RAW, &d);
                let noar = if rng.chance(7, 8) { 13 } else { rng.below(14) as u8 };
                (mk(idx, rt, ecu, ts, htyp, Some((0x41, noar, ch(b"MUN\0"), ch(b"MMSG"))), p), "muniic_msg")
            } else {
                arg_str(
                    &mut p,
                    big,
                    *rng.pick(&["Version: 20.48, git: 123, model hash: 2874425776", "Version: 21.01, git: abc, model hash: 1", "no version here"]),
                );
                (mk(idx, rt, ecu, ts, htyp, Some((0x41, 1, ch(b"MUN\0"), ch(b"MDLT"))), p), "muniic_cfg")
            }
        }
        10 => {
            // rewrite: SYS/JOUR with a text carrying a time stamp
            arg_str(
                &mut p,
                big,
                *rng.pick(&[
                    "2024/01/01 12:00:00.000000 123.456789 kernel: text",
                    "a b 0.5 x",
                    "a b 99999999.9 big",
                    "a b 1e5 nomatch",
                    "single",
                    "x y 429496.7296 overflow",
                ]),
            );
            let (a, c) = if rng.chance(3, 4) { (ch(b"SYS\0"), ch(b"JOUR")) } else { (ch(rng.pick(&APIDS)), ch(rng.pick(&CTIDS))) };
            (mk(idx, rt, ecu, ts, htyp, Some((0x41, 1, a, c)), p), "rewrite_target")
        }
        11 | 12 => {
            // file transfer: FLST / FLDA / FLFI
            let serial = rng.below(3) as u32;
            let (a, c) = if rng.chance(3, 4) { (ch(b"FTA\0"), ch(b"FTC\0")) } else { (ch(rng.pick(&APIDS)), ch(rng.pick(&CTIDS))) };
            match rng.below(5) {
                0 => {
                    arg_str(&mut p, big, "FLST");
                    arg_u32(&mut p, big, serial);
                    arg_str(&mut p, big, "file.bin");
                    arg_u32(&mut p, big, rng.below(20) as u32);
                    arg_str(&mut p, big, "date");
                    arg_u32(&mut p, big, rng.below(4) as u32);
                    arg_u16(&mut p, big, rng.below(6) as u16);
                    arg_str(&mut p, big, "FLST");
                    (mk(idx, rt, ecu, ts, htyp, Some((0x41, 8, a, c)), p), "ft_flst")
                }
                1 => {
                    arg_str(&mut p, big, "FLFI");
                    arg_u32(&mut p, big, serial);
                    arg_str(&mut p, big, "FLFI");
                    (mk(idx, rt, ecu, ts, htyp, Some((0x41, 3, a, c)), p), "ft_flfi")
                }
                _ => {
                    arg_str(&mut p, big, "FLDA");
                    arg_u32(&mut p, big, serial);
                    arg_u32(&mut p, big, rng.range(1, 3) as u32);
                    let n = rng.size(5);
                    let d = rand_bytes(rng, n);
                    arg_var(&mut p, big, TI_RAW, &d);
                    arg_str(&mut p, big, if rng.chance(9, 10) { "FLDA" } else { "FLDX" });
                    let vmm = if rng.chance(9, 10) { 0x41 } else { 0x31 };
                    let noar = if rng.chance(9, 10) { 5 } else { 4 };
                    (mk(idx, rt, ecu, ts, htyp, Some((vmm, noar, a, c)), p), "ft_flda")
                }
            }
        }
        _ => {
            let (m, _) = gen_ctrl(rng, idx, rt, ts, ecu, big);
            (m, "control")
        }
    };
    if rng.chance(1, 25) && !m.payload.is_empty() {
        // arbitrary damage
        let k = rng.below(m.payload.len() as u64) as usize;
        m.payload[k] ^= 1 << rng.below(8);
    }
    (m, tag)
}

/// control request / response, verbose or not, service ids the anonymiser and the detector look at
fn gen_ctrl(rng: &mut Rng, idx: u32, rt: u64, ts: u32, ecu: u32, big: bool) -> (DltMessage, &'static str) {
    let htyp: u8 = 0x21 | 0x10 | if big { 2 } else { 0 };
    let verbose = rng.chance(1, 3);
    let response = rng.chance(3, 4);
    let vmm = (verbose as u8) | (3 << 1) | ((if response { 2 } else { 1 }) << 4);
    let id: u32 = *rng.pick(&[19u32, 19, 3, 3, 0x13, 0xf01, 0, 20]);
    let mut p = vec![];
    let idb = if big { id.to_be_bytes() } else { id.to_le_bytes() };
    let mut tag = "ctrl";
    if verbose {
        match rng.below(4) {
            0 => {
                // the short first argument (a bool): the repaired get(0..4).unwrap()
                put_ti(&mut p, big, TI_BOOL);
                p.push(1);
                tag = "ctrl_short_first_arg";
            }
            1 => arg_u32(&mut p, big, id),
            2 => arg_var(&mut p, big, TI_RAW, &idb),
            _ => {
                arg_u16(&mut p, big, id as u16);
                tag = "ctrl_short_first_arg";
            }
        }
    } else {
        p.extend_from_slice(&idb);
        p.push(0);
        if id == 19 {
            let s = b"SW 1.2.3";
            p.extend_from_slice(&if big { (s.len() as u32).to_be_bytes() } else { (s.len() as u32).to_le_bytes() });
            p.extend_from_slice(s);
        } else {
            let n = rng.size(6);
            p.extend(rand_bytes(rng, n));
        }
        if rng.chance(1, 5) {
            p.truncate(rng.below(6) as usize);
        }
    }
    (mk(idx, rt, ecu, ts, htyp, Some((vmm, 1, ch(rng.pick(&APIDS)), ch(rng.pick(&CTIDS)))), p), tag)
}

/// stream for the anonymiser: small id pools so that ids repeat
fn gen_anon_stream(rng: &mut Rng, n: u64) -> Vec<DltMessage> {
    let necu = rng.range(1, 4);
    let napid = rng.range(1, 4);
    let nctid = rng.range(1, 3);
    let mut rt = rng.range(0, 5_000_000_000);
    (0..n)
        .map(|i| {
            rt += rng.below(2_000_000);
            let ts = rng.below(100_000) as u32;
            let (mut m, _) = if rng.chance(1, 3) {
                let big = rng.chance(1, 3);
                gen_ctrl(rng, i as u32, rt, ts, 0, big)
            } else {
                gen_traffic(rng, i as u32, rt, ts)
            };
            m.ecu = c4_of(0x4543_5500 + rng.below(necu) as u32);
            if let Some(e) = m.extended_header.as_mut() {
                e.apid = c4_of(0x4150_0000 + rng.below(napid) as u32);
                e.ctid = c4_of(0x4354_0000 + rng.below(nctid) as u32);
            }
            if rng.chance(1, 8) {
                m.lifecycle = rng.below(5) as u32;
            }
            if rng.chance(1, 8) {
                m.payload_text = Some("text".into());
            }
            if rng.chance(1, 10) {
                m.standard_header.htyp &= !0x10; // no timestamp
            }
            m
        })
        .collect()
}

// ------------------------------------------------------------------------------------------------ real decoders
#[derive(Clone, Debug, PartialEq)]
enum Plug {
    NonVerbose,
    SomeIp,
    Can,
    Muniic,
    Rewrite,
    /// rewrite rules of the harness (REWRITE_CUSTOM[k]): optional groups, chained rules, unknown group names
    RewriteCustom(u8),
    /// (keepFLDA, restrict to apid FTA / ctid FTC)
    FileTransfer(bool, bool),
}

/// rewrite configurations beside /repo/tests/rewrite.cfg: (filter, payloadRegex) per rule
const REWRITE_CUSTOM: [&[(&str, &str, &str)]; 3] = [
    // both groups optional: `captures.get(idx)` is None for a group that did not take part
    &[("apid", "SYS", r"^(?:T=(?<timeStamp>[0-9.eE+-]+))?(?: msg=(?<text>.*))?$")],
    // two rules in a row: the first rewrites the text the second one reads
    &[("ctid", "JOUR", r"^pre:(?<text>.*)$"), ("ctid", "JOUR", r"(?<text>.*?)(?: at (?<timeStamp>\d+(?:\.\d+)?))?$")],
    // a group name the plugin does not know, a look-ahead, an optional time stamp
    &[("apid", "SYS", r"^(?<other>[a-z]+:)?(?=.*[0-9])(?<text>.+?)(?: at (?<timeStamp>\d+\.\d+))?$")],
];

fn has_rewrite(chain: &[Plug]) -> bool {
    chain.iter().any(|p| matches!(p, Plug::Rewrite | Plug::RewriteCustom(_)))
}
impl Plug {
    fn json(&self) -> Value {
        match self {
            Plug::NonVerbose => json!({"kind": "NonVerbose"}),
            Plug::SomeIp => json!({"kind": "SomeIp"}),
            Plug::Can => json!({"kind": "CAN"}),
            Plug::Muniic => json!({"kind": "Muniic"}),
            Plug::Rewrite => json!({"kind": "Rewrite"}),
            Plug::RewriteCustom(k) => json!({"kind": "RewriteCustom", "k": k}),
            Plug::FileTransfer(k, f) => json!({"kind": "FileTransfer", "keep": k, "filter": f}),
        }
    }
    fn from_json(v: &Value) -> Plug {
        match v["kind"].as_str().unwrap() {
            "NonVerbose" => Plug::NonVerbose,
            "SomeIp" => Plug::SomeIp,
            "CAN" => Plug::Can,
            "Muniic" => Plug::Muniic,
            "Rewrite" => Plug::Rewrite,
            "RewriteCustom" => Plug::RewriteCustom(v["k"].as_u64().unwrap() as u8),
            "FileTransfer" => Plug::FileTransfer(v["keep"].as_bool().unwrap(), v["filter"].as_bool().unwrap()),
            x => panic!("unknown plugin {}", x),
        }
    }
    fn short(&self) -> &'static str {
        match self {
            Plug::NonVerbose => "nv",
            Plug::SomeIp => "someip",
            Plug::Can => "can",
            Plug::Muniic => "muniic",
            Plug::Rewrite => "rewrite",
            Plug::RewriteCustom(_) => "rewrite_custom",
            Plug::FileTransfer(true, _) => "ft_keep",
            Plug::FileTransfer(false, _) => "ft_drop",
        }
    }
    /// configuration JSON as the unit tests of each plugin / factory.rs use it, pointing at /repo/tests
    fn config(&self, repo: &str) -> Value {
        let tests = format!("{}/tests", repo);
        match self {
            Plug::NonVerbose => json!({"name": "NonVerbose", "fibexDir": tests}),
            Plug::SomeIp => json!({"name": "SomeIp", "fibexDir": tests}),
            Plug::Can => json!({"name": "CAN", "fibexDir": tests}),
            Plug::Muniic => json!({"name": "Muniic", "jsonDir": format!("{}/muniic", tests)}),
            Plug::Rewrite => serde_json::from_slice(&std::fs::read(format!("{}/rewrite.cfg", tests)).expect("rewrite.cfg")).expect("rewrite.cfg json"),
            Plug::RewriteCustom(k) => {
                let rules: Vec<Value> = REWRITE_CUSTOM[*k as usize % REWRITE_CUSTOM.len()]
                    .iter()
                    .enumerate()
                    .map(|(i, (fk, fv, re))| {
                        let mut f = serde_json::Map::new();
                        f.insert(fk.to_string(), json!(fv));
                        json!({"name": format!("rule{}", i), "filter": f, "payloadRegex": re})
                    })
                    .collect();
                json!({"name": "Rewrite", "enabled": true, "rewrites": rules})
            }
            Plug::FileTransfer(keep, filter) => {
                if *filter {
                    json!({"name": "FileTransfer", "allowSave": false, "keepFLDA": keep, "apid": "FTA", "ctid": "FTC"})
                } else {
                    json!({"name": "FileTransfer", "allowSave": false, "keepFLDA": keep})
                }
            }
        }
    }
}

fn repo_dir() -> String {
    std::env::var("VERIF_REPO").unwrap_or_else(|_| "/repo".to_string())
}

fn build_plugins(chain: &[Plug]) -> Result<Vec<Box<dyn Plugin + Send>>, String> {
    let repo = repo_dir();
    let mut eac = EacStats::new();
    let mut v = vec![];
    for p in chain {
        let cfg = p.config(&repo);
        match get_plugin(cfg.as_object().unwrap(), &mut eac) {
            Some(pl) => v.push(pl),
            None => return Err(format!("factory returned no plugin for {:?}", p)),
        }
    }
    Ok(v)
}

/// first argument of a verbose payload if it is an ASCII string of 5 bytes: its first four bytes
fn str5_at(payload: &[u8], big: bool, off: usize) -> Option<[u8; 4]> {
    if payload.len() < off + 11 {
        return None;
    }
    let ti = if big { u32::from_be_bytes(payload[off..off + 4].try_into().unwrap()) } else { u32::from_le_bytes(payload[off..off + 4].try_into().unwrap()) };
    let l = if big { u16::from_be_bytes(payload[off + 4..off + 6].try_into().unwrap()) } else { u16::from_le_bytes(payload[off + 4..off + 6].try_into().unwrap()) };
    if ti & 0x200 != 0 && ti & 0x38000 == 0 && ti & (0x800 | 0x1000 | 0x10 | 0x60 | 0x80) == 0 && l == 5 {
        Some(payload[off + 6..off + 10].try_into().unwrap())
    } else {
        None
    }
}

/// a file-transfer data package as the property means it: verbose log-info message with 5 arguments that starts
/// and ends with the string "FLDA" — and the chain has a FileTransfer plugin configured to drop those (for its apid/ctid)
fn droppable(chain: &[Plug], m: &DltMessage) -> bool {
    let e = match &m.extended_header {
        Some(e) => e,
        None => return false,
    };
    if e.verb_mstp_mtin != 0x41 || e.noar != 5 {
        return false;
    }
    let big = m.standard_header.is_big_endian();
    if str5_at(&m.payload, big, 0) != Some(*b"FLDA") || m.payload.len() < 22 || str5_at(&m.payload, big, m.payload.len() - 11) != Some(*b"FLDA") {
        return false;
    }
    chain.iter().any(|p| match p {
        Plug::FileTransfer(false, true) => e.apid == DltChar4::from_buf(b"FTA\0") && e.ctid == DltChar4::from_buf(b"FTC\0"),
        Plug::FileTransfer(false, false) => true,
        _ => false,
    })
}

/// which stateful paths a run reached (read off the texts the real plugins produced), for the distribution statistics
fn scenario_tags(ins: &[DltMessage], mtags: &[&'static str], outs: &[DltMessage], tags: &mut Vec<String>) {
    let mut set = BTreeSet::new();
    for (m, t) in ins.iter().zip(mtags.iter()) {
        let text = match outs.iter().find(|o| o.index == m.index).and_then(|o| o.payload_text.clone()) {
            Some(x) if Some(&x) != m.payload_text.as_ref() => x,
            _ => continue,
        };
        match *t {
            "seg_nwst" if text.starts_with("SOME/IP segmented message NWST id:") => {
                set.insert("path_seg_started");
            }
            "seg_nwch" if text.starts_with("SOME/IP segmented message NWCH") => {
                set.insert(if text.contains("out-of-sequence") {
                    "path_seg_chunk_rejected"
                } else if text.contains("unknown id") {
                    "path_seg_chunk_unknown_id"
                } else {
                    "path_seg_chunk_accepted"
                });
            }
            "seg_nwen" => {
                set.insert(if text.contains("err=None") {
                    "path_seg_end_unknown_id"
                } else if text.contains("too little data") {
                    "path_seg_end_incomplete"
                } else {
                    "path_seg_end_reassembled"
                });
            }
            "muniic_msg" if text.contains("InitialDataApp1") => {
                set.insert("path_muniic_decoded");
            }
            "can_frame" => {
                set.insert("path_can_frame_text");
            }
            _ => {}
        }
    }
    for t in set {
        tags.push(t.to_string());
    }
}

fn record_frame(sink: &mut Sink, chain: Vec<Plug>, msgs: Vec<DltMessage>, mtags: Vec<&'static str>) {
    let allow_ts = has_rewrite(&chain);
    let ins: Vec<(DltMessage, bool)> = msgs.iter().map(|m| (m.clone(), droppable(&chain, m))).collect();
    let chain2 = chain.clone();
    let shared: Arc<Mutex<Vec<DltMessage>>> = Arc::new(Mutex::new(vec![]));
    let shared2 = shared.clone();
    let r = catch_loc(std::panic::AssertUnwindSafe(move || {
        let plugins = build_plugins(&chain2)?;
        let n = plugins.len();
        let res = run_loop_into(msgs, plugins, &shared2);
        let outs = shared2.lock().unwrap().clone();
        match res {
            Ok(k) if k == n => Ok(outs),
            Ok(k) => Err(format!("{} of {} plugins returned", k, n)),
            Err(_) => Err("outflow error".to_string()),
        }
    }));
    let fail = |c: &str, d: String| Verdict::Fail { clause: c.into(), detail: d };
    let mut tags = vec!["frame".to_string(), format!("chain_len{}", chain.len())];
    for p in &chain {
        tags.push(format!("plugin_{}", p.short()));
    }
    for t in mtags.iter().collect::<BTreeSet<_>>() {
        tags.push(format!("msg_{}", t));
    }
    let (obs, verdict) = match &r {
        Err(e) => (O::T(vec![O::L(1)]), fail("decoders_no_panic", death_detail(&ins, &shared, e))),
        Ok(Err(e)) => (O::T(vec![O::L(2)]), fail("chain_runs", e.clone())),
        Ok(Ok(outs)) => {
            let v = frame_oracle(allow_ts, &ins, outs);
            if mtags.len() == ins.len() {
                let plain: Vec<DltMessage> = ins.iter().map(|x| x.0.clone()).collect();
                scenario_tags(&plain, &mtags, outs, &mut tags);
            }
            let ntext = ins.iter().zip(outs.iter()).filter(|(a, b)| a.0.index == b.index && a.0.payload_text != b.payload_text).count();
            if ntext > 0 {
                tags.push("decoded_text_set".into());
            }
            if outs.iter().any(|o| ins.iter().any(|(m, _)| m.index == o.index && m.extended_header.is_none() && o.extended_header.is_some())) {
                tags.push("ext_header_filled".into());
            }
            if outs.iter().any(|o| ins.iter().any(|(m, _)| m.index == o.index && m.timestamp_dms != o.timestamp_dms)) {
                tags.push("timestamp_rewritten".into());
            }
            if outs.len() < ins.len() {
                tags.push("flda_dropped".into());
            }
            (O::T(vec![O::L(0), O::T(outs.iter().map(msg_obs).collect())]), v)
        }
    };
    let input_coq = format!(
        "(CFrame {} {})",
        cbool(allow_ts),
        clist(&ins.iter().map(|(m, d)| format!("({}, {})", msg_coq(m), cbool(*d))).collect::<Vec<_>>())
    );
    let key = format!("{:?}|{}", chain, input_coq);
    let id = sink.next_id();
    sink.push(Case {
        id,
        key,
        input_coq,
        input_json: json!({"v": "frame", "plugins": chain.iter().map(|p| p.json()).collect::<Vec<_>>(), "msgs": ins.iter().map(|(m, _)| msg_json(m)).collect::<Vec<_>>()}),
        obs,
        verdict,
        classes: vec![],
        tags,
        nontrivial: !chain.is_empty() && ins.len() >= 3,
    });
}

fn gen_chain(rng: &mut Rng, k: u64) -> Vec<Plug> {
    // the 32 subsets of the five decoders are enumerated by k; FileTransfer joins every second chain; random order
    let decoders = [Plug::NonVerbose, Plug::SomeIp, Plug::Can, Plug::Muniic, Plug::Rewrite];
    let mask = k % 32;
    let mut chain: Vec<Plug> = decoders.iter().enumerate().filter(|(i, _)| mask & (1 << i) != 0).map(|(_, p)| p.clone()).collect();
    if rng.chance(1, 2) {
        chain.push(Plug::FileTransfer(rng.chance(1, 2), rng.chance(1, 2)));
    }
    // Fisher-Yates
    for i in (1..chain.len()).rev() {
        let j = rng.below(i as u64 + 1) as usize;
        chain.swap(i, j);
    }
    chain
}

// ------------------------------------------------------------------------------------------------ wrapper models
fn ext_coq(e: &Option<DltExtendedHeader>) -> String {
    match e {
        Some(e) => format!("(Some (EH {} {} {} {}))", e.verb_mstp_mtin, e.noar, c4(&e.apid), c4(&e.ctid)),
        None => "None".to_string(),
    }
}
fn text_coq(t: &Option<String>) -> String {
    match t {
        Some(t) => format!("(Some {})", cnums(t.as_bytes())),
        None => "None".to_string(),
    }
}

/// A real decoder plugin with an observer around it: for every message the plugin sees, the answer of the abstract
/// decoding (Plugins/Decoders.v) is recorded.  NonVerbose and CAN do not change their state on the messages
/// probed here, so their answers are taken from probe copies of the message (header removed / text preset),
/// which makes the guards of the wrapper observable; the others are read off the real call.
struct Spy {
    kind: Plug,
    inner: Box<dyn Plugin + Send>,
    answers: Arc<Mutex<Vec<String>>>,
}
impl Plugin for Spy {
    fn name(&self) -> &str {
        self.inner.name()
    }
    fn enabled(&self) -> bool {
        self.inner.enabled()
    }
    fn state(&self) -> Arc<RwLock<PluginState>> {
        self.inner.state()
    }
    fn set_lifecycle_read_handle(&mut self, lcs_r: &LcsRType) {
        self.inner.set_lifecycle_read_handle(lcs_r)
    }
    fn sync_all(&mut self) {
        self.inner.sync_all()
    }
    fn process_msg(&mut self, msg: &mut DltMessage) -> bool {
        let before = msg.clone();
        let mut probed: Option<String> = None;
        match self.kind {
            Plug::NonVerbose => {
                // what would the decoding say about this ecu / message id / payload? (same message, no header, no text)
                let mut p = before.clone();
                p.extended_header = None;
                p.payload_text = None;
                let _ = self.inner.process_msg(&mut p);
                probed = Some(match &p.payload_text {
                    None => "NvNoFrame".to_string(),
                    Some(t) => format!("(NvFrame {} {})", cnums(t.as_bytes()), ext_coq(&p.extended_header)),
                });
            }
            Plug::Can if !before.is_ctrl_response() => {
                // (the control-response branch updates the channel map: not probed)
                let mut p1 = before.clone();
                p1.payload_text = None;
                let _ = self.inner.process_msg(&mut p1);
                let mut p2 = before.clone();
                p2.payload_text = Some("\u{1}".to_string());
                let _ = self.inner.process_msg(&mut p2);
                probed = Some(match &p1.payload_text {
                    None => "(CanErr [])".to_string(),
                    Some(t) => {
                        if p2.payload_text.as_deref() == Some("\u{1}") {
                            format!("(CanErr {})", cnums(t.as_bytes()))
                        } else {
                            format!("(CanOk {})", cnums(t.as_bytes()))
                        }
                    }
                });
            }
            _ => {}
        }
        let r = self.inner.process_msg(msg);
        let text_changed = msg.payload_text != before.payload_text;
        let ans = match (&self.kind, probed) {
            (_, Some(a)) => a,
            (Plug::Can, None) => match (&msg.payload_text, text_changed) {
                (Some(t), true) => format!("(CanOk {})", cnums(t.as_bytes())),
                _ => "(CanErr [])".to_string(),
            },
            (Plug::Rewrite, None) | (Plug::RewriteCustom(_), None) => {
                let mut acts = vec![];
                if text_changed {
                    acts.push(format!("RwText {}", text_coq(&msg.payload_text)));
                }
                if msg.timestamp_dms != before.timestamp_dms {
                    acts.push(format!("RwTs {}", msg.timestamp_dms));
                }
                clist(&acts)
            }
            _ => match (&msg.payload_text, text_changed) {
                (Some(t), true) => format!("(TSet {})", cnums(t.as_bytes())),
                _ => "TNone".to_string(),
            },
        };
        self.answers.lock().unwrap().push(ans);
        r
    }
}

/// chain of real decoders (no FileTransfer) observed by Spies: the wrapper models with the observed answers must
/// reproduce every forwarded message exactly (Exec/C19.v CDec); the frame oracle applies as well
fn record_dec(sink: &mut Sink, chain: Vec<Plug>, msgs: Vec<DltMessage>, mtags: Vec<&'static str>) {
    let allow_ts = has_rewrite(&chain);
    let ins = msgs.clone();
    let logs: Vec<Arc<Mutex<Vec<String>>>> = chain.iter().map(|_| Arc::new(Mutex::new(vec![]))).collect();
    let chain2 = chain.clone();
    let logs2 = logs.clone();
    let shared: Arc<Mutex<Vec<DltMessage>>> = Arc::new(Mutex::new(vec![]));
    let shared2 = shared.clone();
    let r = catch_loc(std::panic::AssertUnwindSafe(move || {
        let plugins = build_plugins(&chain2)?;
        let n = plugins.len();
        let spies: Vec<Box<dyn Plugin + Send>> = plugins
            .into_iter()
            .zip(chain2.iter().zip(logs2.iter()))
            .map(|(inner, (kind, log))| Box::new(Spy { kind: kind.clone(), inner, answers: log.clone() }) as Box<dyn Plugin + Send>)
            .collect();
        let res = run_loop_into(msgs, spies, &shared2);
        let outs = shared2.lock().unwrap().clone();
        match res {
            Ok(k) if k == n => Ok(outs),
            Ok(k) => Err(format!("{} of {} plugins returned", k, n)),
            Err(_) => Err("outflow error".to_string()),
        }
    }));
    let fail = |c: &str, d: String| Verdict::Fail { clause: c.into(), detail: d };
    let mut tags = vec!["dec".to_string(), format!("dec_chain_len{}", chain.len())];
    for p in &chain {
        tags.push(format!("dec_plugin_{}", p.short()));
    }
    for t in mtags.iter().collect::<BTreeSet<_>>() {
        tags.push(format!("dec_msg_{}", t));
    }
    let (obs, verdict) = match &r {
        Err(e) => {
            let flagged: Vec<(DltMessage, bool)> = ins.iter().map(|m| (m.clone(), false)).collect();
            (O::T(vec![O::L(1)]), fail("decoders_no_panic", death_detail(&flagged, &shared, e)))
        }
        Ok(Err(e)) => (O::T(vec![O::L(2)]), fail("chain_runs", e.clone())),
        Ok(Ok(outs)) => {
            let flagged: Vec<(DltMessage, bool)> = ins.iter().map(|m| (m.clone(), false)).collect();
            if mtags.len() == ins.len() {
                scenario_tags(&ins, &mtags, outs, &mut tags);
            }
            (O::T(vec![O::L(0), O::T(outs.iter().map(msg_obs).collect())]), frame_oracle(allow_ts, &flagged, outs))
        }
    };
    let mut specs = vec![];
    for (p, log) in chain.iter().zip(logs.iter()) {
        let a = log.lock().unwrap();
        if a.iter().any(|x| x.starts_with("(NvFrame")) {
            tags.push("dec_nv_frame_found".into());
        }
        if a.iter().any(|x| x.starts_with("(CanErr [") && x.len() > 12) {
            tags.push("dec_can_err_text".into());
        }
        if a.iter().any(|x| x.contains("RwTs")) {
            tags.push("dec_rewrite_ts".into());
        }
        if a.iter().any(|x| x.starts_with("(TSet")) {
            tags.push("dec_text_set".into());
        }
        let l = clist(&a.iter().map(|x| x.as_str()).collect::<Vec<_>>());
        specs.push(match p {
            Plug::NonVerbose => format!("DNv true {}", l),
            Plug::SomeIp => format!("DSomeip {}", l),
            Plug::Can => format!("DCan {}", l),
            Plug::Muniic => format!("DMuniic {}", l),
            Plug::Rewrite | Plug::RewriteCustom(_) => format!("DRewrite true {}", l),
            Plug::FileTransfer(_, _) => panic!("no FileTransfer in dec chains"),
        });
    }
    let input_coq = format!("(CDec {} {})", clist(&specs), clist(&ins.iter().map(msg_coq).collect::<Vec<_>>()));
    let id = sink.next_id();
    sink.push(Case {
        id,
        key: format!("{:?}|{}", chain, input_coq),
        input_coq,
        input_json: json!({"v": "dec", "plugins": chain.iter().map(|p| p.json()).collect::<Vec<_>>(), "msgs": ins.iter().map(msg_json).collect::<Vec<_>>()}),
        obs,
        verdict,
        classes: vec![],
        tags,
        nontrivial: ins.len() >= 3,
    });
}

// ------------------------------------------------------------------------------------------------ lifecycle equivariance
/// (lifecycle id, ecu, nr_msgs, start, end | 0 when empty, is_resume)
type LcTable = Vec<(u64, u64, u64, u64, u64, u64)>;
type Detection = (Vec<(u32, u64)>, LcTable);

/// real lifecycle detection: per forwarded message (index, lifecycle id), the final table sorted by id
fn detect(msgs: Vec<DltMessage>) -> Result<Detection, String> {
    catch_loc(move || {
        let (tx, rx) = std::sync::mpsc::channel();
        for m in msgs {
            tx.send(m).unwrap();
        }
        drop(tx);
        let (lcs_r, lcs_w) = evmap::Options::default()
            .with_hasher(nohash_hasher::BuildNoHashHasher::<LifecycleId>::default())
            .construct::<LifecycleId, LifecycleItem>();
        let out: Mutex<Vec<DltMessage>> = Mutex::new(vec![]);
        let _lcs_w = parse_lifecycles_buffered_from_stream(lcs_w, rx, &|m| {
            out.lock().unwrap().push(m);
            Ok(())
        });
        let outs = out.into_inner().unwrap();
        let seq: Vec<(u32, u64)> = outs.iter().map(|m| (m.index, m.lifecycle as u64)).collect();
        let mut table: LcTable = vec![];
        if let Some(rd) = lcs_r.read() {
            for (id, b) in &rd {
                let lc = b.get_one().unwrap();
                table.push((*id as u64, c4(&lc.ecu) as u64, lc.nr_msgs as u64, lc.start_time, if lc.nr_msgs == 0 { 0 } else { lc.end_time() }, lc.is_resume() as u64));
            }
        }
        table.sort();
        (seq, table)
    })
}

/// lifecycle ids (global counter) replaced by their rank among the ids of the run; optionally the ECU label erased
fn canon(r: &Result<Detection, String>, with_ecu: bool) -> O {
    match r {
        Err(_) => O::T(vec![O::L(1)]),
        Ok((seq, table)) => {
            let ids: BTreeSet<u64> = seq.iter().map(|x| x.1).chain(table.iter().map(|t| t.0)).collect();
            let rank = |id: u64| ids.iter().filter(|y| **y < id).count() as u64;
            O::T(vec![
                O::L(0),
                O::T(seq.iter().map(|(i, l)| O::T(vec![O::n(*i), O::n(rank(*l))])).collect()),
                O::T(table.iter().map(|t| O::T(vec![O::n(rank(t.0)), O::n(if with_ecu { t.1 } else { 0 }), O::n(t.2), O::n(t.3), O::n(t.4), O::n(t.5)])).collect()),
            ])
        }
    }
}

fn lc_spec(m: &DltMessage) -> String {
    format!(
        "({}, {}, {}, {}, {}, {})",
        m.index,
        c4(&m.ecu),
        m.reception_time_us,
        m.timestamp_dms,
        cbool(m.standard_header.has_timestamp()),
        cbool(m.is_ctrl_request())
    )
}

fn gen_lc_stream(rng: &mut Rng, n: u64) -> Vec<DltMessage> {
    let necu = rng.range(1, 3);
    let base: u64 = 1_000_000_000_000 + rng.below(1_000_000) * 1000;
    // per ecu: lifecycle start (absolute us) and current uptime
    let mut start: Vec<u64> = (0..necu).map(|_| base).collect();
    let mut up: Vec<u64> = (0..necu).map(|_| rng.below(200_000) * 100).collect();
    let mut now = base + 30_000_000;
    let mut v = vec![];
    for i in 0..n {
        let e = rng.below(necu) as usize;
        now += *rng.pick(&[0u64, 1_000, 100_000, 1_000_000, 20_000_000]);
        if rng.chance(1, 7) {
            // reboot of this ecu
            now += *rng.pick(&[500_000u64, 5_000_000, 70_000_000, 200_000_000]);
            start[e] = now - rng.below(3_000_000);
        }
        up[e] = now.saturating_sub(start[e]).max(up[e] % 1000);
        let jitter = rng.below(300_000);
        let ts = ((up[e].saturating_sub(jitter)) / 100) as u32;
        let ecu = 0x4c43_0030 + e as u32;
        let mut m = match rng.below(8) {
            0 => {
                let big = rng.chance(1, 4);
                // includes verbose control responses with a short first argument (both the detector and the
                // anonymiser used to panic on those; repaired in /repo)
                let (m, _) = gen_ctrl(rng, i as u32, now, ts, ecu, big);
                m
            }
            1 => mk(i as u32, now, ecu, 0, 0x21, Some((0x41, 0, ch(b"APP1"), ch(b"CTX1"))), vec![]), // no timestamp
            2 => {
                // control request from the logger: foreign clock
                mk(i as u32, now, ecu, rng.below(1_000_000) as u32, 0x31, Some((0x16, 1, ch(b"DA1\0"), ch(b"DC1\0"))), vec![19, 0, 0, 0])
            }
            _ => {
                let mut p = vec![];
                arg_str(&mut p, false, "log");
                mk(i as u32, now, ecu, ts, 0x31, Some((0x41, 1, ch(rng.pick(&APIDS)), ch(rng.pick(&CTIDS)))), p)
            }
        };
        if rng.chance(1, 15) {
            // reception time going backwards a little
            m.reception_time_us = m.reception_time_us.saturating_sub(rng.below(2_000_000));
        }
        v.push(m);
    }
    v
}

fn record_equiv(sink: &mut Sink, msgs: Vec<DltMessage>) {
    let ins = msgs.clone();
    let orig = detect(msgs.clone());
    let anon = run_anon(msgs);
    let fail = |c: &str, d: String| Verdict::Fail { clause: c.into(), detail: d };
    let mut anon_specs = vec![];
    let (obs, verdict, tags) = match anon {
        Err(e) => (O::T(vec![O::T(vec![O::L(7)]), O::T(vec![O::L(8)])]), fail("anon_no_panic", e), vec!["equiv".to_string()]),
        Ok(am) => {
            anon_specs = am.iter().map(lc_spec).collect();
            let anon_lc = detect(am);
            let mut tags = vec!["equiv".to_string()];
            if let Ok((_, t)) = &orig {
                tags.push(format!("equiv_lifecycles{}", t.len().min(5)));
                if t.iter().any(|x| x.5 == 1) {
                    tags.push("equiv_resume".into());
                }
            } else {
                tags.push("equiv_detector_panics_on_both".into());
            }
            // the property: same boundaries and counts (ECU labels aside)
            let v = if canon(&orig, false) == canon(&anon_lc, false) {
                Verdict::Ok
            } else {
                let d = match (&orig, &anon_lc) {
                    (Ok(_), Err(e)) => format!("detection panics only on the anonymised stream: {}", e),
                    (Err(e), Ok(_)) => format!("detection panics only on the original stream: {}", e),
                    (Ok((s1, t1)), Ok((s2, t2))) => {
                        if canon(&Ok((s1.clone(), vec![])), false) != canon(&Ok((s2.clone(), vec![])), false) {
                            format!("message -> lifecycle assignment differs: {:?} vs {:?}", s1, s2)
                        } else {
                            format!("lifecycle tables differ: {:?} vs {:?}", t1, t2)
                        }
                    }
                    _ => "different panics".to_string(),
                };
                fail("lifecycles_equivariant", d)
            };
            (O::T(vec![canon(&orig, true), canon(&anon_lc, true)]), v, tags)
        }
    };
    let nlc = match &orig {
        Ok((_, t)) => t.len(),
        _ => 0,
    };
    let id = sink.next_id();
    let jm: Vec<Value> = ins.iter().map(msg_json).collect();
    let input_coq = format!("(CEquiv {} {})", clist(&ins.iter().map(lc_spec).collect::<Vec<_>>()), clist(&anon_specs));
    sink.push(Case {
        id,
        key: input_coq.clone(),
        input_coq,
        input_json: json!({"v": "equiv", "msgs": jm}),
        obs,
        verdict,
        classes: vec![],
        tags,
        nontrivial: nlc >= 2,
    });
}

// ------------------------------------------------------------------------------------------------ multi-message scenarios
// The plugins' STATEFUL paths: what a plugin does with a message depends on earlier messages (SOME/IP segment
// reassembly, CAN channel announcements, Muniic configuration messages and lookup cache, file transfers).  Each
// session is a mostly valid, ordered message sequence of one ECU; a stream interleaves sessions and sprinkles
// unrelated traffic.  Index, reception time, timestamp and mcnt are assigned afterwards, all pairwise different,
// so that a field copied from an earlier message of the session shows up in the field-by-field comparison.
type Proto = (DltMessage, &'static str);

fn proto(ecu: u32, big: bool, ext: (u8, u8, u32, u32), payload: Vec<u8>, tag: &'static str) -> Proto {
    (mk(0, 0, ecu, 0, 0x31 | if big { 2 } else { 0 }, Some(ext), payload), tag)
}

/// SOME/IP segmented transfer(s): NWST (id, header, nr chunks, chunk size), NWCH chunks, NWEN — and its variants
fn someip_session(rng: &mut Rng, ecu: u32) -> Vec<Proto> {
    let big = rng.chance(1, 5);
    // selected by the plugin: NwTrace with an "Ipc" mtin (1, or any outside 2..6), ctid TC; sometimes not selected
    let vmm: u8 = match rng.below(10) {
        0 => 1 | (2 << 1) | (2 << 4), // CAN
        1 => 1 | (2 << 1) | (*rng.pick(&[0u8, 7, 15]) << 4),
        2 => 0x41,
        _ => 0x15,
    };
    let ctid = if rng.chance(9, 10) { ch(b"TC\0\0") } else { ch(b"TX\0\0") };
    let apid = ch(rng.pick(&APIDS));
    let st = |id: u32, hl: usize, nr: u16, cs: u16, rng: &mut Rng| -> Proto {
        let mut p = vec![];
        arg_str(&mut p, big, "NWST");
        arg_var(&mut p, big, TI_RAW, &id.to_le_bytes());
        let mut h = rand_bytes(rng, hl as u64);
        if hl == 12 {
            h[8..12].copy_from_slice(&(rng.below(3) as u32).to_be_bytes());
        }
        arg_var(&mut p, big, TI_RAW, &h);
        arg_var(&mut p, big, TI_RAW, &[0]);
        arg_var(&mut p, big, TI_RAW, &nr.to_le_bytes());
        arg_var(&mut p, big, TI_RAW, &cs.to_le_bytes());
        proto(ecu, big, (vmm, 6, apid, ctid), p, "seg_nwst")
    };
    let chk = |id: u32, nr: u16, data: &[u8]| -> Proto {
        let mut p = vec![];
        arg_str(&mut p, big, "NWCH");
        arg_var(&mut p, big, TI_RAW, &id.to_le_bytes());
        arg_var(&mut p, big, TI_RAW, &nr.to_le_bytes());
        arg_var(&mut p, big, TI_RAW, data);
        proto(ecu, big, (vmm, 4, apid, ctid), p, "seg_nwch")
    };
    let en = |id: u32| -> Proto {
        let mut p = vec![];
        arg_str(&mut p, big, "NWEN");
        arg_var(&mut p, big, TI_RAW, &id.to_le_bytes());
        proto(ecu, big, (vmm, 2, apid, ctid), p, "seg_nwen")
    };
    // the reassembled bytes: a SOME/IP header for the service the FIBEX describes (or not) + body, cut into chunks
    let transfer = |id: u32, rng: &mut Rng| -> Vec<Proto> {
        let nr = rng.range(1, 5) as u16;
        let cs = *rng.pick(&[1u16, 2, 3, 5, 8, 16]);
        let last = if rng.chance(1, 2) { cs } else { rng.range(1, cs as u64) as u16 };
        let total = (nr as usize - 1) * cs as usize + last as usize;
        let mut data = vec![];
        data.extend_from_slice(&(if rng.chance(1, 2) { 64098u16 } else { rng.next() as u16 }).to_be_bytes());
        data.extend_from_slice(&(if rng.chance(1, 2) { 1000u16 } else { rng.next() as u16 }).to_be_bytes());
        data.extend_from_slice(&(total.saturating_sub(8) as u32).to_be_bytes());
        data.extend_from_slice(&(rng.next() as u32).to_be_bytes());
        data.extend_from_slice(&[1, 1, *rng.pick(&[0u8, 1, 2, 0x80]), 0]);
        while data.len() < total {
            data.push(rng.below(256) as u8);
        }
        data.truncate(total);
        let hl = *rng.pick(&[9usize, 10, 12, 12, 5]);
        let mut v = vec![st(id, hl, nr, cs, rng)];
        for (k, c) in data.chunks(cs as usize).enumerate() {
            v.push(chk(id, k as u16, c));
        }
        v.push(en(id));
        v
    };
    let id_a = *rng.pick(&[0u32, 1, 42, 0x0102_0304, u32::MAX]);
    let id_b = id_a.wrapping_add(1 + rng.below(3) as u32);
    let mut v = transfer(id_a, rng);
    match rng.below(11) {
        10 => {
            // the start is missing: chunks and end for an id the plugin does not know
            v.remove(0);
        }
        0 | 1 | 2 => {} // complete, in order
        3 => {
            // a chunk is lost
            if v.len() > 2 {
                let k = 1 + rng.below(v.len() as u64 - 2) as usize;
                v.remove(k);
            }
        }
        4 => {
            // two chunks swapped
            if v.len() > 3 {
                let k = 1 + rng.below(v.len() as u64 - 3) as usize;
                v.swap(k, k + 1);
            }
        }
        5 => {
            // end for an id that was never started, then the real transfer
            v.insert(0, en(id_b));
        }
        6 => {
            // two transfers interleaved
            let w = transfer(id_b, rng);
            v = interleave(rng, vec![v, w]);
        }
        7 => {
            // the start is repeated in the middle (entry replaced), chunks continue
            let k = 1 + rng.below(v.len() as u64 - 1) as usize;
            let again = v[0].clone();
            v.insert(k, again);
        }
        8 => {
            // a second end, and a second complete transfer with the same id afterwards
            v.push(en(id_a));
            v.extend(transfer(id_a, rng));
        }
        _ => {
            // a chunk with a wrong size in the middle
            if v.len() > 3 {
                v[1] = chk(id_a, 0, &[1, 2, 3, 4, 5, 6, 7, 8, 9, 10, 11, 12, 13, 14, 15, 16, 17]);
            }
        }
    }
    v
}

/// CAN: channel announcement (GET_LOG_INFO response for apid CAN) and frames of that ECU before / after it
fn can_session(rng: &mut Rng, ecu: u32) -> Vec<Proto> {
    let big = rng.chance(1, 5);
    let frame = |rng: &mut Rng| -> Proto {
        let mut p = vec![];
        let fid: u32 = *rng.pick(&[1u32, 0x123, 0x7ff, 0x1234_5678]);
        if rng.chance(1, 2) {
            arg_u32(&mut p, big, fid)
        } else {
            arg_var(&mut p, big, TI_RAW, &fid.to_le_bytes())
        }
        let n = rng.size(8);
        let d = rand_bytes(rng, n);
        arg_var(&mut p, big, TI_RAW, &d);
        proto(ecu, big, (0x25, 2, ch(b"CAN\0"), ch(b"TC\0\0")), p, "can_frame")
    };
    let announce = |rng: &mut Rng| -> Proto {
        let mut p = vec![];
        p.extend_from_slice(&if big { 3u32.to_be_bytes() } else { 3u32.to_le_bytes() });
        p.push(7);
        let put16 = |p: &mut Vec<u8>, v: u16| p.extend_from_slice(&if big { v.to_be_bytes() } else { v.to_le_bytes() });
        put16(&mut p, 1);
        p.extend_from_slice(b"CAN\0");
        put16(&mut p, 0);
        let desc: &[u8] = *rng.pick(&[b"IuK_CAN 431" as &[u8], b"CAN1", b""]);
        put16(&mut p, desc.len() as u16);
        p.extend_from_slice(desc);
        proto(ecu, big, (0x26, 0, ch(b"CAN\0"), ch(b"TC\0\0")), p, "can_announce")
    };
    let mut v = vec![];
    for _ in 0..rng.range(0, 2) {
        v.push(frame(rng));
    }
    v.push(announce(rng));
    for _ in 0..rng.range(1, 3) {
        v.push(frame(rng));
    }
    if rng.chance(1, 3) {
        v.push(announce(rng));
        v.push(frame(rng));
    }
    v
}

/// Muniic: configuration message (version / model hash), messages decoded with it (lookup cache: same ids twice),
/// a configuration with another hash, messages again
fn muniic_session(rng: &mut Rng, ecu: u32) -> Vec<Proto> {
    let big = rng.chance(1, 5);
    let cfg = |hash: &str| -> Proto {
        let mut p = vec![];
        arg_str(&mut p, big, &format!("Version: 20.48, git: 123, model hash: {}", hash));
        proto(ecu, big, (0x41, 1, ch(b"MUN\0"), ch(b"MDLT")), p, "muniic_cfg")
    };
    let mmsg = |rng: &mut Rng| -> Proto {
        let mut p = vec![];
        arg_str(&mut p, big, "HmiP");
        arg_u32(&mut p, big, 5711);
        arg_u32(&mut p, big, 83029);
        arg_u32(&mut p, big, 7);
        arg_u32(&mut p, big, 0);
        arg_str(&mut p, big, "InitialData...");
        arg_str(&mut p, big, "[Hmi]");
        arg_u32(&mut p, big, if rng.chance(5, 6) { 1228779599 } else { 17 });
        arg_u32(&mut p, big, if rng.chance(5, 6) { 3478824001 } else { 18 });
        arg_str(&mut p, big, "C/LC:");
        arg_u8(&mut p, big, 2);
        arg_u8(&mut p, big, 0);
        let n = rng.range(0, 2);
        let d = rand_bytes(rng, n);
        arg_var(&mut p, big, TI_RAW, &d);
        proto(ecu, big, (0x41, 13, ch(b"MUN\0"), ch(b"MMSG")), p, "muniic_msg")
    };
    let mut v = vec![];
    if rng.chance(1, 2) {
        v.push(mmsg(rng)); // before any configuration: default hash
    }
    v.push(cfg(*rng.pick(&["2874425776", "2944352002", "5"])));
    v.push(mmsg(rng));
    v.push(mmsg(rng));
    if rng.chance(1, 2) {
        v.push(cfg(*rng.pick(&["2944352002", "6", "2874425776"])));
        v.push(mmsg(rng));
    }
    v
}

/// file transfer: FLST, FLDA packages, FLFI of one serial (complete / package lost / duplicated / start missing)
fn ft_session(rng: &mut Rng, ecu: u32) -> Vec<Proto> {
    let big = rng.chance(1, 5);
    let (a, c) = if rng.chance(5, 6) { (ch(b"FTA\0"), ch(b"FTC\0")) } else { (ch(b"APP1"), ch(b"CTX1")) };
    let serial = rng.below(1000) as u32;
    let n = rng.range(1, 4) as u32;
    let bs = rng.range(1, 6) as u16;
    let mut v = vec![];
    let mut p = vec![];
    arg_str(&mut p, big, "FLST");
    arg_u32(&mut p, big, serial);
    arg_str(&mut p, big, "file.bin");
    arg_u32(&mut p, big, n * bs as u32);
    arg_str(&mut p, big, "date");
    arg_u32(&mut p, big, n);
    arg_u16(&mut p, big, bs);
    arg_str(&mut p, big, "FLST");
    v.push(proto(ecu, big, (0x41, 8, a, c), p, "ft_flst"));
    for k in 1..=n {
        let mut p = vec![];
        arg_str(&mut p, big, "FLDA");
        arg_u32(&mut p, big, serial);
        arg_u32(&mut p, big, k);
        let d = rand_bytes(rng, bs as u64);
        arg_var(&mut p, big, TI_RAW, &d);
        arg_str(&mut p, big, "FLDA");
        v.push(proto(ecu, big, (0x41, 5, a, c), p, "ft_flda"));
    }
    let mut p = vec![];
    arg_str(&mut p, big, "FLFI");
    arg_u32(&mut p, big, serial);
    arg_str(&mut p, big, "FLFI");
    v.push(proto(ecu, big, (0x41, 3, a, c), p, "ft_flfi"));
    match rng.below(6) {
        0 => {
            v.remove(0); // start missing
        }
        1 => {
            if v.len() > 2 {
                v.remove(1); // first package lost
            }
        }
        2 => {
            let d = v[1].clone();
            v.insert(1, d); // duplicate package
        }
        _ => {}
    }
    v
}

/// random merge that keeps the order inside each sequence
fn interleave(rng: &mut Rng, mut seqs: Vec<Vec<Proto>>) -> Vec<Proto> {
    for s in seqs.iter_mut() {
        s.reverse();
    }
    let mut out = vec![];
    loop {
        seqs.retain(|s| !s.is_empty());
        if seqs.is_empty() {
            return out;
        }
        let k = rng.below(seqs.len() as u64) as usize;
        out.push(seqs[k].pop().unwrap());
    }
}

/// a stream made of 1..2 sessions aimed at the plugins of the chain + a little unrelated traffic
fn gen_scenario_stream(rng: &mut Rng, chain: &[Plug]) -> (Vec<DltMessage>, Vec<&'static str>) {
    let mut kinds: Vec<u8> = vec![0]; // SOME/IP segments are always a candidate
    for p in chain {
        match p {
            Plug::SomeIp => kinds.extend_from_slice(&[0, 0, 0]),
            Plug::Can => kinds.extend_from_slice(&[1, 1]),
            Plug::Muniic => kinds.extend_from_slice(&[2, 2]),
            Plug::FileTransfer(_, _) => kinds.extend_from_slice(&[3, 3]),
            _ => {}
        }
    }
    let mut seqs = vec![];
    for _ in 0..rng.range(1, 2) {
        let ecu = if rng.chance(1, 2) { ECU1 } else { ch(rng.pick(&ECUS)) };
        seqs.push(match *rng.pick(&kinds) {
            0 => someip_session(rng, ecu),
            1 => can_session(rng, ecu),
            2 => muniic_session(rng, ecu),
            _ => ft_session(rng, ecu),
        });
    }
    let mut noise = vec![];
    for _ in 0..rng.range(0, 2) {
        noise.push(gen_traffic(rng, 0, 0, 0));
    }
    seqs.push(noise);
    let protos = interleave(rng, seqs);
    let mut rt = 1_000_000_000u64 + rng.below(1000);
    let mut ts = rng.below(100_000) as u32;
    let mut ms = vec![];
    let mut tg = vec![];
    for (i, (mut m, t)) in protos.into_iter().enumerate() {
        rt += 1 + rng.below(1_000_000);
        ts = ts.wrapping_add(1 + rng.below(5000) as u32);
        m.index = 100 + i as u32;
        m.reception_time_us = rt;
        m.timestamp_dms = ts;
        m.standard_header.mcnt = (7 * i + 3) as u8;
        m.lifecycle = 1 + (i as u32 % 3);
        if rng.chance(1, 8) {
            m.payload_text = Some("already decoded".into());
        }
        ms.push(m);
        tg.push(t);
    }
    (ms, tg)
}

// ------------------------------------------------------------------------------------------------ text-driven paths
// What a decoder does with a message is decided by parsing TEXT (Muniic configuration messages, rewrite rules)
// or the argument list of a verbose payload (SOME/IP segment markers, CAN frames, Muniic MMSG, file transfer).
// The generators below produce the grammar AROUND each recognised shape: every part present / absent, fields
// empty / of the wrong class / huge, doubled separators, truncation, parts swapped, the shape twice, junk around it,
// the right ids with unrelated text and the right text under other ids, repeated and out-of-order configuration
// messages — and argument lists with arguments dropped / duplicated / swapped / retyped / resized.

/// (literal in front of the field, values the recogniser accepts for the field)
type Shape = &'static [(&'static str, &'static [&'static str])];
/// MuniicPlugin::config_regex
static SH_MUNIIC: Shape = &[
    ("Version: ", &["20.48", "21.01", "1.0", "12345", "3x7"]),
    (", git: ", &["123", "abc", "a_1", "0"]),
    (", model hash: ", &["2874425776", "2944352002", "5", "0", "17"]),
];
/// /repo/tests/rewrite.cfg: ^.*? .*? (?<timeStamp>\d+\.\d+) (?<text>.*)$
static SH_JOUR: Shape = &[
    ("", &["2024/01/01", "a", "kernel:"]),
    (" ", &["12:00:00.000000", "b", "-"]),
    (" ", &["123.456789", "0.5", "99999999.9", "429496.7296", "0.0"]),
    (" ", &["kernel: text", "x", "two  spaces here", "0.5 1.5"]),
];
/// REWRITE_CUSTOM[0]
static SH_TMSG: Shape = &[("T=", &["1.5", "0", "1e3", "+0.25", "429496.7296", "1e999", "."]), (" msg=", &["hello", "a b", "T=2 msg=x"])];
/// REWRITE_CUSTOM[1] and [2]
static SH_PRE: Shape = &[("pre:", &["body 12.5 s", "x", "7"]), (" at ", &["3.25", "0.0001", "12", "99999999.5"])];

fn shape_name(sh: Shape) -> &'static str {
    if std::ptr::eq(sh, SH_MUNIIC) {
        "muniic"
    } else if std::ptr::eq(sh, SH_JOUR) {
        "jour"
    } else if std::ptr::eq(sh, SH_TMSG) {
        "tmsg"
    } else {
        "pre"
    }
}

#[derive(Clone, Copy, Debug, PartialEq)]
enum TOp {
    Good,
    DropPart(usize),
    DropLit(usize),
    DropField(usize),
    BadField(usize),
    HugeField(usize),
    Unicode(usize),
    ExtraSep(usize),
    Swap(usize),
    Case(usize),
    Truncate,
    Junk,
    Twice,
    Unrelated,
}
impl TOp {
    fn name(&self) -> &'static str {
        match self {
            TOp::Good => "good",
            TOp::DropPart(_) => "part_absent",
            TOp::DropLit(_) => "literal_absent",
            TOp::DropField(_) => "field_empty",
            TOp::BadField(_) => "field_wrong_class",
            TOp::HugeField(_) => "field_huge",
            TOp::Unicode(_) => "field_unicode",
            TOp::ExtraSep(_) => "extra_separator",
            TOp::Swap(_) => "parts_swapped",
            TOp::Case(_) => "literal_misspelled",
            TOp::Truncate => "truncated",
            TOp::Junk => "junk_around",
            TOp::Twice => "shape_twice",
            TOp::Unrelated => "unrelated_text",
        }
    }
}

/// every single variation of a shape (the deterministic family), `ascii`: leave out non-ASCII fields
fn all_ops(sh: Shape, ascii: bool) -> Vec<TOp> {
    let mut v = vec![TOp::Good, TOp::Truncate, TOp::Junk, TOp::Twice, TOp::Unrelated];
    for k in 0..sh.len() {
        v.extend_from_slice(&[TOp::DropPart(k), TOp::DropLit(k), TOp::DropField(k), TOp::BadField(k), TOp::HugeField(k), TOp::ExtraSep(k), TOp::Case(k)]);
        if !ascii {
            v.push(TOp::Unicode(k));
        }
        if k + 1 < sh.len() {
            v.push(TOp::Swap(k));
        }
    }
    v
}

fn apply_op(rng: &mut Rng, sh: Shape, op: TOp) -> String {
    let mut parts: Vec<(String, String)> = sh.iter().map(|(l, f)| (l.to_string(), rng.pick(f).to_string())).collect();
    match op {
        TOp::Good | TOp::Truncate | TOp::Junk | TOp::Twice | TOp::Unrelated => {}
        TOp::DropPart(k) => {
            parts.remove(k);
        }
        TOp::DropLit(k) => parts[k].0.clear(),
        TOp::DropField(k) => parts[k].1.clear(),
        TOp::BadField(k) => parts[k].1 = rng.pick(&["abc", "-1", "1 2", "0x1f", "1,5", "NaN", "1e5", " 7", "\t", "%s%n", "12.", ".5", "..", "a.b"]).to_string(),
        TOp::HugeField(k) => {
            parts[k].1 = match rng.below(4) {
                0 => "9".repeat(40),
                1 => format!("{}.{}", "1".repeat(30), "2".repeat(30)),
                2 => "18446744073709551616".to_string(),
                _ => "x7".repeat(150),
            }
        }
        TOp::Unicode(k) => parts[k].1 = rng.pick(&["\u{0663}\u{0664}.\u{0665}", "\u{ff11}\u{ff12}", "h\u{00e4}sh", "\u{1d7d8}.\u{1d7d9}", "1\u{2028}2"]).to_string(),
        TOp::ExtraSep(k) => {
            let l = parts[k].0.clone();
            parts[k].0 = match rng.below(4) {
                0 => l.replace(' ', "  "),
                1 => l.replace(',', ",,"),
                2 => format!("{}{}", l, l),
                _ => format!("{} ", l),
            };
        }
        TOp::Swap(k) => parts.swap(k, k + 1),
        TOp::Case(k) => {
            let l = parts[k].0.clone();
            parts[k].0 = match rng.below(3) {
                0 => l.to_uppercase(),
                1 => l.to_lowercase(),
                _ => l.replace(':', ";").replace('=', ":"),
            };
        }
    }
    let mut t: String = parts.iter().map(|(l, f)| format!("{}{}", l, f)).collect();
    match op {
        TOp::Truncate => {
            let n = t.chars().count() as u64;
            let keep = rng.below(n) as usize;
            t = t.chars().take(keep).collect();
        }
        TOp::Junk => {
            t = match rng.below(5) {
                0 => format!("xx {}", t),
                1 => format!("{} yy", t),
                2 => format!("[{}]", t),
                3 => format!("line1\n{}\nline3", t),
                _ => format!("{}\0tail", t),
            }
        }
        TOp::Twice => {
            let again = apply_op(rng, sh, TOp::Good);
            t = format!("{} {}", t, again);
        }
        TOp::Unrelated => t = rng.pick(&["", " ", "no version here", "Version", "git: 1", "model hash: 3", "1.5", "T= msg=", "pre:", "a b"]).to_string(),
        _ => {}
    }
    t
}

fn intern(s: String) -> &'static str {
    static TABLE: Mutex<BTreeMap<String, &'static str>> = Mutex::new(BTreeMap::new());
    let mut t = TABLE.lock().unwrap();
    if let Some(x) = t.get(&s) {
        return x;
    }
    let l: &'static str = Box::leak(s.clone().into_boxed_str());
    t.insert(s, l);
    l
}

/// a message that carries `text`: as one string argument, as one string argument per word (payload_as_text joins
/// the arguments with a blank), as an already present payload_text, or without terminating zero
fn text_proto(rng: &mut Rng, ecu: u32, ext: Option<(u8, u8, u32, u32)>, text: &str, tag: &'static str) -> Proto {
    let big = rng.chance(1, 5);
    let mut p = vec![];
    let mut noar = 1u8;
    let mut preset = None;
    match rng.below(6) {
        0 | 1 | 2 => arg_str(&mut p, big, text),
        3 => {
            let words: Vec<&str> = text.split(' ').collect();
            if words.len() <= 12 {
                noar = words.len() as u8;
                for w in words {
                    arg_str(&mut p, big, w);
                }
            } else {
                arg_str(&mut p, big, text);
            }
        }
        4 => {
            arg_str(&mut p, big, "x");
            preset = Some(text.to_string());
        }
        _ => arg_var(&mut p, big, TI_STR | 0x8000, text.as_bytes()),
    }
    let mut m = match ext {
        Some((vmm, _, a, c)) => mk(0, 0, ecu, 0, 0x31 | if big { 2 } else { 0 }, Some((vmm, noar, a, c)), p),
        None => mk(0, 0, ecu, 0, 0x30 | if big { 2 } else { 0 }, None, p),
    };
    m.payload_text = preset;
    (m, tag)
}

/// the ids a shape is recognised under (mostly), or ids next to them
fn shape_ids(rng: &mut Rng, sh: Shape) -> Option<(u8, u8, u32, u32)> {
    let right = rng.chance(3, 4);
    let other_a = ch(rng.pick(&APIDS));
    let other_c = ch(rng.pick(&CTIDS));
    if std::ptr::eq(sh, SH_MUNIIC) {
        if right {
            Some((0x41, 1, ch(rng.pick(&[*b"MUN\0", *b"APP1", *b"SYS\0"])), ch(b"MDLT")))
        } else {
            match rng.below(5) {
                0 => Some((0x41, 1, ch(b"MUN\0"), ch(b"MMSG"))),
                1 => Some((0x40, 1, ch(b"MUN\0"), ch(b"MDLT"))), // not verbose
                2 => Some((0x41, 1, ch(b"MDLT"), other_c)),
                3 => None,
                _ => Some((0x41, 1, other_a, other_c)),
            }
        }
    } else if right {
        Some((0x41, 1, ch(b"SYS\0"), ch(b"JOUR")))
    } else {
        match rng.below(4) {
            0 => Some((0x41, 1, ch(b"SYS\0"), other_c)),
            1 => Some((0x41, 1, other_a, ch(b"JOUR"))),
            2 => None,
            _ => Some((0x41, 1, other_a, other_c)),
        }
    }
}

fn muniic_mmsg(rng: &mut Rng, ecu: u32, big: bool) -> Proto {
    let mut p = vec![];
    arg_str(&mut p, big, "HmiP");
    arg_u32(&mut p, big, 5711);
    arg_u32(&mut p, big, 83029);
    arg_u32(&mut p, big, 7);
    arg_u32(&mut p, big, 0);
    arg_str(&mut p, big, "InitialData...");
    arg_str(&mut p, big, "[Hmi]");
    arg_u32(&mut p, big, if rng.chance(5, 6) { 1228779599 } else { 17 });
    arg_u32(&mut p, big, if rng.chance(5, 6) { 3478824001 } else { 18 });
    arg_str(&mut p, big, "C/LC:");
    arg_u8(&mut p, big, 2);
    arg_u8(&mut p, big, 0);
    let n = rng.range(0, 2);
    let d = rand_bytes(rng, n);
    arg_var(&mut p, big, TI_RAW, &d);
    proto(ecu, big, (0x41, 13, ch(b"MUN\0"), ch(b"MMSG")), p, "muniic_msg")
}

// ---- argument lists
/// one argument of a verbose payload as the arg_* helpers write it: (type info, data, has a 16 bit length field)
type VArg = (u32, Vec<u8>, bool);

fn parse_vargs(payload: &[u8], big: bool) -> Option<Vec<VArg>> {
    let mut v = vec![];
    let mut p = payload;
    while !p.is_empty() {
        if p.len() < 4 {
            return None;
        }
        let ti = if big { u32::from_be_bytes(p[0..4].try_into().unwrap()) } else { u32::from_le_bytes(p[0..4].try_into().unwrap()) };
        p = &p[4..];
        if ti & (TI_STR | TI_RAW) != 0 {
            if p.len() < 2 {
                return None;
            }
            let l = if big { u16::from_be_bytes([p[0], p[1]]) } else { u16::from_le_bytes([p[0], p[1]]) } as usize;
            if p.len() < 2 + l {
                return None;
            }
            v.push((ti, p[2..2 + l].to_vec(), true));
            p = &p[2 + l..];
        } else {
            let l = match ti & 0xf {
                1 => 1usize,
                2 => 2,
                3 => 4,
                4 => 8,
                _ => return None,
            };
            if p.len() < l {
                return None;
            }
            v.push((ti, p[..l].to_vec(), false));
            p = &p[l..];
        }
    }
    Some(v)
}

fn put_vargs(args: &[VArg], big: bool) -> Vec<u8> {
    let mut p = vec![];
    for (ti, d, var) in args {
        if *var {
            arg_var(&mut p, big, *ti, d);
        } else {
            put_ti(&mut p, big, *ti);
            p.extend_from_slice(d);
        }
    }
    p
}

/// one change of the argument list of a verbose message; returns what was done
fn mutate_args(rng: &mut Rng, m: &mut DltMessage) -> Option<&'static str> {
    let big = m.standard_header.is_big_endian();
    let verbose = m.extended_header.as_ref().map(|e| e.verb_mstp_mtin & 1 == 1).unwrap_or(false);
    if !verbose {
        return None;
    }
    let mut args = parse_vargs(&m.payload, big)?;
    if args.is_empty() {
        return None;
    }
    let k = rng.below(args.len() as u64) as usize;
    let resize = |d: &[u8], n: usize| -> Vec<u8> {
        // keeps the numeric value where it fits
        let mut le: Vec<u8> = if big { d.iter().rev().cloned().collect() } else { d.to_vec() };
        le.resize(n, 0);
        if big {
            le.reverse();
        }
        le
    };
    let what = match rng.below(12) {
        0 => {
            args.remove(k);
            "arg_dropped"
        }
        1 => {
            let a = args[k].clone();
            args.insert(k, a);
            "arg_duplicated"
        }
        2 => {
            if k + 1 < args.len() {
                args.swap(k, k + 1);
            } else {
                args.swap(0, k);
            }
            "args_swapped"
        }
        3 | 4 => {
            // another type for the same value
            let (ti, d, var) = args[k].clone();
            args[k] = if var {
                match rng.below(4) {
                    0 => (if ti & TI_STR != 0 { TI_RAW } else { TI_STR }, d, true),
                    1 => (ti | 0x8000, d, true), // UTF-8
                    2 => (TI_U32, resize(&d, 4), false),
                    _ => (ti | 0x800, d, true), // VARI flag without a name
                }
            } else {
                match rng.below(7) {
                    0 => (TI_U8, resize(&d, 1), false),
                    1 => (TI_U16, resize(&d, 2), false),
                    2 => (0x44, resize(&d, 8), false),
                    3 => (0x23, resize(&d, 4), false), // SINT 32
                    4 => (0x23, vec![0xff; 4], false), // negative
                    5 => (TI_RAW, d, true),
                    _ => {
                        let mut s = format!("{}", d.iter().fold(0u64, |a, b| (a << 8) | *b as u64)).into_bytes();
                        s.push(0);
                        (TI_STR, s, true)
                    }
                }
            };
            "arg_retyped"
        }
        5 | 6 => {
            // another length / value
            let (_, d, var) = &mut args[k];
            if *var {
                match rng.below(6) {
                    0 => d.clear(),
                    1 => {
                        d.pop();
                    }
                    2 => d.push(0),
                    3 => d.extend(std::iter::repeat(0x41).take(300)),
                    4 => d.truncate(1),
                    _ => d.insert(0, b' '),
                }
            } else {
                let b = *rng.pick(&[0u8, 0xff, 0x80, 1]);
                for x in d.iter_mut() {
                    *x = b;
                }
            }
            "arg_resized"
        }
        7 => {
            // selector strings of the plugins with the wrong case / a prefix of them
            if let Some((_, d, true)) = args.iter_mut().find(|a| a.2 && a.1.len() == 5) {
                match rng.below(3) {
                    0 => d.iter_mut().for_each(|x| *x = x.to_ascii_lowercase()),
                    1 => {
                        d.remove(3);
                    }
                    _ => d[4] = b' ',
                }
            }
            "selector_damaged"
        }
        8 => {
            let e = m.extended_header.as_mut().unwrap();
            e.noar = e.noar.wrapping_add(*rng.pick(&[1u8, 255, 2]));
            m.payload = put_vargs(&args, big);
            return Some("noar_off");
        }
        9 => {
            m.payload = put_vargs(&args, big);
            let n = m.payload.len() as u64;
            m.payload.truncate(rng.below(n) as usize);
            return Some("payload_cut");
        }
        10 => {
            m.standard_header.htyp ^= 2; // the other byte order for the same bytes
            return Some("endianness_flipped");
        }
        _ => {
            args.push((TI_U32, vec![1, 2, 3, 4], false));
            "arg_added"
        }
    };
    m.payload = put_vargs(&args, big);
    m.extended_header.as_mut().unwrap().noar = args.len().min(255) as u8;
    Some(what)
}

/// non-verbose payload shapes: message ids the FIBEX of /repo/tests describes for Ecu1 (and unknown ones) with every
/// payload length around the described byte length, both byte orders, with / without an own extended header;
/// channel announcements (GET_LOG_INFO responses) cut at every length
fn nv_session(rng: &mut Rng) -> Vec<Proto> {
    let mut v = vec![];
    let big = rng.chance(1, 4);
    let id: u32 = *rng.pick(&[805312382u32, 805834673, 800000000, 805834674]);
    let start = rng.below(6);
    for l in start..start + rng.range(2, 5) {
        let mut p: Vec<u8> = if big { id.to_be_bytes().to_vec() } else { id.to_le_bytes().to_vec() };
        let n = l * rng.range(1, 4);
        p.extend(rand_bytes(rng, n));
        if rng.chance(1, 6) {
            p.truncate(rng.below(5) as usize); // not even a message id
        }
        let ext = if rng.chance(1, 2) { Some((0x40u8, rng.below(3) as u8, ch(rng.pick(&APIDS)), ch(rng.pick(&CTIDS)))) } else { None };
        let htyp = 0x30 | if big { 2 } else { 0 } | if ext.is_some() { 1 } else { 0 };
        v.push((mk(0, 0, if rng.chance(5, 6) { ECU1 } else { ch(rng.pick(&ECUS)) }, 0, htyp, ext, p), "nonverbose_len_sweep"));
    }
    if rng.chance(1, 2) {
        let mut p = vec![];
        p.extend_from_slice(&if big { 3u32.to_be_bytes() } else { 3u32.to_le_bytes() });
        p.push(*rng.pick(&[7u8, 6, 8]));
        let put16 = |p: &mut Vec<u8>, x: u16| p.extend_from_slice(&if big { x.to_be_bytes() } else { x.to_le_bytes() });
        put16(&mut p, *rng.pick(&[1u16, 0, 2, 0xffff]));
        p.extend_from_slice(b"CAN\0");
        put16(&mut p, *rng.pick(&[0u16, 1, 0xffff]));
        let desc = b"IuK_CAN 431";
        put16(&mut p, *rng.pick(&[desc.len() as u16, 0, 0xffff, 3]));
        p.extend_from_slice(desc);
        let n = p.len() as u64;
        p.truncate(rng.range(4, n) as usize);
        v.push(proto(ECU1, big, (0x26, 0, ch(b"CAN\0"), ch(b"TC\0\0")), p, "can_announce_cut"));
    }
    v
}

/// text shapes the plugins of a chain look for (every shape stays a candidate: right text, no plugin for it)
fn chain_shapes(chain: &[Plug]) -> Vec<Shape> {
    let mut v: Vec<Shape> = vec![SH_MUNIIC, SH_JOUR, SH_TMSG, SH_PRE];
    for p in chain {
        match p {
            Plug::Muniic => v.extend_from_slice(&[SH_MUNIIC, SH_MUNIIC, SH_MUNIIC, SH_MUNIIC]),
            Plug::Rewrite => v.extend_from_slice(&[SH_JOUR, SH_JOUR, SH_JOUR]),
            Plug::RewriteCustom(0) => v.extend_from_slice(&[SH_TMSG, SH_TMSG, SH_TMSG]),
            Plug::RewriteCustom(_) => v.extend_from_slice(&[SH_PRE, SH_PRE, SH_PRE]),
            _ => {}
        }
    }
    v
}

/// index, times, counters of a stream: pairwise different (as in gen_scenario_stream)
fn finish_protos(rng: &mut Rng, protos: Vec<Proto>) -> (Vec<DltMessage>, Vec<&'static str>) {
    let mut rt = 1_000_000_000u64 + rng.below(1000);
    let mut ts = rng.below(100_000) as u32;
    let mut ms = vec![];
    let mut tg = vec![];
    for (i, (mut m, t)) in protos.into_iter().enumerate() {
        rt += 1 + rng.below(1_000_000);
        ts = ts.wrapping_add(1 + rng.below(5000) as u32);
        m.index = 100 + i as u32;
        m.reception_time_us = rt;
        m.timestamp_dms = ts;
        m.standard_header.mcnt = (7 * i + 3) as u8;
        m.lifecycle = 1 + (i as u32 % 3);
        ms.push(m);
        tg.push(t);
    }
    (ms, tg)
}

/// a stream of text-carrying messages around the shapes of the chain's plugins: configuration messages of one or
/// two ECUs (repeated, changed, out of order) with Muniic data messages between them, rewrite targets, a session of
/// another plugin with damaged argument lists, a little other traffic.  `only`: every text message uses this
/// variation (deterministic family), otherwise 1/3 well-formed and 2/3 varied.
fn gen_text_stream(rng: &mut Rng, chain: &[Plug], only: Option<(Shape, TOp)>, ascii: bool) -> (Vec<DltMessage>, Vec<&'static str>) {
    let shapes = chain_shapes(chain);
    let ecus = [if rng.chance(1, 2) { ECU1 } else { ch(rng.pick(&ECUS)) }, ch(rng.pick(&ECUS))];
    let mut main: Vec<Proto> = vec![];
    let n = rng.range(2, 6);
    for i in 0..n {
        let (sh, op) = match only {
            Some((sh, op)) if i == 1 || rng.chance(1, 2) => (sh, op),
            Some((sh, _)) => (sh, TOp::Good),
            None => {
                let sh = *rng.pick(&shapes);
                let ops = all_ops(sh, ascii);
                (sh, if rng.chance(1, 3) { TOp::Good } else { *rng.pick(&ops) })
            }
        };
        let text = apply_op(rng, sh, op);
        let ecu = ecus[rng.below(2) as usize];
        let ids = if only.is_some() && i == 1 {
            // the variation under the ids the recogniser looks at
            if std::ptr::eq(sh, SH_MUNIIC) {
                Some((0x41, 1, ch(b"MUN\0"), ch(b"MDLT")))
            } else {
                Some((0x41, 1, ch(b"SYS\0"), ch(b"JOUR")))
            }
        } else {
            shape_ids(rng, sh)
        };
        let tag = intern(format!("text_{}_{}", shape_name(sh), op.name()));
        let mut pr = text_proto(rng, ecu, ids, &text, tag);
        if !std::ptr::eq(sh, SH_MUNIIC) {
            // rewrite rules read (and overwrite) an already present text: a `text` group that takes no part clears it
            if only.is_some() && i == 1 {
                let mut twin = pr.clone();
                twin.0.payload_text = Some(text.clone());
                main.push(twin);
            } else if rng.chance(1, 3) {
                pr.0.payload_text = Some(text.clone());
            }
        }
        main.push(pr);
        if std::ptr::eq(sh, SH_MUNIIC) && rng.chance(1, 2) {
            let big = rng.chance(1, 5);
            main.push(muniic_mmsg(rng, ecu, big));
        }
    }
    let mut seqs = vec![main];
    if rng.chance(1, 2) {
        // a session of a payload-driven plugin with damaged argument lists
        let ecu = ecus[0];
        let mut sess = match rng.below(4) {
            0 => someip_session(rng, ecu),
            1 => can_session(rng, ecu),
            2 => ft_session(rng, ecu),
            _ => {
                let big = rng.chance(1, 5);
                vec![muniic_mmsg(rng, ecu, big), muniic_mmsg(rng, ecu, big)]
            }
        };
        for (m, t) in sess.iter_mut() {
            if rng.chance(1, 3) {
                if let Some(w) = mutate_args(rng, m) {
                    *t = intern(format!("{}_{}", t, w));
                }
            }
        }
        seqs.push(sess);
    }
    if chain.contains(&Plug::NonVerbose) && rng.chance(1, 2) || rng.chance(1, 8) {
        seqs.push(nv_session(rng));
    }
    if rng.chance(1, 3) {
        // the ids a text recogniser selects on, with a payload that is no text at all: non-verbose / control messages
        // with 0..5 bytes (payload_as_text reads a message id), verbose messages whose argument list is cut
        let (a, c) = *rng.pick(&[(ch(b"SYS\0"), ch(b"JOUR")), (ch(b"MUN\0"), ch(b"MDLT")), (ch(b"MUN\0"), ch(b"MMSG"))]);
        let mut odd = vec![];
        for _ in 0..rng.range(1, 3) {
            let vmm = *rng.pick(&[0x40u8, 0x40, 0x26, 0x16, 0x41, 0x41, 0x27]);
            let mut p = vec![];
            if vmm & 1 == 1 {
                arg_str(&mut p, false, "Version: 1.0, git: 1, model hash: 1");
                arg_u32(&mut p, false, 7);
            } else {
                p = rand_bytes(rng, 9);
            }
            let n = rng.below(p.len() as u64 + 1).min(if rng.chance(1, 2) { 5 } else { 99 });
            p.truncate(n as usize);
            odd.push(proto(ecus[0], false, (vmm, rng.below(3) as u8, a, c), p, "recognised_ids_odd_payload"));
        }
        seqs.push(odd);
    }
    let mut noise = vec![];
    for _ in 0..rng.range(0, 2) {
        noise.push(gen_traffic(rng, 0, 0, 0));
    }
    seqs.push(noise);
    let protos = interleave(rng, seqs);
    let (mut ms, tg) = finish_protos(rng, protos);
    for m in ms.iter_mut() {
        if m.payload_text.is_none() && rng.chance(1, 12) {
            m.payload_text = Some("already decoded".into());
        }
    }
    (ms, tg)
}

// ---- Muniic alone: configuration state against Plugins/MuniicCfg.v
fn cbytes_opt(t: &Option<Vec<u8>>) -> String {
    match t {
        Some(b) => format!("(Some {})", cnums(b)),
        None => "None".to_string(),
    }
}

/// the regex literal after `config_regex:` in src/plugins/muniic.rs of the repository under test
fn muniic_regex_source() -> Vec<u8> {
    let src = std::fs::read_to_string(format!("{}/src/plugins/muniic.rs", repo_dir())).unwrap_or_default();
    // the initialiser in from_json (the first occurrence is the field declaration)
    let from = src.rfind("config_regex:").map(|i| &src[i..]).unwrap_or("");
    match from.find("Regex::new(").and_then(|j| from[j..].find("r\"").map(|i| i + j)) {
        Some(i) => {
            let rest = &from[i + 2..];
            rest[..rest.find('"').unwrap_or(0)].as_bytes().to_vec()
        }
        None => vec![],
    }
}

/// model hashes of the JSON configuration (cfg_includes_model_hash)
fn muniic_known_hashes() -> Vec<Vec<u8>> {
    let mut v = BTreeSet::new();
    if let Ok(rd) = std::fs::read_dir(format!("{}/tests/muniic", repo_dir())) {
        for e in rd.flatten() {
            if let Ok(j) = serde_json::from_slice::<Value>(&std::fs::read(e.path()).unwrap_or_default()) {
                if let Some(map) = j["map"].as_object() {
                    for (_, hashes) in map {
                        if let Some(h) = hashes.as_object() {
                            for k in h.keys() {
                                v.insert(k.as_bytes().to_vec());
                            }
                        }
                    }
                }
            }
        }
    }
    v.into_iter().collect()
}

/// (labels of "Configs received per ECU" sorted, warnings, generation) of the plugin state
fn muniic_state(state: &Arc<RwLock<PluginState>>) -> (Vec<Vec<u8>>, Vec<Vec<u8>>, u32) {
    let st = state.read().unwrap_or_else(|e| e.into_inner());
    let mut labels: Vec<Vec<u8>> = st.value["treeItems"][2]["children"]
        .as_array()
        .map(|a| a.iter().map(|c| c["label"].as_str().unwrap_or("").as_bytes().to_vec()).collect())
        .unwrap_or_default();
    labels.sort();
    let warns = st.value["warnings"].as_array().map(|a| a.iter().map(|w| w.as_str().unwrap_or("").as_bytes().to_vec()).collect()).unwrap_or_default();
    (labels, warns, st.generation)
}

/// The Muniic plugin alone.  Besides the frame oracle, the plugin's configuration state (per-ECU table, warnings,
/// generation) after the run is compared with the model's, which runs its own matcher for the regex of the source
/// on the text of every configuration message.  Returns false when a text is not ASCII (no case recorded).
fn record_mcfg(sink: &mut Sink, msgs: Vec<DltMessage>, mtags: Vec<&'static str>) -> bool {
    let is_c = |m: &DltMessage, c: &[u8; 4]| m.extended_header.as_ref().map(|e| e.ctid == DltChar4::from_buf(c)).unwrap_or(false);
    // what the plugin reads of each message
    let mut infos: Vec<(Vec<u8>, Vec<u8>, Option<Vec<u8>>)> = vec![];
    for m in &msgs {
        let pt = if is_c(m, b"MDLT") || is_c(m, b"MMSG") {
            let m2 = m.clone();
            match catch(std::panic::AssertUnwindSafe(move || m2.payload_as_text().map(|c| c.into_owned()))) {
                Ok(Ok(t)) => Some(t.into_bytes()),
                _ => None,
            }
        } else {
            None
        };
        if let Some(t) = &pt {
            if !t.is_ascii() {
                return false;
            }
        }
        infos.push((format!("{}", m.ecu).into_bytes(), format!("{:?}", m.ecu).into_bytes(), pt));
    }
    let ins: Vec<(DltMessage, bool)> = msgs.iter().map(|m| (m.clone(), false)).collect();
    let shared: Arc<Mutex<Vec<DltMessage>>> = Arc::new(Mutex::new(vec![]));
    let shared2 = shared.clone();
    let state_slot: Arc<Mutex<Option<Arc<RwLock<PluginState>>>>> = Arc::new(Mutex::new(None));
    let slot2 = state_slot.clone();
    let before: Arc<Mutex<(Vec<Vec<u8>>, u32)>> = Arc::new(Mutex::new((vec![], 0)));
    let before2 = before.clone();
    let r = catch_loc(std::panic::AssertUnwindSafe(move || {
        let plugins = build_plugins(&[Plug::Muniic])?;
        let st = plugins[0].state();
        let (_, w0, g0) = muniic_state(&st);
        *before2.lock().unwrap() = (w0, g0);
        *slot2.lock().unwrap() = Some(st);
        match run_loop_into(msgs, plugins, &shared2) {
            Ok(1) => Ok(()),
            Ok(k) => Err(format!("{} of 1 plugins returned", k)),
            Err(_) => Err("outflow error".to_string()),
        }
    }));
    let fail = |c: &str, d: String| Verdict::Fail { clause: c.into(), detail: d };
    let outs = shared.lock().unwrap_or_else(|e| e.into_inner()).clone();
    let (warns0, gen0) = before.lock().unwrap().clone();
    let (labels, warns, gen) = match state_slot.lock().unwrap().as_ref() {
        Some(st) => muniic_state(st),
        None => (vec![], vec![], 0),
    };
    let mut tags = vec!["mcfg".to_string()];
    for t in mtags.iter().collect::<BTreeSet<_>>() {
        tags.push(format!("mcfg_msg_{}", t));
    }
    tags.push(format!("mcfg_table_entries{}", labels.len().min(3)));
    if warns.len() > warns0.len() {
        tags.push("mcfg_warning_raised".into());
    }
    let (dead, verdict) = match &r {
        Err(e) => (1u64, fail("decoders_no_panic", death_detail(&ins, &shared, e))),
        Ok(Err(e)) => (2, fail("chain_runs", e.clone())),
        Ok(Ok(())) => (0, frame_oracle(false, &ins, &outs)),
    };
    if mtags.len() == ins.len() {
        let plain: Vec<DltMessage> = ins.iter().map(|x| x.0.clone()).collect();
        scenario_tags(&plain, &mtags, &outs, &mut tags);
    }
    let obs = O::T(vec![
        O::T(outs.iter().map(msg_obs).collect()),
        O::n(dead),
        O::T(labels.iter().map(|l| O::bytes(l)).collect()),
        O::T(warns.iter().map(|l| O::bytes(l)).collect()),
        O::n(gen),
    ]);
    // answers of the MMSG decoding, read off the forwarded messages
    let entries: Vec<String> = ins
        .iter()
        .zip(infos.iter())
        .map(|((m, _), (disp, dbg, pt))| {
            let ans = match outs.iter().find(|o| o.index == m.index) {
                Some(o) if o.payload_text != m.payload_text => match &o.payload_text {
                    Some(t) => format!("(TSet {})", cnums(t.as_bytes())),
                    None => "TNone".to_string(),
                },
                _ => "TNone".to_string(),
            };
            format!("({}, MI {} {} {} {})", msg_coq(m), ans, cnums(disp), cnums(dbg), cbytes_opt(pt))
        })
        .collect();
    let known = muniic_known_hashes();
    let input_coq = format!(
        "(CMcfg {} {} {} {} {})",
        cnums(&muniic_regex_source()),
        clist(&known.iter().map(|k| cnums(k)).collect::<Vec<_>>()),
        clist(&warns0.iter().map(|k| cnums(k)).collect::<Vec<_>>()),
        gen0,
        clist(&entries)
    );
    let id = sink.next_id();
    sink.push(Case {
        id,
        key: input_coq.clone(),
        input_coq,
        input_json: json!({"v": "mcfg", "msgs": ins.iter().map(|(m, _)| msg_json(m)).collect::<Vec<_>>()}),
        obs,
        verdict,
        classes: vec![],
        tags,
        nontrivial: ins.len() >= 3,
    });
    true
}

// ------------------------------------------------------------------------------------------------ main
fn witness_ctrl_short() -> DltMessage {
    // DESIGN Appendix A C03-1: verbose control response, noar 1, payload = one bool argument
    mk(1, 1_000_000_010, ch(b"ECU1"), 10, 0x31, Some((1 | (3 << 1) | (2 << 4), 1, ch(b"APP1"), ch(b"CTX1"))), vec![0x11, 0, 0, 0, 1])
}

fn gen_loop_case(rng: &mut Rng) -> (Vec<(u8, Vec<Act>)>, Option<usize>, Vec<DltMessage>) {
    let np = rng.size(4);
    let mode = rng.below(4); // 0,1: conservative scripts, 2: + drops, 3: anything
    let scripts = (0..np)
        .map(|i| {
            let na = rng.range(0, 4);
            let acts = (0..na)
                .map(|_| {
                    let hi = match mode {
                        0 | 1 => 6,
                        2 => 7,
                        _ => 12,
                    };
                    match rng.below(hi) {
                        0 => Act::Pass,
                        1 | 2 => Act::Stamp,
                        3 => Act::SetText(97 + rng.below(26) as u8),
                        4 => if rng.chance(1, 2) { Act::ClearText } else { Act::Ext },
                        5 => Act::Ts(*rng.pick(&[1u32, 1000, u32::MAX])),
                        6 => Act::Drop,
                        7 => Act::Payload(rng.below(256) as u8),
                        8 => Act::Index,
                        9 => Act::Ecu(0x4543_5530 + rng.below(3) as u32),
                        10 => Act::Lc(rng.below(4) as u32),
                        _ => Act::Rtime(*rng.pick(&[1u64, 1_000_000, u64::MAX])),
                    }
                })
                .collect();
            (i as u8, acts)
        })
        .collect();
    let n = rng.size(8);
    // indices are unique within a stream (the oracle identifies messages by index); one may be u32::MAX
    let max_at = if rng.chance(1, 4) { rng.below(n + 1) } else { u64::MAX };
    let msgs: Vec<DltMessage> = (0..n)
        .map(|i| {
            let ext = if rng.chance(1, 2) { None } else { Some((0x41u8, 1u8, ch(b"APP1"), ch(b"CTX1"))) };
            let pl = rng.size(3);
            let mut m = mk(
                if i == max_at { u32::MAX } else { 10 + i as u32 },
                if rng.chance(1, 20) { u64::MAX } else { 1_000_000 + i * 10 },
                0x4543_5530,
                if rng.chance(1, 10) { u32::MAX } else { i as u32 },
                0x31,
                ext,
                rand_bytes(rng, pl),
            );
            if rng.chance(1, 4) {
                m.payload_text = Some("t".into());
            }
            m
        })
        .collect();
    let cap = if rng.chance(1, 4) { Some(rng.below(n + 1) as usize) } else { None };
    (scripts, cap, msgs)
}

fn replay(sink: &mut Sink, c: &Value) {
    let msgs = |c: &Value| -> Vec<DltMessage> { c["msgs"].as_array().map(|a| a.iter().map(msg_from_json).collect()).unwrap_or_default() };
    match c["v"].as_str().unwrap() {
        "loop" => {
            let scripts = c["scripts"]
                .as_array()
                .unwrap()
                .iter()
                .map(|s| (s["id"].as_u64().unwrap() as u8, s["acts"].as_array().unwrap().iter().map(Act::from_json).collect()))
                .collect();
            record_loop(sink, scripts, c["cap"].as_u64().map(|x| x as usize), msgs(c));
        }
        "anon" => record_anon(sink, msgs(c), "replay"),
        "pop" => record_pop(sink, c["necu"].as_u64().unwrap(), c["napid"].as_u64().unwrap(), c["nctid"].as_u64().unwrap(), c["n"].as_u64().unwrap()),
        "frame" => {
            let chain = c["plugins"].as_array().unwrap().iter().map(Plug::from_json).collect();
            record_frame(sink, chain, msgs(c), vec![]);
        }
        "seg" => {
            let segs = c["segs"]
                .as_array()
                .unwrap()
                .iter()
                .map(|x| {
                    let n = |i: usize| x[i].as_u64().unwrap();
                    (n(0), (n(1), n(2)), (n(3), n(4)), (n(5), n(6)), x[7].as_bool().unwrap())
                })
                .collect();
            record_seg(sink, segs, c["what"].as_str().unwrap_or("replay"));
        }
        "dec" => {
            let chain = c["plugins"].as_array().unwrap().iter().map(Plug::from_json).collect();
            record_dec(sink, chain, msgs(c), vec![]);
        }
        "equiv" => record_equiv(sink, msgs(c)),
        "mcfg" => {
            let ms = msgs(c);
            if !record_mcfg(sink, ms.clone(), vec![]) {
                record_dec(sink, vec![Plug::Muniic], ms, vec![]);
            }
        }
        x => panic!("unknown case kind {}", x),
    }
}

fn main() {
    let a = parse_args();
    let mut sink = Sink::new("C19", &a.out);
    sink.shard_size = 40;
    if let Some(p) = &a.replay {
        let v = read_replay(p);
        replay(&mut sink, &v["case"]);
        sink.finish();
        return;
    }
    let quick = a.tier == "quick";
    let search = a.tier == "search";
    let mut rng = Rng::new(a.seed);

    // ---- corpus
    record_anon(&mut sink, vec![mk(0, 1_000_000_000, ch(b"ECU1"), 10, 0x30, None, vec![]), witness_ctrl_short()], "anon_witness_short_first_arg");
    {
        // big-endian variant + a GET_SOFTWARE_VERSION / GET_LOG_INFO response, verbose and not
        let mut w = witness_ctrl_short();
        w.standard_header.htyp |= 2;
        let mut v = vec![w];
        for (i, (vmm, big, p)) in [
            (0x26u8, false, vec![19u8, 0, 0, 0, 0, 3, 0, 0, 0, b'1', b'.', b'0']),
            (0x26, true, vec![0, 0, 0, 19, 0, 0, 0, 0, 3, b'1', b'.', b'0']),
            (0x26, false, vec![3, 0, 0, 0, 7, 1, 0]),
            (0x27, false, vec![0x43, 0, 0, 0, 19, 0, 0, 0]),
            (0x27, true, vec![0, 0, 0, 0x43, 0, 0, 0, 3]),
            (0x26, false, vec![19, 0, 0]),
            (0x16, false, vec![19, 0, 0, 0]),
            (0x40, false, vec![1, 2, 3, 4, 5, 6]),
            (0x40, true, vec![1, 2, 3]),
            (0x41, false, vec![0, 2, 0, 0, 3, 0, b'h', b'i', 0]),
        ]
        .into_iter()
        .enumerate()
        {
            v.push(mk(10 + i as u32, 2_000_000_000 + 999 * i as u64, ch(b"ECU1"), 20 + i as u32, 0x31 | if big { 2 } else { 0 }, Some((vmm, 1, ch(b"APP1"), ch(b"CTX1"))), p));
        }
        record_anon(&mut sink, v, "anon_corpus_ctrl");
    }
    record_loop(
        &mut sink,
        vec![(0, vec![Act::Stamp]), (1, vec![Act::Stamp, Act::Drop]), (2, vec![Act::Stamp, Act::Ext])],
        None,
        (0..5).map(|i| mk(i, 100 + i as u64, ch(b"ECU1"), i, 0x30, None, vec![i as u8])).collect(),
    );
    record_loop(
        &mut sink,
        vec![(0, vec![Act::Stamp]), (1, vec![Act::Drop, Act::Stamp])],
        Some(1),
        (0..5).map(|i| mk(i, 100 + i as u64, ch(b"ECU1"), i, 0x30, None, vec![])).collect(),
    );
    record_loop(&mut sink, vec![], None, (0..3).map(|i| mk(i, 100, ch(b"ECU1"), i, 0x30, None, vec![])).collect());
    // capacity: exactly 999 ids per table, and one more (outside the property's quantifier; the model must still agree)
    record_pop(&mut sink, 1000, 1, 1, 1001);
    record_pop(&mut sink, 7, 5, 3, 250);
    if !quick && !search {
        record_pop(&mut sink, 1, 1001, 1, 1002);
        record_pop(&mut sink, 1, 1, 1001, 1002);
        record_pop(&mut sink, 40, 30, 2, 2400);
    }
    // one chain with everything, aimed traffic of every kind
    {
        let chain = vec![Plug::NonVerbose, Plug::SomeIp, Plug::Can, Plug::Muniic, Plug::Rewrite, Plug::FileTransfer(false, true)];
        let mut r2 = Rng::new(4711);
        let mut ms = vec![];
        let mut tg = vec![];
        for i in 0..40u32 {
            let (m, t) = gen_traffic(&mut r2, i, 1_000_000 + 1000 * i as u64, i);
            ms.push(m);
            tg.push(t);
        }
        record_frame(&mut sink, chain, ms, tg);
    }

    {
        let chain = vec![Plug::Rewrite, Plug::NonVerbose, Plug::Can, Plug::SomeIp, Plug::Muniic];
        let mut r2 = Rng::new(4712);
        let mut ms = vec![];
        let mut tg = vec![];
        for i in 0..30u32 {
            let (m, t) = gen_traffic(&mut r2, i, 1_000_000 + 1000 * i as u64, i);
            ms.push(m);
            tg.push(t);
        }
        record_dec(&mut sink, chain, ms, tg);
    }

    {
        // stateful paths, deterministic family: sessions of every kind through the single plugin and the full chain
        let mut r3 = Rng::new(4713);
        for k in 0..12u64 {
            let single = match k % 4 {
                0 => Plug::SomeIp,
                1 => Plug::Can,
                2 => Plug::Muniic,
                _ => Plug::SomeIp,
            };
            let (ms, tg) = gen_scenario_stream(&mut r3, &[single.clone()]);
            record_dec(&mut sink, vec![single], ms, tg);
            let full = vec![Plug::NonVerbose, Plug::SomeIp, Plug::FileTransfer(k % 2 == 0, true), Plug::Can, Plug::Muniic, Plug::Rewrite];
            let (ms, tg) = gen_scenario_stream(&mut r3, &full);
            record_frame(&mut sink, full, ms, tg);
        }
    }

    // ---- generated
    let scale = a.count.unwrap_or(if quick { 1 } else if search { 2 } else { 15 });
    // the capacity family is spread over the run so that the ~1000-message cases land in different shards
    let mut family = capacity_family(&mut Rng::new(a.seed ^ 0xC0FFEE), !quick && !search);
    for k in 0..(250 * scale) {
        if k % 12 == 0 {
            if let Some((segs, what)) = family.pop() {
                record_seg(&mut sink, segs, &what);
            }
        }
        let (s, c, m) = gen_loop_case(&mut rng);
        record_loop(&mut sink, s, c, m);
    }
    for (segs, what) in family {
        record_seg(&mut sink, segs, &what);
    }
    for _ in 0..(200 * scale) {
        let n = rng.range(1, 14);
        let ms = gen_anon_stream(&mut rng, n);
        record_anon(&mut sink, ms, "");
    }
    for k in 0..(200 * scale) {
        // the five decoders alone (twice each per 200), then non-empty subsets in random order
        let decoders = [Plug::NonVerbose, Plug::SomeIp, Plug::Can, Plug::Muniic, Plug::Rewrite];
        let chain: Vec<Plug> = if k % 200 < 10 {
            vec![decoders[(k % 5) as usize].clone()]
        } else {
            let mut c = gen_chain(&mut rng, 1 + k % 31);
            c.retain(|p| !matches!(p, Plug::FileTransfer(_, _)));
            c
        };
        if rng.chance(2, 5) {
            let (ms, tg) = gen_scenario_stream(&mut rng, &chain);
            record_dec(&mut sink, chain, ms, tg);
            continue;
        }
        let n = rng.range(1, 8);
        let mut ms = vec![];
        let mut tg = vec![];
        let mut rt = 1_000_000_000u64;
        for i in 0..n {
            rt += rng.below(1_000_000);
            let (mut m, t) = gen_traffic(&mut rng, i as u32, rt, (i * 10) as u32);
            m.lifecycle = rng.below(4) as u32;
            if rng.chance(1, 5) {
                m.payload_text = Some("already decoded".into());
            }
            let mut t = t;
            if chain.contains(&Plug::NonVerbose) && rng.chance(1, 3) {
                // a message the FIBEX of /repo/tests describes (Ecu1, known ids, enough payload), with and without
                // an extended header of its own: the `if msg.extended_header.is_none()` guard of the wrapper
                let big = rng.chance(1, 4);
                let id: u32 = *rng.pick(&[805312382u32, 805834673, 800000000]);
                let mut p: Vec<u8> = if big { id.to_be_bytes().to_vec() } else { id.to_le_bytes().to_vec() };
                let extra = *rng.pick(&[0u64, 3, 11, 14]);
                p.extend(rand_bytes(&mut rng, extra));
                let ext = if rng.chance(1, 2) { Some((0x40u8, rng.below(3) as u8, ch(rng.pick(&APIDS)), ch(rng.pick(&CTIDS)))) } else { None };
                let htyp = 0x30 | if big { 2 } else { 0 } | if ext.is_some() { 1 } else { 0 };
                let (lc, txt) = (m.lifecycle, m.payload_text.clone());
                m = mk(i as u32, rt, ECU1, (i * 10) as u32, htyp, ext, p);
                m.lifecycle = lc;
                m.payload_text = txt;
                t = "nonverbose_described";
            }
            ms.push(m);
            tg.push(t);
        }
        record_dec(&mut sink, chain, ms, tg);
    }
    for k in 0..(256 * scale) {
        let chain = gen_chain(&mut rng, k);
        if rng.chance(2, 5) {
            let (ms, tg) = gen_scenario_stream(&mut rng, &chain);
            record_frame(&mut sink, chain, ms, tg);
            continue;
        }
        let n = rng.range(1, 9);
        let mut ms = vec![];
        let mut tg = vec![];
        let mut rt = 1_000_000_000u64;
        for i in 0..n {
            rt += rng.below(1_000_000);
            let (mut m, t) = gen_traffic(&mut rng, i as u32, rt, (i * 10) as u32);
            // fields a decoder has no business with: lifecycle id, an already present text, message counter
            m.lifecycle = rng.below(4) as u32;
            if rng.chance(1, 6) {
                m.payload_text = Some("already decoded".into());
            }
            m.standard_header.len = rng.below(3) as u16 * 100;
            ms.push(m);
            tg.push(t);
        }
        record_frame(&mut sink, chain, ms, tg);
    }
    for _ in 0..(150 * scale) {
        let n = rng.range(2, 40);
        let ms = gen_lc_stream(&mut rng, n);
        record_equiv(&mut sink, ms);
    }

    // ---- text-driven paths of the decoders (own random streams: the cases above stay what they were)
    {
        // deterministic family: every single variation of every shape, through the plugin it is meant for alone
        // (Muniic: with the configuration state compared) and inside a full chain
        let mut rf = Rng::new(4714);
        let targets: [(Shape, Plug); 5] =
            [(SH_MUNIIC, Plug::Muniic), (SH_JOUR, Plug::Rewrite), (SH_TMSG, Plug::RewriteCustom(0)), (SH_PRE, Plug::RewriteCustom(1)), (SH_PRE, Plug::RewriteCustom(2))];
        for (sh, plug) in targets.iter() {
            for (k, op) in all_ops(sh, false).into_iter().enumerate() {
                let alone = vec![plug.clone()];
                let ascii = *plug == Plug::Muniic && !matches!(op, TOp::Unicode(_));
                let (ms, tg) = gen_text_stream(&mut rf, &alone, Some((sh, op)), ascii);
                if !(ascii && record_mcfg(&mut sink, ms.clone(), tg.clone())) {
                    record_dec(&mut sink, alone, ms, tg);
                }
                let rw = if matches!(plug, Plug::RewriteCustom(_)) { plug.clone() } else { Plug::Rewrite };
                let full = vec![Plug::NonVerbose, Plug::SomeIp, Plug::FileTransfer(k % 2 == 0, true), Plug::Can, Plug::Muniic, rw];
                let (ms, tg) = gen_text_stream(&mut rf, &full, Some((sh, op)), false);
                record_frame(&mut sink, full, ms, tg);
            }
        }
        // generated
        let mut rt = Rng::new(a.seed ^ 0x7E47_0C19);
        for k in 0..(150 * scale) {
            let mut chain = gen_chain(&mut rt, k);
            for p in chain.iter_mut() {
                if *p == Plug::Rewrite && rt.chance(1, 3) {
                    *p = Plug::RewriteCustom(rt.below(3) as u8);
                }
            }
            if !chain.contains(&Plug::Muniic) && !has_rewrite(&chain) {
                chain.push(if rt.chance(1, 2) { Plug::Muniic } else { Plug::RewriteCustom(rt.below(3) as u8) });
            }
            match k % 3 {
                0 => {
                    let (ms, tg) = gen_text_stream(&mut rt, &chain, None, false);
                    record_frame(&mut sink, chain, ms, tg);
                }
                1 => {
                    chain.retain(|p| !matches!(p, Plug::FileTransfer(_, _)));
                    let (ms, tg) = gen_text_stream(&mut rt, &chain, None, false);
                    record_dec(&mut sink, chain, ms, tg);
                }
                _ => {
                    let alone = vec![Plug::Muniic];
                    let (ms, tg) = gen_text_stream(&mut rt, &alone, None, true);
                    if !record_mcfg(&mut sink, ms.clone(), tg.clone()) {
                        record_dec(&mut sink, alone, ms, tg);
                    }
                }
            }
        }
    }
    sink.finish();
}
