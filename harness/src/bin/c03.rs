//! C03 — "No input content can crash ingestion and analysis": crash SEARCH harness + small model cases.
//!
//! Two roles in one binary:
//!  * driver (default): builds the case list (corpus witnesses, /repo/tests files, generated traces, mutations,
//!    grammar-based text files), starts isolated WORKER processes (`sh -c "ulimit -v 4194304; exec c03 --worker ..."`),
//!    follows their `START i` / `DONE i {json}` protocol with a wall-clock limit per case, attributes an abort /
//!    kill / stack overflow / hang to the case that was running, restarts the worker after a death, evaluates the
//!    oracle (every stage of the chain finished without panic, the worker survived, no single allocation request
//!    unrelated to the input size) and writes the shards for the Coq side (Exec/C03.v).
//!  * worker (`--worker <list> --from <i> --to <j>`): runs the WHOLE chain of the real `adlt` crate on each case:
//!    read (get_dlt_message_iterator over LowMarkBufReader) -> header/payload text, argument iteration, to_write
//!    (+ re-read) -> EacStats -> lifecycle detection -> listing (+ the time arithmetic/formatting `adlt convert`
//!    does on the listed lifecycles) -> time sort -> filters -> every built-in plugin (alone and chained).
//!
//! An input is described by a small deterministic *recipe* (JSON) that both roles expand to bytes, so that
//! replay files stay small and self-contained (corpus file names refer to /repo/tests).
use adlt::dlt::{DltChar4, DltMessage, DLT_MAX_STORAGE_MSG_SIZE};
use adlt::lifecycle::{Lifecycle, LifecycleId, LifecycleItem};
use adlt::plugins::plugin::Plugin;
use adlt::utils::eac_stats::EacStats;
use adlt::utils::LowMarkBufReader;
use std::alloc::{GlobalAlloc, Layout, System};
use std::cell::RefCell;
use std::io::{BufRead, Write as _};
use std::sync::atomic::{AtomicUsize, Ordering};
use std::sync::mpsc::channel;
use vharness::*;

// ================================================================= allocation guard
struct Guard;
static LIMIT: AtomicUsize = AtomicUsize::new(0); // 0 = guard off
static MAXREQ: AtomicUsize = AtomicUsize::new(0);
static NBIG: AtomicUsize = AtomicUsize::new(0);
const BIGN: usize = 32;
static BIG: [AtomicUsize; BIGN] = [const { AtomicUsize::new(0) }; BIGN];

#[inline]
fn note(size: usize) {
    if size > MAXREQ.load(Ordering::Relaxed) {
        MAXREQ.store(size, Ordering::Relaxed);
    }
    let lim = LIMIT.load(Ordering::Relaxed);
    if lim != 0 && size > lim {
        let i = NBIG.fetch_add(1, Ordering::Relaxed);
        if i < BIGN {
            BIG[i].store(size, Ordering::Relaxed);
        }
    }
}
unsafe impl GlobalAlloc for Guard {
    unsafe fn alloc(&self, l: Layout) -> *mut u8 {
        note(l.size());
        System.alloc(l)
    }
    unsafe fn alloc_zeroed(&self, l: Layout) -> *mut u8 {
        note(l.size());
        System.alloc_zeroed(l)
    }
    unsafe fn dealloc(&self, p: *mut u8, l: Layout) {
        System.dealloc(p, l)
    }
    unsafe fn realloc(&self, p: *mut u8, l: Layout, n: usize) -> *mut u8 {
        note(n);
        System.realloc(p, l, n)
    }
}
#[global_allocator]
static GLOBAL: Guard = Guard;

fn guard_start(limit: usize) {
    MAXREQ.store(0, Ordering::Relaxed);
    NBIG.store(0, Ordering::Relaxed);
    LIMIT.store(limit, Ordering::Relaxed);
}
/// (largest single request, requests above the limit)
fn guard_stop() -> (usize, Vec<usize>) {
    LIMIT.store(0, Ordering::Relaxed);
    let n = NBIG.load(Ordering::Relaxed).min(BIGN);
    let v = (0..n).map(|i| BIG[i].load(Ordering::Relaxed)).collect();
    (MAXREQ.load(Ordering::Relaxed), v)
}
/// allowed size of a single allocation request for an input of `len` bytes: a multiple of the input + a constant
/// (the constant covers the capped 64 MiB file-transfer pre-allocation and the readers' fixed buffers)
fn alloc_limit(len: usize) -> usize {
    64 * len + 96 * 1024 * 1024
}

fn repo_dir() -> String {
    std::env::var("VERIF_REPO").unwrap_or_else(|_| "/repo".to_string())
}

// ================================================================= panic capture (worker)
thread_local! { static LAST_PANIC: RefCell<String> = RefCell::new(String::new()); }
fn install_hook() {
    std::panic::set_hook(Box::new(|info| {
        let loc = info.location().map(|l| format!("{}:{}", l.file(), l.line())).unwrap_or_default();
        let msg = if let Some(s) = info.payload().downcast_ref::<String>() {
            s.clone()
        } else if let Some(s) = info.payload().downcast_ref::<&str>() {
            s.to_string()
        } else {
            "panic".to_string()
        };
        let mut m: String = msg.chars().take(160).collect();
        m = m.replace('\n', " ");
        LAST_PANIC.with(|p| *p.borrow_mut() = format!("{} | {}", loc, m));
    }));
}
fn stage<T, F: FnOnce() -> T>(name: &str, fails: &mut Vec<(String, String)>, f: F) -> Option<T> {
    match std::panic::catch_unwind(std::panic::AssertUnwindSafe(f)) {
        Ok(v) => Some(v),
        Err(_) => {
            let p = LAST_PANIC.with(|p| p.borrow().clone());
            fails.push((name.to_string(), p));
            None
        }
    }
}

// ================================================================= the chain (worker side)
const MAX_MSGS: usize = 400_000;
const MODIFIED_US: u64 = 1_709_251_200_000_000; // 2024-03-01 00:00:00 UTC, the "file modified time" given to the converters
const REF_US: u64 = 1_700_000_000_000_000; // reference time of a "first file" (only when the recipe asks for it)

/// number of filters of the chain's filter stage: 10 from the JSON front end + 4 from the DLF front end
const N_FILTERS: usize = 14;
fn filters() -> Vec<adlt::filter::Filter> {
    let js = [
        r#"{"type":0,"ecu":"ECU1"}"#,
        r#"{"type":0,"apid":"SYS","ctid":"JOUR"}"#,
        r#"{"type":1,"payloadRegex":"^[0-9a-f]+ .*(error|Error)"}"#,
        r#"{"type":0,"payload":"a","ignoreCasePayload":true}"#,
        r#"{"type":0,"ecu":"^E.*1$","ecuIsRegex":true,"logLevelMin":2,"logLevelMax":5}"#,
        r#"{"type":0,"mstp":3,"not":true}"#,
        r#"{"type":2,"payloadRegex":"(\\d+)\\s+(\\w+)","lifecycles":[1,2]}"#,
        r#"{"type":0,"verb_mstp_mtin":65,"ctid":"TC"}"#,
        // patterns that fancy_regex cannot hand to the linear-time engine (look-around, backreference): matching can fail
        // at RUN time (BacktrackLimitExceeded) depending on the payload text -- "abab.." from 18 repetitions on, "xxxx..",
        // "xword word ..x".  All are anchored so that ordinary payloads fail fast (hitting the limit costs ~50 ms).
        // They carry a context id (checked before the regex) so that only the generated verbose / logcat / genlog messages pay
        // for the slow engine, not the 100 000 message histories.
        r#"{"type":0,"ctid":"CTID","payloadRegex":"^(?i)(a|b|ab)*(?=c)"}"#,
        r#"{"type":1,"not":true,"ctid":"LogC","payloadRegex":": (a|b|ab)*(?=c)"}"#,
    ];
    let mut v: Vec<adlt::filter::Filter> = js.iter().filter_map(|j| adlt::filter::Filter::from_json(j).ok()).collect();
    // the same kind of patterns through the DLF (dlt-viewer filter file) front end, incl. a backreference
    let dlf = r#"<?xml version="1.0" encoding="UTF-8"?><dltfilter>
<filter><type>0</type><enablefilter>1</enablefilter><enablecontextid>1</enablecontextid><contextid>GenL</contextid><enablepayloadtext>1</enablepayloadtext><enableregexp_Payload>1</enableregexp_Payload><ignoreCase_Payload>1</ignoreCase_Payload><payloadtext>^(a|b|ab)*(?=c)</payloadtext></filter>
<filter><type>1</type><enablefilter>1</enablefilter><enablecontextid>1</enablecontextid><contextid>CTID</contextid><enablepayloadtext>1</enablepayloadtext><enableregexp_Payload>1</enableregexp_Payload><payloadtext>^x(\w+\s?)+(?&lt;!x)$</payloadtext></filter>
<filter><type>2</type><enablefilter>1</enablefilter><enablecontextid>1</enablecontextid><contextid>CTID</contextid><enablepayloadtext>1</enablepayloadtext><enableregexp_Payload>1</enableregexp_Payload><payloadtext>^(\w)\1*(\w\w?)+(?=!)</payloadtext></filter>
<filter><type>0</type><enablefilter>1</enablefilter><enablepayloadtext>1</enablepayloadtext><ignoreCase_Payload>1</ignoreCase_Payload><payloadtext>AbAb</payloadtext><enableapplicationid>1</enableapplicationid><applicationid>A.*</applicationid></filter>
</dltfilter>"#;
    if let Ok(fs) = adlt::filter::functions::filters_from_dlf(std::io::Cursor::new(dlf.as_bytes())) {
        v.extend(fs.into_iter().filter(|f| f.payload_regex.is_some() || f.payload.is_some()));
    }
    v
}

fn plugin_cfgs() -> Vec<(&'static str, Value)> {
    let tests = format!("{}/tests", repo_dir());
    let rewrite: Value = std::fs::read(format!("{}/rewrite.cfg", tests)).ok().and_then(|b| serde_json::from_slice(&b).ok()).unwrap_or(json!({"name":"Rewrite","rewrites":[]}));
    vec![
        ("ft", json!({"name":"FileTransfer","allowSave":false,"keepFLDA":true})),
        ("ft_save", json!({"name":"FileTransfer","allowSave":true,"keepFLDA":false})),
        ("nv", json!({"name":"NonVerbose","fibexDir":tests})),
        ("someip", json!({"name":"SomeIp","fibexDir":tests})),
        ("can", json!({"name":"CAN","fibexDir":tests})),
        ("rewrite", rewrite),
        ("muniic", json!({"name":"Muniic","jsonDir":format!("{}/muniic", tests)})),
    ]
}
fn build_plugin(name: &str) -> Option<Box<dyn Plugin + Send>> {
    if name == "anon" {
        return Some(Box::new(adlt::plugins::anonymize::AnonymizePlugin::new("anon")));
    }
    let mut eac = EacStats::new();
    for (n, cfg) in plugin_cfgs() {
        if n == name {
            return adlt::plugins::factory::get_plugin(cfg.as_object().unwrap(), &mut eac);
        }
    }
    None
}
const PLUGINS: [&str; 8] = ["ft", "ft_save", "nv", "someip", "can", "rewrite", "muniic", "anon"];

fn ecu_u32(e: &DltChar4) -> u32 {
    u32::from_be_bytes(*e.as_buf())
}

fn render(m: &DltMessage, sink: &mut Vec<u8>) -> usize {
    sink.clear();
    let _ = m.header_as_text_to_write(sink);
    let mut n = sink.len();
    if let Ok(t) = m.payload_as_text() {
        n += t.len();
    }
    n
}

struct ChainObs {
    fails: Vec<(String, String)>,
    nmsgs: usize,
    nlcs: usize,
    out_bytes: usize,
    /// (index, ecu, rt, ts_us, has_ts, creq) of the messages read — only for model cases
    specs: Vec<(u32, u32, u64, u64, bool, bool)>,
    deliveries: Vec<(u32, u32)>,
    table: Vec<(u32, u32, u32, u64, u64, bool, u32)>,
    listing: Vec<u32>,
    /// per plugin pass: (name, plugins constructed, messages forwarded, messages with a payload text set by a plugin)
    fx: Vec<(String, usize, usize, usize)>,
    /// accumulated-state reach of the input: distinct ECUs, max distinct APIDs below one ECU, max distinct CTIDs below
    /// one (ECU, APID), largest message index, mcnt wrapped (> 256 messages of one ECU)
    reach: (usize, usize, usize, u32, bool),
}

fn run_chain(ext: &str, bytes: &[u8], with_ref: bool, model: bool, start_index: u32) -> ChainObs {
    let mut fails = vec![];
    let mut obs = ChainObs { fails: vec![], nmsgs: 0, nlcs: 0, out_bytes: 0, specs: vec![], deliveries: vec![], table: vec![], listing: vec![], fx: vec![], reach: (0, 0, 0, 0, false) };
    let ns = adlt::utils::get_new_namespace();
    // ---- read
    let msgs: Vec<DltMessage> = stage("read", &mut fails, || {
        let rd = LowMarkBufReader::new(std::io::Cursor::new(bytes.to_vec()), 512 * 1024, DLT_MAX_STORAGE_MSG_SIZE + 4);
        let it = adlt::utils::get_dlt_message_iterator(ext, start_index, rd, ns, if with_ref { Some(REF_US) } else { None }, Some(MODIFIED_US), None);
        it.take(MAX_MSGS).collect()
    })
    .unwrap_or_default();
    obs.nmsgs = msgs.len();
    {
        use std::collections::{HashMap, HashSet};
        let mut per_ecu: HashMap<u32, (usize, HashMap<u32, HashSet<u32>>)> = HashMap::new();
        for m in &msgs {
            let e = per_ecu.entry(ecu_u32(&m.ecu)).or_default();
            e.0 += 1;
            if let (Some(a), Some(c)) = (m.apid(), m.ctid()) {
                e.1.entry(ecu_u32(a)).or_default().insert(ecu_u32(c));
            }
        }
        obs.reach = (
            per_ecu.len(),
            per_ecu.values().map(|e| e.1.len()).max().unwrap_or(0),
            per_ecu.values().flat_map(|e| e.1.values().map(|c| c.len())).max().unwrap_or(0),
            msgs.iter().map(|m| m.index).max().unwrap_or(0),
            per_ecu.values().any(|e| e.0 > 256),
        );
    }
    if model {
        obs.specs = msgs.iter().map(|m| (m.index, ecu_u32(&m.ecu), m.reception_time_us, m.timestamp_us(), m.standard_header.has_timestamp(), m.is_ctrl_request())).collect();
    }
    // ---- text, arguments, re-serialise (+ re-read of the written bytes)
    let written: Vec<u8> = stage("text", &mut fails, || {
        let mut hdr = Vec::with_capacity(256);
        let mut out = Vec::new();
        let mut n = 0usize;
        for m in &msgs {
            n += render(m, &mut hdr);
            for a in m {
                n += a.payload_raw.len() + a.is_string() as usize + a.is_raw() as usize + a.scod() as usize % 2;
            }
            let _ = (m.is_ctrl_request(), m.is_ctrl_response(), m.noar(), m.is_verbose(), m.mstp(), m.reception_time(), m.apid(), m.ctid(), m.verb_mstp_mtin());
            let _ = m.to_write(&mut out);
        }
        std::hint::black_box(n);
        out
    })
    .unwrap_or_default();
    obs.out_bytes = written.len();
    stage("reread", &mut fails, || {
        let rd = LowMarkBufReader::new(std::io::Cursor::new(written), 512 * 1024, DLT_MAX_STORAGE_MSG_SIZE + 4);
        adlt::utils::get_dlt_message_iterator("dlt", 0, rd, ns, None, None, None).take(MAX_MSGS).count()
    });
    // ---- statistics
    stage("eac", &mut fails, || {
        let mut e = EacStats::new();
        for m in &msgs {
            e.add_msg(m);
        }
        e.nr_msgs()
    });
    // ---- lifecycle detection
    let (lcs_r, lcs_w) = evmap::Options::default().with_hasher(nohash_hasher::BuildNoHashHasher::<LifecycleId>::default()).construct::<LifecycleId, LifecycleItem>();
    let base = {
        let mut probe = vharness::dltgen::plain_msg(0, 99, 1, 0);
        Lifecycle::new(&mut probe).id()
    };
    let lc_out: RefCell<Vec<DltMessage>> = RefCell::new(Vec::with_capacity(msgs.len()));
    let lcs_w = stage("lifecycle", &mut fails, || {
        let (tx, rx) = channel();
        for m in &msgs {
            tx.send(m.clone()).unwrap();
        }
        drop(tx);
        adlt::lifecycle::parse_lifecycles_buffered_from_stream(lcs_w, rx, &|m| {
            lc_out.borrow_mut().push(m);
            Ok(())
        })
    });
    let lc_out = lc_out.into_inner();
    let after_lc: Vec<DltMessage> = if lcs_w.is_some() { lc_out } else { msgs.clone() };
    if model {
        obs.deliveries = after_lc.iter().map(|m| (m.index, m.lifecycle.wrapping_sub(base))).collect();
    }
    // ---- listing + what `adlt convert` prints per lifecycle
    if let Some(a) = lcs_r.read() {
        obs.nlcs = a.len();
        if model {
            for (id, b) in a.iter() {
                let lc = b.get_one().unwrap();
                obs.table.push((id.wrapping_sub(base), ecu_u32(&lc.ecu), lc.nr_msgs, lc.start_time, if lc.nr_msgs == 0 { 0 } else { lc.end_time() }, lc.is_resume(), lc.verif_resume_origin_id().map(|i| i.wrapping_sub(base)).unwrap_or(0)));
            }
            obs.table.sort();
        }
        let listing = stage("listing", &mut fails, || {
            use chrono::TimeZone;
            let v = adlt::lifecycle::get_sorted_lifecycles_as_vec(&a);
            let mut n = 0usize;
            for lc in &v {
                let t0 = if lc.is_resume() { lc.resume_time() } else { lc.start_time };
                n += chrono::Local.from_utc_datetime(&adlt::utils::utc_time_from_us(t0)).format("%Y/%m/%d %H:%M:%S%.6f").to_string().len();
                n += chrono::Local.from_utc_datetime(&adlt::utils::utc_time_from_us(lc.end_time())).format("%H:%M:%S").to_string().len();
                n += (lc.resume_start_time() % 7) as usize + (lc.suspend_duration() % 7) as usize + lc.only_control_requests() as usize + lc.sw_version.as_ref().map(|s| s.len()).unwrap_or(0);
            }
            std::hint::black_box(n);
            v.iter().map(|l| l.id().wrapping_sub(base)).collect::<Vec<u32>>()
        });
        if model {
            obs.listing = listing.unwrap_or_default();
        }
    }
    // ---- time sort
    stage("sort", &mut fails, || {
        let (tx, rx) = channel();
        for m in &after_lc {
            tx.send(m.clone()).unwrap();
        }
        drop(tx);
        let n = RefCell::new(0usize);
        let _ = adlt::utils::buffer_sort_messages(rx, &|_m| { *n.borrow_mut() += 1; Ok(()) }, &lcs_r, 3, 20 * adlt::utils::US_PER_SEC);
        n.into_inner()
    });
    // ---- filters
    stage("filter", &mut fails, || {
        let fs = filters();
        if fs.len() != N_FILTERS { panic!("harness: only {} of the {} filters could be constructed", fs.len(), N_FILTERS); }
        let mut n = 0usize;
        for m in &after_lc {
            for f in &fs {
                n += f.matches(m) as usize;
            }
        }
        let (tx, rx) = channel();
        for m in &after_lc {
            tx.send(m.clone()).unwrap();
        }
        drop(tx);
        let _ = adlt::filter::functions::filter_as_streams(&fs, &rx, &|_m| Ok(()));
        n
    });
    // ---- plugins: each alone, then all chained (in the order `adlt convert` would use: anon first)
    let fx: RefCell<Vec<(String, usize, usize, usize)>> = RefCell::new(vec![]);
    let n_text_before = after_lc.iter().filter(|m| m.payload_text.is_some()).count();
    let run_plugins = |names: &[&str], tag: &str, fails: &mut Vec<(String, String)>| {
        let mut ps = vec![];
        for n in names {
            if let Some(mut p) = stage(&format!("plugin_new:{}", n), fails, || build_plugin(n)).flatten() {
                p.set_lifecycle_read_handle(&lcs_r);
                ps.push(p);
            }
        }
        stage(&format!("plugin:{}", tag), fails, || {
            let (tx, rx) = channel();
            for m in &after_lc {
                tx.send(m.clone()).unwrap();
            }
            drop(tx);
            let hdr = RefCell::new(Vec::with_capacity(256));
            let n = RefCell::new(0usize);
            let cnt = RefCell::new((0usize, 0usize));
            let nps = ps.len();
            let wr = RefCell::new(Vec::with_capacity(4096));
            let r = adlt::plugins::plugins_process_msgs(rx, &|m| {
                *n.borrow_mut() += render(&m, &mut hdr.borrow_mut());
                // `adlt convert -o` writes the messages as the plugins left them
                wr.borrow_mut().clear();
                let _ = m.to_write(&mut *wr.borrow_mut());
                let mut c = cnt.borrow_mut();
                c.0 += 1;
                c.1 += m.payload_text.is_some() as usize;
                Ok(())
            }, ps);
            let c = cnt.into_inner();
            let mut items = 0usize;
            if let Ok(mut ps) = r {
                for p in ps.iter_mut() {
                    p.sync_all();
                    let st = p.state();
                    let g = st.read().unwrap();
                    *n.borrow_mut() += g.value.to_string().len();
                    if p.name() == "FileTransfer" {
                        items += g.value["treeItems"].as_array().map(|a| a.len()).unwrap_or(0);
                    }
                }
            }
            // last number: messages that got a payload text from a plugin; for the file-transfer passes: transfers listed in the plugin state
            fx.borrow_mut().push((tag.to_string(), nps, c.0, if tag.starts_with("ft") { items } else { c.1.saturating_sub(n_text_before) }));
            n.into_inner()
        });
    };
    for p in PLUGINS {
        run_plugins(&[p], p, &mut fails);
    }
    run_plugins(&["anon", "ft", "someip", "nv", "can", "rewrite", "muniic"], "all", &mut fails);
    run_plugins(&["rewrite", "someip", "nv", "can", "muniic", "ft_save", "anon"], "all_rev", &mut fails);
    drop(lcs_w);
    obs.fx = fx.into_inner();
    obs.fails = fails;
    obs
}

// ================================================================= DLT byte encoder (generator side)
#[derive(Clone, Debug)]
struct GM {
    secs: u32,
    us: u32,
    secu: [u8; 4],
    htyp: u8,
    mcnt: u8,
    hecu: [u8; 4],
    seid: u32,
    tmsp: u32,
    ext: Option<(u8, u8, [u8; 4], [u8; 4])>,
    payload: Vec<u8>,
    len_delta: i32,
}
impl GM {
    fn new(ecu: &[u8; 4], secs: u32, us: u32, tmsp: u32) -> GM {
        GM { secs, us, secu: *ecu, htyp: 0x20 | 0x10 | 0x04, mcnt: 0, hecu: *ecu, seid: 0, tmsp, ext: None, payload: vec![], len_delta: 0 }
    }
    fn ext(mut self, vmm: u8, noar: u8, apid: &[u8; 4], ctid: &[u8; 4]) -> GM {
        self.htyp |= 1;
        self.ext = Some((vmm, noar, *apid, *ctid));
        self
    }
    fn be(&self) -> bool {
        self.htyp & 2 != 0
    }
    fn enc(&self, serial: bool, out: &mut Vec<u8>) {
        if serial {
            out.extend_from_slice(b"DLS\x01");
        } else {
            out.extend_from_slice(b"DLT\x01");
            out.extend_from_slice(&self.secs.to_le_bytes());
            out.extend_from_slice(&self.us.to_le_bytes());
            out.extend_from_slice(&self.secu);
        }
        let mut h = vec![];
        if self.htyp & 4 != 0 {
            h.extend_from_slice(&self.hecu);
        }
        if self.htyp & 8 != 0 {
            h.extend_from_slice(&self.seid.to_be_bytes());
        }
        if self.htyp & 0x10 != 0 {
            h.extend_from_slice(&self.tmsp.to_be_bytes());
        }
        if self.htyp & 1 != 0 {
            let (v, n, a, c) = self.ext.unwrap_or((0x41, 0, *b"APID", *b"CTID"));
            h.push(v);
            h.push(n);
            h.extend_from_slice(&a);
            h.extend_from_slice(&c);
        }
        let len = (4 + h.len() + self.payload.len()) as i64 + self.len_delta as i64;
        let len = len.clamp(0, 65535) as u16;
        out.push(self.htyp);
        out.push(self.mcnt);
        out.extend_from_slice(&len.to_be_bytes());
        out.extend_from_slice(&h);
        out.extend_from_slice(&self.payload);
    }
}
fn u32b(v: u32, be: bool) -> [u8; 4] {
    if be { v.to_be_bytes() } else { v.to_le_bytes() }
}
fn u16b(v: u16, be: bool) -> [u8; 2] {
    if be { v.to_be_bytes() } else { v.to_le_bytes() }
}
fn a_str(p: &mut Vec<u8>, s: &[u8], be: bool, utf8: bool) {
    p.extend_from_slice(&u32b(0x200 | if utf8 { 0x8000 } else { 0 }, be));
    p.extend_from_slice(&u16b((s.len() + 1) as u16, be));
    p.extend_from_slice(s);
    p.push(0);
}
fn a_raw(p: &mut Vec<u8>, s: &[u8], be: bool) {
    p.extend_from_slice(&u32b(0x400, be));
    p.extend_from_slice(&u16b(s.len() as u16, be));
    p.extend_from_slice(s);
}
/// kind: 0x40 uint, 0x20 sint, 0x10 bool, 0x80 float; tyle 1..5
fn a_num(p: &mut Vec<u8>, kind: u32, tyle: u32, v: u64, be: bool) {
    p.extend_from_slice(&u32b(kind | tyle, be));
    let n = match tyle { 1 => 1, 2 => 2, 3 => 4, 4 => 8, 5 => 16, _ => 0 };
    let full = if be { (v as u128).to_be_bytes() } else { (v as u128).to_le_bytes() };
    if be {
        p.extend_from_slice(&full[16 - n..]);
    } else {
        p.extend_from_slice(&full[..n]);
    }
}
const VERB_INFO: u8 = 1 | (0 << 1) | (4 << 4); // verbose log info
const CTRL_REQ: u8 = (3 << 1) | (1 << 4);
const CTRL_RESP: u8 = (3 << 1) | (2 << 4);

fn rand_bytes(rng: &mut Rng, n: usize) -> Vec<u8> {
    (0..n).map(|_| rng.below(256) as u8).collect()
}
fn rand_text(rng: &mut Rng, n: usize) -> Vec<u8> {
    const A: &[u8] = b"abcdefghijklmnopqrstuvwxyzABCDEFGHIJKLMNOPQRSTUVWXYZ0123456789 _-.:/[]()%\xc3\xa9\xe2\x82\xac\xff\x00\n\t";
    (0..n).map(|_| *rng.pick(A)).collect()
}
fn weird_u32(rng: &mut Rng) -> u32 {
    match rng.below(12) {
        0 => 0,
        1 => 1,
        2 => u32::MAX,
        3 => u32::MAX - 1,
        4 => 0x7fff_ffff,
        5 => 0x8000_0000,
        6 => 0xffff,
        7 => 0x1_0000,
        8 => rng.below(70000) as u32,
        _ => rng.next() as u32,
    }
}
fn weird_ti(rng: &mut Rng) -> u32 {
    let base = *rng.pick(&[0x10u32, 0x20, 0x40, 0x80, 0x100, 0x200, 0x400, 0x800, 0x1000, 0x2000, 0x4000, 0]);
    let extra = *rng.pick(&[0u32, 0, 0, 0x800, 0x1000, 0x100, 0x2000, 0x4000, 0x8000, 0x10000, 0x18000, 0x38000]);
    let tyle = rng.below(8) as u32;
    if rng.chance(1, 10) { rng.next() as u32 } else { base | extra | tyle }
}
/// texts with many ways to be split by a pattern like (a|b|ab)* or (\\w\\w?)+ : 10..60 repetitions, both sides of the
/// backtrack limit of fancy_regex (reached from ~15-18 repetitions on), with and without the character that lets it match
fn backtrack_text(rng: &mut Rng) -> String {
    let k = rng.range(10, 60) as usize;
    let mut t = match rng.below(6) { 0 => "ab".repeat(k), 1 => "aB".repeat(k), 2 => "x".repeat(3 * k), 3 => format!("x{}x", "word ".repeat(k)), 4 => "ba".repeat(k), _ => "a".repeat(k) + &"b".repeat(k) };
    match rng.below(5) { 0 => t.push('c'), 1 => t.push('!'), 2 => t.insert(0, ' '), _ => {} }
    t
}
/// the grammar AROUND a recognised text shape: `parts` = (label, usual values); every part may be absent, empty,
/// non-numeric, huge, in other digits, with a changed label, padded or doubled; junk before / behind
fn shape_text(rng: &mut Rng, parts: &[(&str, &[&str])]) -> String {
    let mut s = String::new();
    if rng.chance(1, 10) { s.push_str(*rng.pick(&["x ", " ", "Version: ", "\u{feff}"])); }
    for (label, vals) in parts {
        let usual = *rng.pick(vals);
        match rng.below(16) {
            0 => {}                                                      // absent
            1 => s.push_str(label),                                     // label only
            2 => { s.push_str(label); s.push_str(*rng.pick(&["abc", "x.y", "-", "-1", "€", "1,5", ".", "1.", ".5", "NaN", "inf", "0x10"])); }
            3 => { s.push_str(label); s.push_str(*rng.pick(&["99999999999999999999999999999999", "18446744073709551616", "4294967296", "99999999999999999999.99999999999", "1e400", "000000000000000000000000000001.5"])); }
            4 => { s.push_str(label); s.push_str(*rng.pick(&["٣", "٣.٣", "１２"])); }
            5 => { s.push_str(&label.to_uppercase()); s.push_str(usual); }
            6 => { s.push_str(&label.replace(": ", ":").replace(", ", ",")); s.push_str(usual); }
            7 => { s.push_str(label); s.push(' '); s.push_str(usual); s.push(' '); }
            8 => { s.push_str(label); s.push_str(usual); s.push_str(label); s.push_str(usual); }
            _ => { s.push_str(label); s.push_str(usual); }
        }
    }
    if rng.chance(1, 10) { s.push_str(*rng.pick(&[" trailing", ",", ", git: x", "\n"])); }
    s
}
const MUNIIC_CFG_SHAPE: [(&str, &[&str]); 3] = [("Version: ", &["20.48", "1.2", "0.0"]), (", git: ", &["123", "abc_1", "0"]), (", model hash: ", &["2874425776", "2944352002", "3", "0"])];
const JOUR_SHAPE: [(&str, &[&str]); 4] = [("", &["2024/01/01", "x"]), (" ", &["10:00:00.000000", "y"]), (" ", &["123.456789", "0.0", "99999999999.999999"]), (" ", &["text", "a b c", ""])];
/// every single deviation (absent / empty / non-numeric / huge) of every part of a shape from its usual text
fn shape_deviations(parts: &[(&str, &[&str])]) -> Vec<String> {
    let mut v = vec![parts.iter().map(|(l, vs)| format!("{}{}", l, vs[0])).collect::<String>()];
    for i in 0..parts.len() {
        for dev in 0..4 {
            v.push(parts.iter().enumerate().map(|(j, (l, vs))| if j != i { format!("{}{}", l, vs[0]) } else { match dev { 0 => String::new(), 1 => l.to_string(), 2 => format!("{}x.y", l), _ => format!("{}99999999999999999999999999999999", l) } }).collect::<String>());
        }
    }
    v
}
fn gen_verbose_payload(rng: &mut Rng, be: bool) -> (Vec<u8>, u8) {
    let n = rng.size(6) as usize;
    let mut p = vec![];
    for _ in 0..n {
        match rng.below(9) {
            0 => {
                // one in thirty strings is an ambiguous repetition (10..60 times) on which a backtracking regex engine may give up
                if rng.chance(1, 30) { let t = backtrack_text(rng); a_str(&mut p, t.as_bytes(), be, rng.chance(1, 2)) }
                else { let l = rng.size(40) as usize; a_str(&mut p, &rand_text(rng, l), be, rng.chance(1, 2)) }
            }
            1 => { let l = rng.size(40) as usize; a_raw(&mut p, &rand_bytes(rng, l), be) }
            2 => { let t = rng.range(1, 4) as u32; a_num(&mut p, 0x40, t, rng.next(), be) }
            3 => { let t = rng.range(1, 5) as u32; a_num(&mut p, 0x20, t, rng.next(), be) }
            4 => a_num(&mut p, 0x10, 1, rng.below(3), be),
            5 => { let t = rng.range(2, 4) as u32; let v = *rng.pick(&[0u64, 0x7ff0_0000_0000_0000, 0x7fc0_0000, 0xffff_ffff_ffff_ffff, 0x3ff0_0000_0000_0000, 0x4049_0fdb]); a_num(&mut p, 0x80, t, v, be) }
            6 => {
                // odd type info followed by a few bytes
                p.extend_from_slice(&u32b(weird_ti(rng), be));
                let l = rng.size(12) as usize;
                p.extend_from_slice(&rand_bytes(rng, l));
            }
            7 => {
                // string / raw whose length field lies
                p.extend_from_slice(&u32b(if rng.chance(1, 2) { 0x200 } else { 0x400 }, be));
                p.extend_from_slice(&u16b(weird_u32(rng) as u16, be));
                let l = rng.size(8) as usize;
                p.extend_from_slice(&rand_text(rng, l));
            }
            _ => {
                // variable info: name + unit
                p.extend_from_slice(&u32b(0x40 | 0x800 | 3, be));
                p.extend_from_slice(&u16b(rng.size(5) as u16, be));
                p.extend_from_slice(&u16b(rng.size(5) as u16, be));
                let l = rng.size(14) as usize;
                p.extend_from_slice(&rand_text(rng, l));
            }
        }
    }
    let noar = if rng.chance(1, 8) { rng.below(256) as u8 } else { n as u8 };
    (p, noar)
}
const SERVICE_IDS: [u32; 24] = [0, 1, 2, 3, 4, 5, 0x11, 0x12, 0x13, 0x14, 0x15, 0x17, 0x1f, 0x23, 0xf01, 0xf02, 0xf03, 0xf04, 0xf05, 0xf06, 0xf07, 0xf08, 0xfff, 0xffff_ffff];
fn gen_ctrl_payload(rng: &mut Rng, be: bool, response: bool) -> Vec<u8> {
    let sid = if rng.chance(1, 10) { weird_u32(rng) } else { *rng.pick(&SERVICE_IDS) };
    let mut p = vec![];
    match rng.below(10) {
        0 => { let k = rng.below(4) as usize; return rand_bytes(rng, k) } // shorter than a service id
        _ => p.extend_from_slice(&u32b(sid, be)),
    }
    if !response {
        let l = rng.size(12) as usize;
        p.extend_from_slice(&rand_bytes(rng, l));
        return p;
    }
    let status = *rng.pick(&[0u8, 1, 2, 3, 4, 5, 6, 7, 8, 0xff]);
    if rng.chance(1, 8) {
        return p; // no status byte
    }
    p.push(status);
    match sid {
        3 => {
            // get log info: count apids, per apid: id, count ctids, per ctid: id, level, trace status, [len desc, desc], [len desc, desc]
            let na = if rng.chance(1, 6) { weird_u32(rng) as u16 } else { rng.size(3) as u16 };
            p.extend_from_slice(&u16b(na, be));
            for _ in 0..na.min(3) {
                { let c: [u8; 4] = *rng.pick(&[*b"APID", *b"SYS\0", *b"CAN\0", [0xff, 0, 1, 2]]); p.extend_from_slice(&c); }
                let nc = if rng.chance(1, 6) { weird_u32(rng) as u16 } else { rng.size(3) as u16 };
                p.extend_from_slice(&u16b(nc, be));
                for _ in 0..nc.min(3) {
                    { let c: [u8; 4] = *rng.pick(&[*b"CTID", *b"JOUR", *b"TC\0\0"]); p.extend_from_slice(&c); }
                    p.push(rng.below(8) as u8);
                    p.push(rng.below(3) as u8);
                    if status == 7 || rng.chance(1, 5) {
                        let l = rng.size(10) as u16;
                        p.extend_from_slice(&u16b(if rng.chance(1, 5) { weird_u32(rng) as u16 } else { l }, be));
                        p.extend_from_slice(&rand_text(rng, l as usize));
                    }
                }
                if status == 7 || rng.chance(1, 5) {
                    let l = rng.size(10) as u16;
                    p.extend_from_slice(&u16b(if rng.chance(1, 5) { weird_u32(rng) as u16 } else { l }, be));
                    p.extend_from_slice(&rand_text(rng, l as usize));
                }
            }
            if rng.chance(1, 2) {
                p.extend_from_slice(b"remo");
            }
        }
        0x13 => {
            let l = rng.size(20) as u32;
            p.extend_from_slice(&u32b(if rng.chance(1, 4) { weird_u32(rng) } else { l }, be));
            p.extend_from_slice(&rand_text(rng, l as usize));
        }
        _ => {
            let l = rng.size(16) as usize;
            p.extend_from_slice(&rand_bytes(rng, l));
        }
    }
    if rng.chance(1, 6) {
        let k = rng.below(p.len() as u64 + 1) as usize;
        p.truncate(k);
    }
    p
}

const ECUS: [[u8; 4]; 6] = [*b"ECU1", *b"ECU2", *b"Ecu1", *b"E\0\0\0", [0xff, 0xfe, 0x80, 0x01], *b"CAN1"];

/// lifecycle scenarios of the C05..C08 generator (reboots, suspend/resume shifts, buffering delays, odd timestamps,
/// control requests/responses, non-monotone reception), encoded as storage-framed DLT
fn gen_lcspec(seed: u64, small: bool) -> Vec<u8> {
    let mut rng = Rng::new(seed ^ 0x1C5);
    let ms = vharness::lcgen::gen_general(&mut rng, if small { 14 } else { 300 });
    let mut out = vec![];
    for (i, s) in ms.iter().enumerate() {
        let e = [b'E', b'C', b'0' + (s.ecu / 10) % 10, b'0' + s.ecu % 10];
        let mut m = GM::new(&e, (s.rt / 1_000_000) as u32, (s.rt % 1_000_000) as u32, s.ts_dms);
        m.htyp = 0x20 | if s.has_ts { 0x10 } else { 0 };
        m.mcnt = i as u8;
        match s.kind {
            1 => { m = m.ext(CTRL_REQ, 1, b"APID", b"CTID"); m.payload = vec![0x13, 0, 0, 0]; }
            2 => { m = m.ext(CTRL_RESP, 1, b"APID", b"CTID"); m.payload = vec![0x13, 0, 0, 0, 0]; }
            3 => { m = m.ext(CTRL_RESP | 1, 1, b"APID", b"CTID"); m.payload = vec![0x11, 0, 0, 0, 1]; }
            _ => {}
        }
        m.enc(false, &mut out);
    }
    out
}

/// k-th id: four characters derived from k (base 36), so that thousands of distinct ids are cheap
fn id_of(prefix: u8, k: u64) -> [u8; 4] {
    const A: &[u8; 36] = b"0123456789ABCDEFGHIJKLMNOPQRSTUVWXYZ";
    [prefix, A[(k / 1296 % 36) as usize], A[(k / 36 % 36) as usize], A[(k % 36) as usize]]
}
/// sizes around the capacity-dependent boundaries of the stateful components (3-digit pseudonyms: 999 | 1000)
const HIST_NS: [u64; 9] = [1000, 999, 1001, 1300, 998, 2600, 1002, 300, 1999];
pub const HIST_KINDS: [&str; 10] = ["anon_ctid", "anon_apid", "anon_ecu", "anon_mix", "ft", "someip", "someip_big", "nv", "rewrite", "lc_index"];
/// histories that ACCUMULATE state in the stateful components: the k-th id is derived from k.
/// seed selects the size (HIST_NS[seed % 9]) and minor details.
fn gen_hist(kind: &str, seed: u64) -> Vec<u8> {
    let mut rng = Rng::new(seed ^ 0x4157);
    let n = HIST_NS[(seed % HIST_NS.len() as u64) as usize];
    let mut out = vec![];
    let t_cell = std::cell::Cell::new(1_700_000_000_000_000u64);
    let mut i: u64 = 0;
    // one verbose log message with a one-string payload
    let mut emit = |out: &mut Vec<u8>, ecu: &[u8; 4], vmm: u8, noar: u8, apid: &[u8; 4], ctid: &[u8; 4], payload: Vec<u8>, be: bool, ext: bool| {
        t_cell.set(t_cell.get() + 1000);
        let t_us = t_cell.get();
        let mut m = GM::new(ecu, (t_us / 1_000_000) as u32, (t_us % 1_000_000) as u32, ((t_us - 1_699_999_000_000_000) / 100) as u32);
        m.mcnt = i as u8;
        i += 1;
        if be { m.htyp |= 2; }
        if ext { m = m.ext(vmm, noar, apid, ctid); }
        m.payload = payload;
        m.enc(false, out);
    };
    let text = |be: bool, t: &[u8]| { let mut p = vec![]; a_str(&mut p, t, be, false); p };
    let unum = |p: &mut Vec<u8>, v: u64| a_num(p, 0x40, 3, v, false);
    match kind {
        "anon_ctid" => {
            // one ECU, one APID, n distinct CTIDs; then every id again (table look-ups), some messages without extended header
            for k in 0..n { emit(&mut out, b"ECU1", VERB_INFO, 1, b"APID", &id_of(b'C', k), text(false, b"x"), false, true); }
            for k in 0..n.min(300) { emit(&mut out, b"ECU1", VERB_INFO, 1, b"APID", &id_of(b'C', (k * 7) % n), text(false, b"y"), false, k % 9 != 0); }
        }
        "anon_apid" => {
            for k in 0..n { emit(&mut out, b"ECU1", VERB_INFO, 1, &id_of(b'A', k), b"CTID", text(false, b"x"), false, true); }
            for k in 0..n.min(300) { emit(&mut out, b"ECU1", VERB_INFO, 1, &id_of(b'A', (k * 7) % n), &id_of(b'C', k % 5), text(false, b"y"), false, true); }
        }
        "anon_ecu" => {
            // also: lifecycle detection, statistics and the sort with that many ECUs
            for k in 0..n { emit(&mut out, &id_of(b'E', k), VERB_INFO, 1, b"APID", b"CTID", text(false, b"x"), false, k % 3 != 0); }
            for k in 0..n.min(300) { emit(&mut out, &id_of(b'E', (k * 7) % n), VERB_INFO, 1, b"APID", b"CTID", text(false, b"y"), false, true); }
        }
        "anon_mix" => {
            // many ECUs x APIDs x CTIDs, and one (ECU, APID) that crosses the boundary
            for k in 0..n { emit(&mut out, &id_of(b'E', k % 37), VERB_INFO, 1, &id_of(b'A', k % 31), &id_of(b'C', k % 29), text(k % 2 == 0, b"x"), k % 2 == 0, true); }
            for k in 0..n { emit(&mut out, b"E000", VERB_INFO, 1, b"A000", &id_of(b'D', k), text(false, b"z"), false, true); }
            // control responses (get log info / sw version are rewritten by the plugin)
            for k in 0..20u64 { let mut p = u32b(if k % 2 == 0 { 0x13 } else { 3 }, false).to_vec(); p.extend_from_slice(&[0, 2, 0, 0, 0, b'v', b'1']); emit(&mut out, &id_of(b'E', k), CTRL_RESP, 1, b"APID", b"CTID", p, false, true); }
        }
        "ft" => {
            // (the plugin rebuilds its whole state tree on every change: cost grows with the square of the number of
            // transfers, ~26 s for 1000 in a debug build -- sizes are chosen accordingly, 1000 only in the thorough tier)
            let n = [300u64, 120, 520, 1000][(seed % 4) as usize];
            // n transfers open at the same time: announcement, first package for each, second package / end for some
            let ann = |p: &mut Vec<u8>, serial: u64| {
                a_str(p, b"FLST", false, false); unum(p, serial); a_str(p, format!("f{}.bin", serial).as_bytes(), false, false); unum(p, 16);
                a_str(p, b"date", false, false); unum(p, 2); a_num(p, 0x40, 2, 8, false); a_str(p, b"FLST", false, false);
            };
            for k in 0..n { let mut p = vec![]; ann(&mut p, k); emit(&mut out, b"ECU1", VERB_INFO, 8, b"SYS\0", b"FILE", p, false, true); }
            for pkg in 1..=2u64 {
                for k in 0..n {
                    if pkg == 2 && k % 3 == 0 { continue }
                    let mut p = vec![]; a_str(&mut p, b"FLDA", false, false); unum(&mut p, k); unum(&mut p, pkg); a_raw(&mut p, &[k as u8; 8], false); a_str(&mut p, b"FLDA", false, false);
                    emit(&mut out, b"ECU1", VERB_INFO, 5, b"SYS\0", b"FILE", p, false, true);
                }
            }
            for k in 0..n { if k % 2 == 0 { let mut p = vec![]; a_str(&mut p, b"FLFI", false, false); unum(&mut p, k); a_str(&mut p, b"FLFI", false, false); emit(&mut out, b"ECU1", VERB_INFO, 3, b"SYS\0", b"FILE", p, false, true); } }
        }
        "someip" | "someip_big" => {
            // n segmented messages open at the same time (NWST without NWEN), chunks for all, ends for some
            let big = kind == "someip_big";
            let n = if big { n.min(120) } else { n };
            let (chunk, nr): (u16, u16) = if big { (65_000, 15) } else { (8, 3) };
            let vmm = 1 | (2 << 1) | (1 << 4);
            for k in 0..n {
                let mut p = vec![]; a_str(&mut p, b"NWST", false, false); a_raw(&mut p, &(k as u32).to_le_bytes(), false);
                a_raw(&mut p, &[10, 0, 0, 1, 0, 80, 10, 0, 0, 2, 0, 81][..if k % 2 == 0 { 12 } else { 10 }], false); a_raw(&mut p, &[0; 4], false);
                a_raw(&mut p, &nr.to_le_bytes(), false); a_raw(&mut p, &chunk.to_le_bytes(), false);
                emit(&mut out, b"ECU1", vmm, 6, b"APID", b"TC\0\0", p, false, true);
            }
            for c in 0..2u16 {
                for k in 0..n {
                    let mut p = vec![]; a_str(&mut p, b"NWCH", false, false); a_raw(&mut p, &(k as u32).to_le_bytes(), false); a_raw(&mut p, &c.to_le_bytes(), false);
                    let mut d = vec![0xfau8, 0x62, 0x03, 0xe8, 0, 0, 0, 16, 0, 0, 0, 1, 1, 1, 0, 0];
                    d.truncate(8);
                    a_raw(&mut p, &d, false);
                    emit(&mut out, b"ECU1", vmm, 4, b"APID", b"TC\0\0", p, false, true);
                }
            }
            for k in 0..n { if k % 2 == 1 { let mut p = vec![]; a_str(&mut p, b"NWEN", false, false); a_raw(&mut p, &(k as u32).to_le_bytes(), false); emit(&mut out, b"ECU1", vmm, 2, b"APID", b"TC\0\0", p, false, true); } }
        }
        "nv" => {
            // non verbose: the three frames of the fibex for ECU Ecu1 between n other message ids and n other ECUs
            for k in 0..n {
                let id = match k % 4 { 0 => 805312382u32, 1 => 805834673, 2 => 800000000, _ => k as u32 };
                let mut p = u32b(id, k % 2 == 0).to_vec();
                p.extend_from_slice(&[k as u8; 12]);
                let ecu = if k % 3 == 0 { id_of(b'N', k) } else { *b"Ecu1" };
                emit(&mut out, &ecu, 0x40, 2, &id_of(b'A', k % 50), &id_of(b'C', k % 70), p, k % 2 == 0, k % 5 != 0);
            }
        }
        "rewrite" => {
            for k in 0..n {
                let ts = match k % 50 { 0 => "99999999999.999999".to_string(), 1 => "0.0".to_string(), _ => format!("{}.{:06}", k, (k * 7919) % 1_000_000) };
                let t = format!("2024/01/01 10:00:00.000000 {} text {}", ts, k);
                let mut p = vec![]; a_str(&mut p, t.as_bytes(), false, true);
                emit(&mut out, &id_of(b'E', k % 3), VERB_INFO, 1, b"SYS\0", b"JOUR", p, false, true);
            }
        }
        _ => {
            // "lc_index": more than 100 000 small messages so that the detector's periodic refresh (every 100 000
            // message indices) runs; a reboot of one ECU in the middle
            let total = 100_000 + n * 10;
            for k in 0..total {
                if k == total / 2 { t_cell.set(t_cell.get() + 600_000_000); }
                emit(&mut out, &id_of(b'E', k % 3), 0, 0, b"APID", b"CTID", vec![], false, false);
            }
        }
    }
    let _ = rng.next();
    out
}

/// generated traces; `g` selects the flavour.  Returns the byte stream.
fn gen_dlt(g: &str, seed: u64, small: bool) -> Vec<u8> {
    if g == "lcspec" {
        return gen_lcspec(seed, small);
    }
    if let Some(kind) = g.strip_prefix("hist_") {
        return gen_hist(kind, seed);
    }
    let mut rng = Rng::new(seed ^ 0xC03);
    let mut out = vec![];
    let serial = g == "serial";
    let n = if g == "big" { rng.range(1, 5) } else if small { rng.range(1, 9) } else { rng.range(1, 400) };
    let necu = rng.range(1, 3) as usize;
    let mut secs: u32 = *rng.pick(&[0u32, 1, 1_000_000, 1_700_000_000, 1_700_000_000, u32::MAX - 200]);
    let mut us: u32 = rng.below(1_000_000) as u32;
    let mut up: Vec<u64> = (0..necu).map(|_| rng.below(3) * rng.below(3_000_000)).collect(); // uptime in 0.1 ms
    // file-transfer state
    let mut ft_serial = rng.below(1000) as u32;
    for i in 0..n {
        let e = rng.below(necu as u64) as usize;
        // time advance
        match rng.below(20) {
            0 => { secs = secs.wrapping_add(rng.range(60, 100_000) as u32); up[e] = rng.below(50_000); } // reboot
            1 => { secs = secs.wrapping_sub(rng.range(1, 100) as u32); }                                 // clock goes back
            2 => { secs = secs.wrapping_add(rng.range(11, 100) as u32); up[e] += rng.below(20) * 10_000; } // gap (resume?)
            _ => {
                let d = rng.below(300_000) as u32;
                us += d;
                up[e] += (d / 100) as u64 + rng.below(3);
                if us >= 1_000_000 { us -= 1_000_000; secs = secs.wrapping_add(1); }
            }
        }
        let tmsp = match rng.below(40) {
            0 => 0,
            1 => u32::MAX,
            2 => (secs as u64 * 10_000 + 1 + rng.below(1_000_000)).min(u32::MAX as u64) as u32, // beyond reception time
            3 => rng.next() as u32,
            _ => up[e] as u32,
        };
        let mut m = GM::new(&ECUS[e], secs, if rng.chance(1, 50) { weird_u32(&mut rng) } else { us }, tmsp);
        m.mcnt = i as u8;
        if rng.chance(1, 10) { m.htyp &= !0x10; } // no timestamp
        if rng.chance(1, 10) { m.htyp &= !0x04; } // no ecu in header
        if rng.chance(1, 10) { m.htyp |= 0x08; m.seid = rng.next() as u32; }
        if rng.chance(1, 3) { m.htyp |= 0x02; }
        if rng.chance(1, 30) { m.htyp = rng.below(256) as u8; }
        let be = m.be();
        let flavour = match g {
            "ft" => if rng.chance(3, 4) { 1 } else { 0 },
            "ctrl" => if rng.chance(3, 4) { 2 } else { 0 },
            "nv" => if rng.chance(3, 4) { 3 } else { 0 },
            "someip" => if rng.chance(3, 4) { 4 } else { 0 },
            "can" => if rng.chance(3, 4) { 5 } else { 0 },
            "lc" => if rng.chance(1, 6) { 2 } else { 6 },
            "muniic" => if rng.chance(3, 4) { 7 } else { 0 },
            "plugtext" => if rng.chance(3, 4) { 8 } else { 7 },
            _ => rng.below(9),
        };
        match flavour {
            1 => {
                // file transfer
                let mut p = vec![];
                let kind = rng.below(10);
                let huge = |rng: &mut Rng| -> u64 { if rng.chance(1, 3) { *rng.pick(&[0u64, 1, u32::MAX as u64, u64::MAX, 1 << 40, 0x7fff_ffff_ffff_ffff, 65536, 3]) } else { rng.range(1, 5) } };
                let unum = |p: &mut Vec<u8>, rng: &mut Rng, v: u64| { let t = if v > u32::MAX as u64 || rng.chance(1, 6) { 4 } else { 3 }; a_num(p, if rng.chance(1, 10) { 0x20 } else { 0x40 }, t, v, be) };
                let noar;
                if kind < 3 {
                    a_str(&mut p, b"FLST", be, false);
                    unum(&mut p, &mut rng, ft_serial as u64);
                    let name = *rng.pick(&[&b"test_file.bin"[..], b"../../etc/passwd", b"", b"a\xffb", b"/abs/path"]);
                    a_str(&mut p, name, be, false);
                    let v = huge(&mut rng); unum(&mut p, &mut rng, v);
                    a_str(&mut p, b"2024-01-01", be, false);
                    let v = huge(&mut rng); unum(&mut p, &mut rng, v);
                    let v = huge(&mut rng); a_num(&mut p, 0x40, if v > 65535 { 3 } else { 2 }, v, be);
                    a_str(&mut p, b"FLST", be, false);
                    noar = 8;
                } else if kind < 8 {
                    a_str(&mut p, b"FLDA", be, false);
                    unum(&mut p, &mut rng, ft_serial as u64);
                    let v = if rng.chance(1, 4) { huge(&mut rng) } else { rng.range(0, 4) };
                    unum(&mut p, &mut rng, v);
                    let l = rng.size(64) as usize;
                    a_raw(&mut p, &rand_bytes(&mut rng, l), be);
                    a_str(&mut p, b"FLDA", be, false);
                    noar = 5;
                } else if kind == 8 {
                    a_str(&mut p, b"FLFI", be, false);
                    unum(&mut p, &mut rng, ft_serial as u64);
                    a_str(&mut p, b"FLFI", be, false);
                    noar = 3;
                    if rng.chance(1, 2) { ft_serial = ft_serial.wrapping_add(1); }
                } else {
                    a_str(&mut p, b"FLER", be, false);
                    a_num(&mut p, 0x20, 3, rng.next(), be);
                    a_str(&mut p, b"FLER", be, false);
                    noar = 3;
                }
                if rng.chance(1, 10) { let k = rng.below(p.len() as u64 + 1) as usize; p.truncate(k); }
                m = m.ext(VERB_INFO, noar, b"SYS\0", b"FILE");
                m.payload = p;
            }
            2 => {
                let response = rng.chance(2, 3);
                let verbose = rng.chance(1, 6);
                m = m.ext((if response { CTRL_RESP } else { CTRL_REQ }) | verbose as u8, rng.below(3) as u8, b"APID", b"CTID");
                m.payload = if verbose { gen_verbose_payload(&mut rng, be).0 } else { gen_ctrl_payload(&mut rng, be, response) };
            }
            3 => {
                // non verbose with ids of /repo/tests/non_verbose*.xml
                let id = *rng.pick(&[805312382u32, 805834673, 800000000, 0, 1, u32::MAX]);
                let mut p = u32b(id, be).to_vec();
                let l = rng.size(24) as usize;
                p.extend_from_slice(&rand_bytes(&mut rng, l));
                if rng.chance(1, 8) { p.truncate(rng.below(4) as usize); }
                m.secu = *b"Ecu1"; m.hecu = *b"Ecu1";
                if rng.chance(1, 2) { m = m.ext(rng.below(8) as u8 * 16, rng.below(3) as u8, b"APID", b"CTID"); m.ext.as_mut().unwrap().0 &= !1; }
                m.payload = p;
            }
            4 => {
                // SOME/IP: nw trace IPC, two raw args (ip/instance 9..10 bytes + someip header/payload) or segmented NWST/NWCH/NWEN
                let mut p = vec![];
                let mut noar = 2;
                if rng.chance(1, 4) {
                    let t = *rng.pick(&[&b"NWST"[..], b"NWCH", b"NWEN"]);
                    a_str(&mut p, t, be, false);
                    a_num(&mut p, 0x40, 3, rng.below(4), be);
                    if t == b"NWST" {
                        let l = rng.size(12) as usize;
                        a_raw(&mut p, &rand_bytes(&mut rng, l), be);
                        a_num(&mut p, 0x40, 3, weird_u32(&mut rng) as u64, be);
                        a_num(&mut p, 0x40, 2, weird_u32(&mut rng) as u64 & 0xffff, be);
                        a_num(&mut p, 0x40, 2, weird_u32(&mut rng) as u64 & 0xffff, be);
                        noar = 6;
                    } else if t == b"NWCH" {
                        a_num(&mut p, 0x40, 2, weird_u32(&mut rng) as u64 & 0xffff, be);
                        let l = rng.size(40) as usize;
                        a_raw(&mut p, &rand_bytes(&mut rng, l), be);
                        noar = 4;
                    }
                } else {
                    let l0 = *rng.pick(&[9usize, 10, 12, 0, 8, 11]);
                    a_raw(&mut p, &rand_bytes(&mut rng, l0), be);
                    let mut h = vec![];
                    h.extend_from_slice(&(if rng.chance(2, 3) { 64098u16 } else { rng.next() as u16 }).to_be_bytes());
                    h.extend_from_slice(&(if rng.chance(2, 3) { 1000u16 } else { rng.next() as u16 }).to_be_bytes());
                    h.extend_from_slice(&weird_u32(&mut rng).to_be_bytes()); // length
                    h.extend_from_slice(&(rng.next() as u32).to_be_bytes()); // client/session
                    h.extend_from_slice(&[1, 1, *rng.pick(&[0u8, 1, 2, 0x80, 0x81, 0x20, 0xff]), rng.below(3) as u8]);
                    let l = rng.size(32) as usize;
                    h.extend_from_slice(&rand_bytes(&mut rng, l));
                    if rng.chance(1, 5) { let k = rng.below(h.len() as u64 + 1) as usize; h.truncate(k); }
                    a_raw(&mut p, &h, be);
                }
                m = m.ext(1 | (2 << 1) | (1 << 4), noar, b"APID", b"TC\0\0");
                m.payload = p;
            }
            5 => {
                // CAN as the asc converter encodes it: non verbose nw trace CAN, frame id + data
                let mut p = u32b(*rng.pick(&[0x36fu32, 0, 1, 0x1fff_ffff, u32::MAX]), be).to_vec();
                let l = rng.size(64) as usize;
                p.extend_from_slice(&rand_bytes(&mut rng, l));
                m = m.ext((2 << 1) | (2 << 4), 2, b"CAN\0", b"TC\0\0");
                m.payload = p;
            }
            6 => {
                let (p, noar) = gen_verbose_payload(&mut rng, be);
                let lvl = rng.range(0, 7) as u8;
                let apid = *rng.pick(&[*b"APID", *b"SYS\0", *b"LOG\0", [0xc3, 0xa9, 0, 0]]);
                let ctid = *rng.pick(&[*b"CTID", *b"JOUR", *b"FILE"]);
                m = m.ext(1 | (lvl << 4), noar, &apid, &ctid);
                if apid == *b"SYS\0" && ctid == *b"JOUR" && rng.chance(1, 2) {
                    let mut p = vec![];
                    let t = format!("2024/01/01 10:00:00.000000 {}.{:06} text {}", rng.below(100000), rng.below(1000000), i);
                    a_str(&mut p, t.as_bytes(), be, true);
                    m.ext.as_mut().unwrap().1 = 1;
                    m.payload = p;
                } else {
                    m.payload = p;
                }
            }
            8 => {
                // text-driven plugins: the grammar around every text shape they recognise -- Muniic config messages (ctid
                // MDLT: "Version: <d.d>, git: <w>, model hash: <d>") and the SYS/JOUR text of the rewrite configuration
                let (apid, ctid, text) = if rng.chance(2, 3) { (*b"MUNI", *b"MDLT", shape_text(&mut rng, &MUNIIC_CFG_SHAPE)) } else { (*b"SYS\0", *b"JOUR", shape_text(&mut rng, &JOUR_SHAPE)) };
                let mut p = vec![];
                a_str(&mut p, text.as_bytes(), be, rng.chance(3, 4));
                let mut noar = 1u8;
                if rng.chance(1, 8) { a_num(&mut p, 0x40, 3, rng.next(), be); noar = 2; }
                if rng.chance(1, 12) { let k = rng.below(p.len() as u64 + 1) as usize; p.truncate(k); }
                m = m.ext(if rng.chance(9, 10) { VERB_INFO } else { 0x40 }, noar, &apid, &ctid);
                m.payload = p;
            }
            7 => {
                // muniic: verbose, ctid MMSG, 13 arguments: #7 interface id, #8 message id, #12 payload (ids of /repo/tests/muniic/min.json)
                let mut p = vec![];
                for k in 0..13 {
                    match k {
                        7 => a_num(&mut p, 0x40, 3, if rng.chance(5, 6) { 1228779599 } else { weird_u32(&mut rng) as u64 }, be),
                        8 => a_num(&mut p, 0x40, 3, *rng.pick(&[3478824001u64, 3478824001, 0, 1, u32::MAX as u64]), be),
                        12 => { let l = rng.size(16) as usize; a_raw(&mut p, &rand_bytes(&mut rng, l), be) }
                        _ => match rng.below(3) { 0 => a_num(&mut p, 0x40, 3, rng.next(), be), 1 => a_str(&mut p, b"x", be, false), _ => a_num(&mut p, 0x10, 1, 1, be) },
                    }
                }
                if rng.chance(1, 8) { let k = rng.below(p.len() as u64 + 1) as usize; p.truncate(k); }
                m = m.ext(VERB_INFO, if rng.chance(7, 8) { 13 } else { rng.below(20) as u8 }, b"MUNI", b"MMSG");
                m.payload = p;
            }
            _ => {
                if rng.chance(1, 2) {
                    let l = rng.size(30) as usize;
                    m.payload = rand_bytes(&mut rng, l);
                }
            }
        }
        if g == "big" {
            // payloads close to (or beyond) what the 16 bit length field can describe
            let l = *rng.pick(&[30_000usize, 60_000, 65_000, 65_490, 65_500, 65_510, 65_520, 70_000]);
            let mut p = vec![];
            let (vmm, noar) = match rng.below(6) {
                0 => { p.extend_from_slice(&u32b(0x200 | 0x8000, be)); p.extend_from_slice(&u16b(l as u16, be)); p.extend_from_slice(&rand_text(&mut rng, l)); (VERB_INFO, 1) }
                1 => { p.extend_from_slice(&u32b(0x400, be)); p.extend_from_slice(&u16b(l as u16, be)); p.extend_from_slice(&rand_bytes(&mut rng, l)); (VERB_INFO, 1) }
                2 => { p.extend_from_slice(&u32b(805312382, be)); p.extend_from_slice(&rand_bytes(&mut rng, l)); (0x40, 2) }
                3 => { for _ in 0..l / 5 { a_num(&mut p, 0x40, 1, rng.below(256), be); } (VERB_INFO, 255) }
                4 => {
                    p.extend_from_slice(&u32b(3, be));
                    p.push(7);
                    p.extend_from_slice(&u16b((l / 20) as u16, be));
                    for k in 0..l / 20 {
                        p.extend_from_slice(&[b'A', b'0' + (k % 10) as u8, b'0' + (k / 10 % 10) as u8, b'0' + (k / 100 % 10) as u8]);
                        p.extend_from_slice(&u16b(1, be));
                        p.extend_from_slice(b"CTXT");
                        p.extend_from_slice(&[4, 1]);
                        p.extend_from_slice(&u16b(2, be));
                        p.extend_from_slice(b"cd");
                        p.extend_from_slice(&u16b(2, be));
                        p.extend_from_slice(b"ad");
                    }
                    (CTRL_RESP, 1)
                }
                _ => { p.extend_from_slice(&u32b(0x13, be)); p.push(0); p.extend_from_slice(&u32b(l as u32, be)); p.extend_from_slice(&rand_text(&mut rng, l)); (CTRL_RESP, 1) }
            };
            m = m.ext(vmm, noar, b"APID", b"CTID");
            m.payload = p;
            if vmm == 0x40 {
                // non verbose for the fibex of /repo/tests: its ECU, with or without an extended header (the plugin adds one)
                m.secu = *b"Ecu1";
                m.hecu = *b"Ecu1";
                if rng.chance(1, 2) { m.ext = None; m.htyp &= !1; }
                if rng.chance(1, 2) { m.htyp &= !0x04; }
            }
        }
        if rng.chance(1, 60) { m.len_delta = *rng.pick(&[-1i32, 1, -4, 100, -100, 65535]); }
        if !serial && rng.chance(1, 40) { let l = rng.size(20) as usize; out.extend_from_slice(&rand_bytes(&mut rng, l)); }
        m.enc(serial, &mut out);
    }
    out
}

// ================================================================= mutations
#[derive(Clone, Copy, Debug)]
struct Loc { start: usize, std: usize, htyp: u8, len: usize, hdr: usize, tmsp: Option<usize>, ext: Option<usize>, payload: usize, end: usize }
/// storage-framed messages of a byte stream (best effort walker, used to aim the field mutations)
fn walk(b: &[u8]) -> Vec<Loc> {
    let mut v = vec![];
    let mut i = 0;
    while i + 8 <= b.len() {
        let base = if &b[i..i + 4] == b"DLT\x01" { 16 } else if &b[i..i + 4] == b"DLS\x01" { 4 } else { 0 };
        if base == 0 || i + base + 4 > b.len() {
            i += 1;
            continue;
        }
        let htyp = b[i + base];
        let len = u16::from_be_bytes([b[i + base + 2], b[i + base + 3]]) as usize;
        let mut hdr = 4;
        if htyp & 4 != 0 { hdr += 4 }
        if htyp & 8 != 0 { hdr += 4 }
        let tmsp = if htyp & 0x10 != 0 { hdr += 4; Some(i + base + hdr - 4) } else { None };
        let ext = if htyp & 1 != 0 { hdr += 10; Some(i + base + hdr - 10) } else { None };
        if len < hdr || i + base + len > b.len() {
            i += 1;
            continue;
        }
        v.push(Loc { start: i, std: i + base, htyp, len, hdr, tmsp, ext, payload: i + base + hdr, end: i + base + len });
        i += base + len;
    }
    v
}
fn put(b: &mut [u8], at: usize, v: &[u8]) {
    for (k, x) in v.iter().enumerate() {
        if at + k < b.len() {
            b[at + k] = *x;
        }
    }
}
fn mutate_fields(b: &mut Vec<u8>, rng: &mut Rng, what: u64) {
    let locs = walk(b);
    if locs.is_empty() {
        return;
    }
    let k = rng.range(1, 4);
    for _ in 0..k {
        // prefer messages with extended header / payload for the payload-directed kinds
        let mut l = *rng.pick(&locs);
        for _ in 0..8 {
            if (what >= 4 && what <= 7 && l.ext.is_none()) || (what >= 6 && what <= 8 && l.end == l.payload) { l = *rng.pick(&locs); } else { break }
        }
        let be = l.htyp & 2 != 0;
        let (rb, rn, r16) = (rng.below(256) as u8, rng.next() as u32, rng.below(65536) as usize);
        match what {
            0 => {
                let cands = [0usize, 1, 3, 4, l.hdr.saturating_sub(1), l.hdr, l.hdr + 1, l.len.saturating_sub(1), l.len + 1, 0xffff, r16];
                let v = *rng.pick(&cands) as u16;
                put(b, l.std + 2, &v.to_be_bytes());
            }
            1 => {
                if let Some(t) = l.tmsp {
                    let secs = if l.std == l.start + 16 { u32::from_le_bytes([b[l.start + 4], b[l.start + 5], b[l.start + 6], b[l.start + 7]]) as u64 } else { 0 };
                    let v = match rng.below(6) { 0 => 0, 1 => 1, 2 => u32::MAX, 3 => u32::MAX - 1, 4 => (secs * 10_000 + rng.below(100_000) + 1).min(u32::MAX as u64) as u32, _ => rng.next() as u32 };
                    put(b, t, &v.to_be_bytes());
                }
            }
            2 if l.std == l.start + 16 => {
                if rng.chance(1, 2) {
                    let v = *rng.pick(&[0u32, 1, 59, 61, u32::MAX, 0x7fff_ffff, 0x8000_0000, rn]);
                    put(b, l.start + 4, &v.to_le_bytes());
                } else {
                    let v = *rng.pick(&[0u32, 999_999, 1_000_000, u32::MAX, 0x8000_0000, 0x7fff_ffff, rn]);
                    put(b, l.start + 8, &v.to_le_bytes());
                }
            }
            3 => {
                let v = if rng.chance(1, 2) { l.htyp ^ (1 << rng.below(8)) } else { rng.below(256) as u8 };
                b[l.std] = v;
            }
            4 => {
                if let Some(e) = l.ext {
                    b[e] = *rng.pick(&[CTRL_REQ, CTRL_RESP, CTRL_RESP | 1, CTRL_REQ | 1, VERB_INFO, 0, 0xff, (2 << 1) | (2 << 4), 1 | (2 << 1) | (1 << 4), rb]);
                }
            }
            5 => {
                if let Some(e) = l.ext {
                    b[e + 1] = *rng.pick(&[0u8, 1, 2, 3, 5, 8, 255, rb]);
                }
            }
            6 => {
                // first word of the payload: service id / message id / first type info
                let v = match rng.below(4) { 0 => *rng.pick(&SERVICE_IDS), 1 => weird_ti(rng), 2 => weird_u32(rng), _ => *rng.pick(&[805312382u32, 805834673, 800000000]) };
                put(b, l.payload, &u32b(v, be));
                if rng.chance(1, 2) {
                    if let Some(e) = l.ext { b[e] = *rng.pick(&[CTRL_RESP, CTRL_REQ, CTRL_RESP | 1, 0x40]); }
                }
            }
            7 => {
                // a type-info word or a length field somewhere in the payload
                let n = l.end - l.payload;
                if n >= 2 {
                    let at = l.payload + rng.below(n as u64 - 1) as usize;
                    if rng.chance(1, 2) { put(b, at, &u32b(weird_ti(rng), be)); } else { put(b, at, &u16b(*rng.pick(&[0u16, 1, 0xffff, 0x8000, 0x7fff, 2]), be)); }
                }
            }
            8 => {
                // cut the payload (with or without adapting the length field)
                let n = l.end - l.payload;
                if n > 0 {
                    let cut = rng.range(1, n as u64) as usize;
                    b.drain(l.end - cut..l.end);
                    if rng.chance(2, 3) { put(b, l.std + 2, &((l.len - cut) as u16).to_be_bytes()); }
                    return; // locations are stale now
                }
            }
            9 => {
                let v = *rng.pick(&[[0u8, 0, 0, 0], [0xff, 0xff, 0xff, 0xff], [0xc3, 0xa9, 0xc3, 0xa9], *b"ECU1", *b"Ecu1", [b'E', 0, b'X', 0]]);
                if l.std == l.start + 16 { put(b, l.start + 12, &v); }
                if l.htyp & 4 != 0 { put(b, l.std + 4, &v); }
            }
            _ => {
                // reorder: move / duplicate a message
                let m = b[l.start..l.end].to_vec();
                let at = rng.pick(&locs).start;
                if rng.chance(1, 2) { b.splice(at..at, m); } else { let l2 = *rng.pick(&locs); let m2 = b[l2.start..l2.end].to_vec(); if m2.len() == m.len() { put(b, l.start, &m2); put(b, l2.start, &m); } else { b.splice(at..at, m); } }
                return;
            }
        }
    }
}
const N_FIELD_KINDS: u64 = 11;

fn mutate(b: &mut Vec<u8>, kind: &str, seed: u64, text: bool) {
    let mut rng = Rng::new(seed ^ 0x4d55);
    match kind {
        "none" => {}
        "flip" => {
            if b.is_empty() { return }
            let n = rng.range(1, 16);
            for _ in 0..n {
                let i = rng.below(b.len() as u64) as usize;
                b[i] ^= 1 << rng.below(8);
            }
        }
        "bytes" => {
            if b.is_empty() { return }
            let n = rng.range(1, 8);
            for _ in 0..n {
                let i = rng.below(b.len() as u64) as usize;
                b[i] = *rng.pick(&[0u8, 0xff, 0x7f, 0x80, b'\n', b' ', b'9', b'-', 1]);
            }
        }
        "trunc" => {
            let k = if rng.chance(1, 3) { b.len().saturating_sub(rng.range(1, 24) as usize) } else { rng.below(b.len() as u64 + 1) as usize };
            b.truncate(k);
        }
        "splice" => {
            let n = b.len() as u64;
            if n < 2 { return }
            match rng.below(5) {
                0 => { let a = rng.below(n) as usize; let c = (a + rng.range(1, 300) as usize).min(b.len()); b.drain(a..c); }                // delete
                1 => { let a = rng.below(n) as usize; let c = (a + rng.range(1, 300) as usize).min(b.len()); let ch = b[a..c].to_vec(); let at = rng.below(n) as usize; b.splice(at..at, ch); } // duplicate elsewhere
                2 => { let at = rng.below(n) as usize; let l = rng.range(1, 64) as usize; let ch = rand_bytes(&mut rng, l); b.splice(at..at, ch); }   // insert noise
                3 => { let a = rng.below(n) as usize; let c = rng.below(n) as usize; let mut r = b[..a].to_vec(); r.extend_from_slice(&b[c..]); *b = r; } // prefix + suffix
                _ => { let a = rng.below(n) as usize; let marker: &[u8] = if text { b"\n" } else if rng.chance(1, 2) { b"DLT\x01" } else { b"DLS\x01" }; b.splice(a..a, marker.iter().copied()); }
            }
        }
        "uni" => {
            // text: ASCII digits -> other scripts' digits, blanks -> other white space, some letters -> multi-byte
            let s = String::from_utf8_lossy(b).to_string();
            let mut o = String::with_capacity(s.len() + 64);
            let rate = rng.range(20, 400);
            for c in s.chars() {
                if c.is_ascii_digit() && rng.chance(1, rate) {
                    o.push(char::from_u32(*rng.pick(&[0x0660u32, 0x0966, 0xff10, 0x1d7ce]) + c as u32 - '0' as u32).unwrap());
                } else if c == ' ' && rng.chance(1, rate) {
                    o.push(*rng.pick(&['\u{a0}', '\u{2003}', '\u{3000}', '\t', '\u{85}']));
                } else if c.is_ascii_alphabetic() && rng.chance(1, rate * 2) {
                    o.push(*rng.pick(&['é', '€', 'ß', '𝒳', 'İ']));
                } else {
                    o.push(c);
                }
            }
            *b = o.into_bytes();
        }
        "longline" => {
            // join lines / blow one field up
            let n = b.len() as u64;
            if n == 0 { return }
            let at = rng.below(n) as usize;
            let l = *rng.pick(&[300usize, 5000, 65500, 66000, 70000, 140000]);
            let c = *rng.pick(&[b'a', b'9', b' ', b'f', b'_', b'Z']);
            b.splice(at..at, std::iter::repeat(c).take(l));
        }
        k if k.starts_with("field") => {
            let what: u64 = k[5..].parse().unwrap_or(0);
            mutate_fields(b, &mut rng, what);
        }
        _ => {}
    }
}

// ================================================================= grammar-based text files
fn num_variants(rng: &mut Rng, normal: &str) -> String {
    match rng.below(14) {
        0 => "0".into(),
        1 => "".into(),
        2 => "99999999999999999999999".into(),
        3 => "18446744073709551615".into(),
        4 => "9223372036854775807".into(),
        5 => "4294967296".into(),
        6 => "65536".into(),
        7 => "256".into(),
        8 => "-1".into(),
        9 => format!("{}", rng.next()),
        _ => normal.to_string(),
    }
}
fn gen_asc(seed: u64, small: bool) -> Vec<u8> {
    let mut rng = Rng::new(seed ^ 0xA5C);
    let mut s = String::new();
    let years = ["2022", "2022", "2022", "1970", "1969", "1960", "0001", "9999", "20000", "262143", "0"];
    let n = if small { rng.range(1, 8) } else { rng.range(1, 300) };
    let mut t: f64 = if rng.chance(1, 4) { -3.0 } else { 0.0 };
    if rng.chance(5, 6) {
        s += &format!("date Tue Apr 12 {:02}:{:02}:{:02}{} {} {}\n", rng.range(0, 13), rng.range(0, 60), rng.range(0, 60), rng.pick(&["", ".123", ".999999"]), rng.pick(&["AM", "PM", "am", "pm"]), rng.pick(&years));
    }
    s += "base hex  timestamps absolute\n";
    for i in 0..n {
        t += rng.below(100_000) as f64 / 1e6;
        let ts = match rng.below(25) {
            0 => "99999999999999.000000".to_string(),
            1 => "9223372036855.000000".to_string(),
            2 => "-9223372036855.000000".to_string(),
            3 => "429496.729600".to_string(),
            4 => "18446744073709.551615".to_string(),
            5 => format!("{}.{:06}", rng.next() % 100_000_000_000_000, rng.below(1_000_000)),
            6 => format!("-{:.6}", t.abs() + 1.0),
            _ => format!("{:.6}", t),
        };
        let chan = if rng.chance(1, 8) { num_variants(&mut rng, "1") } else { format!("{}", rng.range(1, 3)) };
        let id = match rng.below(10) { 0 => "1fffffffx".to_string(), 1 => "ffffffffff".to_string(), 2 => "x".to_string(), 3 => "0".to_string(), _ => format!("{:x}", rng.below(0x800)) };
        let dlc_n = match rng.below(14) { 0 => 0usize, 1 => 64, 2 => 255, 3 => 65535, 4 => 21845, 5 => 21850, _ => rng.range(0, 8) as usize };
        let real_n = if rng.chance(1, 8) { rng.size(12) as usize } else if dlc_n > 64 && rng.chance(2, 3) { 8 } else { dlc_n };
        let mut data = String::new();
        for _ in 0..real_n {
            data += &format!("{:02x} ", rng.below(256));
        }
        if rng.chance(1, 15) { data = data.replace(' ', *rng.pick(&["\u{a0}", "  ", "€"])); }
        let dlc = if rng.chance(1, 12) { num_variants(&mut rng, "8") } else { format!("{}", dlc_n) };
        match rng.below(12) {
            0 => s += &format!("// BusMapping: CAN {} = {}\n", chan, rng.pick(&["PT-CAN", "", "é", " a = b = c", "0123456789012345678901234567890123456789"])),
            1 => s += &format!("// BusMapping: CANFD{}= x\n", rng.pick(&[" 1 ", "", " 300 ", "  "])),
            2 => s += &format!("   {} CANFD {:>3} {} {:>8}  {} {} {:x} {:>2} {} {:>8} {:>4} {:>8x} {:>8x} {:>8x} {:>8x} {:>8x}\n", ts, chan, rng.pick(&["Rx", "Tx"]), id, rng.below(2), rng.below(2), dlc_n.min(15), dlc, data, 130000, 130, 0x303000, 0x30005, 0x2000, 0x2000, 0),
            3 => s += &format!("   {} CANFD {:>3} Rx ErrorFrame {}\n", ts, chan, rng.pick(&["", "  0 0 0", "Not Acknowledge error"])),
            4 => s += &format!("{} {}\n", ts, rng.pick(&["Start of measurement", "CAN 1 Status:chip status error active", "1  Statistic: D 0 R 0 XD 0 XR 0 E 0 O 0 B 0.00%", "  "])),
            5 => s += &format!("{}{} {} {} {} d {}{}\n", rng.pick(&["", " ", "\t", "\u{a0}"]), ts, chan, id, rng.pick(&["Rx", "Tx"]), dlc, rng.pick(&["", " ", "€€€€", " zz yy", "\u{a0}12\u{a0}34"])),
            _ => s += &format!("   {} {}  {}             {}   d {} {} Length = {} BitCount = {} ID = {}\n", ts, chan, id, rng.pick(&["Rx", "Tx"]), dlc, data, rng.below(300000), rng.below(150), i),
        }
        if rng.chance(1, 40) {
            if rng.chance(1, 2) { s += &format!("date Wed May 25 03:07:31.{} pm {}\n", rng.below(1000), rng.pick(&years)); }
            else { let y = *rng.pick(&[2022i32, 1970, 1969, 1960, 1, 9999, 2038, 2262, 2263]); s += &format!("{}\n", asc_date(&mut rng, y)); }
        }
    }
    s.into_bytes()
}
fn tag_variants(rng: &mut Rng) -> String {
    match rng.below(22) {
        0 => "".into(),
        1 => " ".into(),
        2 => "é".into(),
        3 => "éé".into(),
        4 => "ää".into(),
        5 => "€".into(),
        6 => "€x".into(),
        7 => "a_b_c_d_e".into(),
        8 => "_____".into(),
        9 => "snake_case_é_tag".into(),
        10 => "CamelCaseTagNameİ".into(),
        11 => "ALLUPPERCASE".into(),
        12 => "alllowercase".into(),
        13 => "x".repeat(*rng.pick(&[5usize, 100, 3000])),
        14 => format!("T{}", rng.below(40)),
        15 => format!("Tag{}", rng.below(400)),
        16 => format!("tag_nr_{}", rng.below(400)),
        17 => "a: b".into(),
        18 => "] [".into(),
        _ => rng.pick(&["ActivityManager", "chatty", "Zygote", "SYS", "Tag1", "Tag2"]).to_string(),
    }
}
fn gen_logcat(seed: u64, small: bool) -> Vec<u8> {
    let mut rng = Rng::new(seed ^ 0x10C);
    let mut s = String::new();
    let n = if small { rng.range(1, 8) } else { rng.range(1, 300) };
    let mode = rng.below(3); // 0 monotonic, 1 threadtime, 2 mixed
    let mut mono: u64 = rng.below(100_000_000);
    let (mut mon, mut day, mut sec) = (*rng.pick(&[1u32, 1, 2, 3, 12]), rng.range(1, 28) as u32, rng.below(86_400) as u32);
    for _ in 0..n {
        mono += rng.below(2_000_000);
        sec += rng.below(3) as u32;
        if sec >= 86_400 { sec = 0; day += 1; }
        if rng.chance(1, 50) { mon = *rng.pick(&[1u32, 2, 3, 11, 12, 0, 13]); day = *rng.pick(&[1u32, 28, 29, 30, 31, 0, 32]); }
        let lvl = *rng.pick(&["I", "W", "E", "V", "F", "S", "D", "x", "Z"]);
        let tag = tag_variants(&mut rng);
        let msg = match rng.below(48) { 0..=5 => "".to_string(), 6..=11 => "x".repeat(5000), 12..=17 => "msg: with: colons".to_string(), 18..=23 => "ünïcödé €".to_string(), 24 => backtrack_text(&mut rng), _ => format!("message {}", rng.below(1000)) };
        let pid = if rng.chance(1, 10) { num_variants(&mut rng, "1234") } else { format!("{}", rng.below(32768)) };
        let use_mono = mode == 0 || (mode == 2 && rng.chance(1, 2));
        if use_mono {
            let ts = match rng.below(20) {
                0 => "99999999999999.000".to_string(),
                1 => "18446744073709.000".to_string(),
                2 => "18446744073709.551615".to_string(),
                3 => "18446744073708.999999999999".to_string(),
                4 => format!("{}.{}", mono / 1_000_000, rng.below(10)),
                5 => format!("{}.{:09}", mono / 1_000_000, rng.below(1_000_000_000)),
                6 => "0.0".to_string(),
                7 => "429496.730".to_string(),
                _ => format!("{}.{:03}", mono / 1_000_000, (mono / 1000) % 1000),
            };
            s += &format!("{}{}{}{} {:>5} {} {}{}: {}\n", rng.pick(&["", " ", "    ", "\u{2003}"]), ts, rng.pick(&[" ", "  ", "\u{a0}", "\t"]), pid, rng.below(32768), lvl, tag, rng.pick(&["", " ", "   "]), msg);
        } else {
            let ms = match rng.below(10) { 0 => "1".to_string(), 1 => "123456".to_string(), 2 => "12".to_string(), _ => format!("{:03}", rng.below(1000)) };
            let (h, mi, se) = if rng.chance(1, 20) { (*rng.pick(&[24u32, 25, 99]), *rng.pick(&[60u32, 61, 99]), *rng.pick(&[60u32, 61, 99])) } else { (sec / 3600, (sec / 60) % 60, sec % 60) };
            s += &format!("{:02}-{:02} {:02}:{:02}:{:02}.{}{}{} {:>5} {} {}{}: {}\n", mon, day, h, mi, se, ms, rng.pick(&[" ", "  ", "\u{a0}"]), pid, rng.below(32768), lvl, tag, rng.pick(&["", " "]), msg);
        }
        if rng.chance(1, 30) { s += *rng.pick(&["--------- beginning of main\n", "\n", ": \n", "1.0 1 1 I : \n"]); }
    }
    s.into_bytes()
}
fn gen_genlog(seed: u64, small: bool) -> Vec<u8> {
    let mut rng = Rng::new(seed ^ 0x6E1);
    let mut s = String::new();
    let n = if small { rng.range(1, 8) } else { rng.range(1, 300) };
    let mut sec: u64 = rng.below(86_400);
    let mut year = *rng.pick(&[2024u32, 2024, 2000, 2999, 2038, 2262, 2263]);
    for _ in 0..n {
        sec += rng.below(3);
        if rng.chance(1, 40) { year = *rng.pick(&[2000u32, 2999, 2024, 2023, 2262, 2584]); sec = rng.below(86_400); }
        let (mo, d) = if rng.chance(1, 15) { (*rng.pick(&[0u32, 13, 2, 99]), *rng.pick(&[0u32, 30, 31, 32, 99])) } else { (rng.range(1, 12) as u32, rng.range(1, 28) as u32) };
        let (h, mi, se) = if rng.chance(1, 20) { (*rng.pick(&[24u32, 99]), *rng.pick(&[60u32, 99]), *rng.pick(&[60u32, 61, 99])) } else { ((sec / 3600 % 24) as u32, (sec / 60 % 60) as u32, (sec % 60) as u32) };
        let lvl = *rng.pick(&["INF", "WRN", "ERR", "VER", "FAT", "SEV", "DBG", "xyz", "€€€", "é  ", "  "]);
        let tag = tag_variants(&mut rng);
        let msg = match rng.below(48) { 0..=5 => "".to_string(), 6..=11 => "y".repeat(4000), 12..=17 => "[a] [b] [c]".to_string(), 18..=23 => "ünïcödé €".to_string(), 24 => backtrack_text(&mut rng), _ => format!("message {}", rng.below(1000)) };
        s += &format!("[{:04}-{:02}-{:02} {:02}:{:02}:{:02}.{:03}] [{}] [{}] {}\n", year, mo, d, h, mi, se, rng.below(1000), lvl, tag, msg);
        if rng.chance(1, 30) { s += *rng.pick(&["continuation line without header\n", "\n", "[] [] [] \n", "[2024-01-01 00:00:00.000] [INF] [] \n"]); }
    }
    s.into_bytes()
}

// ================================================================= recipes
fn hex(b: &[u8]) -> String {
    b.iter().map(|x| format!("{:02x}", x)).collect()
}
fn unhex(s: &str) -> Vec<u8> {
    (0..s.len() / 2).map(|i| u8::from_str_radix(&s[2 * i..2 * i + 2], 16).unwrap_or(0)).collect()
}
fn r_file(ext: &str, name: &str, off: usize, len: usize) -> Value {
    json!({"ext": ext, "base": {"k": "file", "name": name, "off": off, "len": len}, "muts": [], "ref": false, "model": false})
}
fn r_gen(ext: &str, g: &str, seed: u64, small: bool) -> Value {
    json!({"ext": ext, "base": {"k": "gen", "g": g, "seed": seed, "small": small}, "muts": [], "ref": false, "model": false})
}
fn r_hex(ext: &str, b: &[u8]) -> Value {
    json!({"ext": ext, "base": {"k": "hex", "hex": hex(b)}, "muts": [], "ref": false, "model": false})
}
fn r_text(ext: &str, t: &str) -> Value {
    json!({"ext": ext, "base": {"k": "text", "text": t}, "muts": [], "ref": false, "model": false})
}
fn with_mut(mut r: Value, kind: &str, seed: u64) -> Value {
    r["muts"].as_array_mut().unwrap().push(json!([kind, seed]));
    r
}
fn with_flag(mut r: Value, k: &str) -> Value {
    r[k] = json!(true);
    r
}
fn expand(r: &Value) -> Vec<u8> {
    let ext = r["ext"].as_str().unwrap_or("dlt");
    let b = &r["base"];
    let mut bytes = match b["k"].as_str().unwrap_or("") {
        "file" => {
            let p = format!("{}/tests/{}", repo_dir(), b["name"].as_str().unwrap());
            let all = std::fs::read(&p).unwrap_or_default();
            let off = (b["off"].as_u64().unwrap_or(0) as usize).min(all.len());
            let len = b["len"].as_u64().unwrap_or(u64::MAX).min((all.len() - off) as u64) as usize;
            all[off..off + len].to_vec()
        }
        "gen" => {
            let seed = b["seed"].as_u64().unwrap_or(0);
            let small = b["small"].as_bool().unwrap_or(false);
            match ext {
                "asc" => gen_asc(seed, small),
                "txt" => gen_logcat(seed, small),
                "log" => gen_genlog(seed, small),
                _ => gen_dlt(b["g"].as_str().unwrap_or("mixed"), seed, small),
            }
        }
        "hex" => unhex(b["hex"].as_str().unwrap_or("")),
        "text" => b["text"].as_str().unwrap_or("").as_bytes().to_vec(),
        _ => vec![],
    };
    if let Some(ms) = r["muts"].as_array() {
        for m in ms {
            mutate(&mut bytes, m[0].as_str().unwrap_or("none"), m[1].as_u64().unwrap_or(0), ext != "dlt");
        }
    }
    bytes
}

// ================================================================= worker
fn worker_main(argv: &[String]) {
    let mut list = String::new();
    let (mut from, mut to) = (0usize, usize::MAX);
    let mut allow: Vec<usize> = vec![];
    let mut baseline = false;
    let mut i = 2;
    while i < argv.len() {
        match argv[i].as_str() {
            "--list" => { list = argv[i + 1].clone(); i += 1 }
            "--from" => { from = argv[i + 1].parse().unwrap(); i += 1 }
            "--to" => { to = argv[i + 1].parse().unwrap(); i += 1 }
            "--allow" => { allow = argv[i + 1].split(',').filter_map(|s| s.parse().ok()).collect(); i += 1 }
            "--baseline" => baseline = true,
            _ => {}
        }
        i += 1;
    }
    install_hook();
    let out = std::io::stdout();
    if baseline {
        // input-independent big requests: what the chain asks for on empty / tiny inputs
        let mut sizes = std::collections::BTreeSet::new();
        let tiny = gen_dlt("lc", 1, true);
        for (ext, b) in [("dlt", &b""[..]), ("asc", b""), ("txt", b""), ("log", b""), ("dlt", &tiny[..])] {
            guard_start(alloc_limit(0));
            let o = run_chain(ext, b, false, false, 0);
            let (_, big) = guard_stop();
            sizes.extend(big);
            if !o.fails.is_empty() {
                println!("BASELINE-FAIL {:?}", o.fails);
            }
        }
        println!("BASELINE {}", sizes.iter().map(|s| s.to_string()).collect::<Vec<_>>().join(","));
        return;
    }
    let cases: Vec<Value> = serde_json::from_slice(&std::fs::read(&list).expect("list")).expect("list json");
    for idx in from..to.min(cases.len()) {
        let r = &cases[idx];
        {
            let mut o = out.lock();
            writeln!(o, "START {}", idx).unwrap();
            o.flush().unwrap();
        }
        if let Some(u) = r.get("util") {
            let t0 = std::time::Instant::now();
            guard_start(alloc_limit(serde_json::to_string(u).map(|s| s.len()).unwrap_or(0) + 4 * 1024 * 1024));
            let (fails, uo) = run_util(u);
            let (maxreq, big) = guard_stop();
            let big: Vec<usize> = big.into_iter().filter(|s| !allow.contains(s)).collect();
            let failed = !fails.is_empty();
            let v = json!({"fails": fails, "util": uo, "nmsgs": 0, "nlcs": 0, "len": 0, "out": 0, "maxreq": maxreq, "big": big, "ms": t0.elapsed().as_millis() as u64});
            {
                let mut so = out.lock();
                writeln!(so, "DONE {} {}", idx, v).unwrap();
                so.flush().unwrap();
            }
            if failed {
                std::process::exit(3);
            }
            continue;
        }
        let bytes = expand(r);
        let ext = r["ext"].as_str().unwrap_or("dlt").to_string();
        let model = r["model"].as_bool().unwrap_or(false);
        guard_start(alloc_limit(bytes.len()));
        let t0 = std::time::Instant::now();
        let o = run_chain(&ext, &bytes, r["ref"].as_bool().unwrap_or(false), model, r["start"].as_u64().unwrap_or(0) as u32);
        let (maxreq, big) = guard_stop();
        let big: Vec<usize> = big.into_iter().filter(|s| !allow.contains(s)).collect();
        let v = json!({"fails": o.fails, "nmsgs": o.nmsgs, "nlcs": o.nlcs, "len": bytes.len(), "out": o.out_bytes, "maxreq": maxreq, "big": big, "ms": t0.elapsed().as_millis() as u64,
            "fx": o.fx, "reach": o.reach, "specs": o.specs, "deliv": o.deliveries, "table": o.table, "listing": o.listing});
        {
            let mut so = out.lock();
            writeln!(so, "DONE {} {}", idx, v).unwrap();
            so.flush().unwrap();
        }
        if !o.fails.is_empty() {
            // a panic may have poisoned process-wide state (lock on the tag/apid map): start over with a fresh process
            std::process::exit(3);
        }
    }
}

// ================================================================= driver: worker management
#[derive(Clone, Debug)]
enum Outcome {
    Done(Value),
    Died(String),
    Timeout,
}
fn spawn_worker(list: &str, from: usize, to: usize, allow: &str, errf: &str) -> std::process::Child {
    let exe = std::env::current_exe().unwrap();
    let cmd = format!("ulimit -v 4194304; ulimit -c 0; exec '{}' --worker --list '{}' --from {} --to {} --allow '{}' 2>>'{}'", exe.display(), list, from, to, allow, errf);
    std::process::Command::new("sh").arg("-c").arg(cmd).stdin(std::process::Stdio::null()).stdout(std::process::Stdio::piped()).spawn().expect("spawn worker")
}
fn tail_of(path: &str) -> String {
    let s = std::fs::read(path).unwrap_or_default();
    let s = String::from_utf8_lossy(&s).to_string();
    let t: String = s.chars().rev().take(300).collect::<String>().chars().rev().collect();
    t.replace('\n', " / ")
}
/// runs cases [from, to) of the list in isolated workers; returns one outcome per case
fn run_range(list: &str, from: usize, to: usize, allow: &str, errf: &str, limit_s: u64) -> Vec<Outcome> {
    use std::os::unix::process::ExitStatusExt;
    let mut res: Vec<Option<Outcome>> = vec![None; to - from];
    let mut next = from;
    let mut timeouts = 0;
    while next < to {
        if timeouts >= 3 {
            // circuit breaker: do not spend limit_s on each of the remaining cases
            res[next - from] = Some(Outcome::Died("not run: three cases of this worker's block already hit the time limit".into()));
            next += 1;
            continue;
        }
        let _ = std::fs::write(errf, b"");
        let mut child = spawn_worker(list, next, to, allow, errf);
        let so = child.stdout.take().unwrap();
        let (tx, rx) = channel::<String>();
        let rd = std::thread::spawn(move || {
            for l in std::io::BufReader::new(so).lines().flatten() {
                if tx.send(l).is_err() { break }
            }
        });
        let mut running: Option<usize> = None;
        let mut deadline = std::time::Instant::now() + std::time::Duration::from_secs(limit_s + 30);
        loop {
            let now = std::time::Instant::now();
            let wait = if deadline > now { deadline - now } else { std::time::Duration::from_millis(0) };
            match rx.recv_timeout(wait) {
                Ok(l) => {
                    if let Some(r) = l.strip_prefix("START ") {
                        running = r.trim().parse().ok();
                        deadline = std::time::Instant::now() + std::time::Duration::from_secs(limit_s);
                    } else if let Some(r) = l.strip_prefix("DONE ") {
                        let (i, j) = r.split_once(' ').unwrap_or((r, "{}"));
                        if let Ok(i) = i.parse::<usize>() {
                            res[i - from] = Some(Outcome::Done(serde_json::from_str(j).unwrap_or(json!({"fails": [["protocol", "bad json"]]}))));
                            next = i + 1;
                            running = None;
                            deadline = std::time::Instant::now() + std::time::Duration::from_secs(limit_s);
                        }
                    }
                }
                Err(std::sync::mpsc::RecvTimeoutError::Timeout) => {
                    let _ = child.kill();
                    let _ = child.wait();
                    let i = running.unwrap_or(next);
                    res[i - from] = Some(Outcome::Timeout);
                    next = i + 1;
                    timeouts += 1;
                    break;
                }
                Err(std::sync::mpsc::RecvTimeoutError::Disconnected) => {
                    let st = child.wait().ok();
                    if let Some(i) = running {
                        let how = match st {
                            Some(s) => match (s.signal(), s.code()) { (Some(sig), _) => format!("signal {}", sig), (_, Some(c)) => format!("exit code {}", c), _ => "?".into() },
                            None => "?".into(),
                        };
                        res[i - from] = Some(Outcome::Died(format!("{}; stderr: {}", how, tail_of(errf))));
                        next = i + 1;
                    } else if next < to && st.map(|s| s.code() == Some(0)).unwrap_or(false) && res[next - from].is_none() {
                        // worker ended without running the next case: should not happen
                        res[next - from] = Some(Outcome::Died(format!("worker ended early; stderr: {}", tail_of(errf))));
                        next += 1;
                    } else if next < to && res[next - from].is_none() && st.map(|s| s.code() != Some(3) && s.code() != Some(0)).unwrap_or(true) {
                        res[next - from] = Some(Outcome::Died(format!("worker could not start ({:?}); stderr: {}", st, tail_of(errf))));
                        next += 1;
                    }
                    break;
                }
            }
        }
        let _ = rd.join();
    }
    res.into_iter().map(|o| o.unwrap_or(Outcome::Died("no result".into()))).collect()
}
fn run_all(out: &std::path::Path, recipes: &[Value], limit_s: u64) -> (Vec<Outcome>, String) {
    std::fs::create_dir_all(out).unwrap();
    let list = out.join("c03_list.json");
    std::fs::write(&list, serde_json::to_vec(&Value::Array(recipes.to_vec())).unwrap()).unwrap();
    let list = list.to_string_lossy().to_string();
    // baseline: input-independent large requests (detector queue of 10^7 messages, sort heap of 2^20 entries, ...)
    let exe = std::env::current_exe().unwrap();
    let b = std::process::Command::new("sh").arg("-c").arg(format!("ulimit -v 4194304; exec timeout -s KILL 120 '{}' --worker --baseline 2>/dev/null", exe.display())).output().expect("baseline");
    let bo = String::from_utf8_lossy(&b.stdout).to_string();
    let allow = bo.lines().find_map(|l| l.strip_prefix("BASELINE ")).unwrap_or("").to_string();
    if bo.contains("BASELINE-FAIL") || !bo.contains("BASELINE ") {
        eprintln!("c03: baseline run of the chain failed: {} (status {:?})", bo, b.status);
    }
    let nw = std::thread::available_parallelism().map(|n| n.get()).unwrap_or(4).min(8).max(1).min(recipes.len().max(1));
    let n = recipes.len();
    // interleave: worker w takes a contiguous block (cheap restart logic); blocks are balanced by count
    let mut handles = vec![];
    for w in 0..nw {
        let (from, to) = (n * w / nw, n * (w + 1) / nw);
        let list = list.clone();
        let allow = allow.clone();
        let errf = out.join(format!("c03_worker{}.stderr", w)).to_string_lossy().to_string();
        handles.push(std::thread::spawn(move || if from < to { run_range(&list, from, to, &allow, &errf, limit_s) } else { vec![] }));
    }
    let mut all = vec![];
    for h in handles {
        all.extend(h.join().expect("worker thread"));
    }
    (all, allow)
}

// ================================================================= case list
/// witnesses of the defects repaired by `fix:` commits (kept as corpus cases) and hand-picked boundary inputs
fn corpus() -> Vec<(Value, &'static str)> {
    let mut v: Vec<(Value, &'static str)> = vec![];
    let rho_s: u32 = 1_000_000;
    let enc = |ms: &[GM]| { let mut o = vec![]; for m in ms { m.enc(false, &mut o); } o };
    // C03-1: verbose control response whose first argument is a 1-byte bool (lifecycle + anonymize), 2nd message of its ECU
    let mut w1 = GM::new(b"ECU1", 1000, 0, 10);
    w1.htyp = 0x30;
    let mut w2 = GM::new(b"ECU1", 1000, 100, 11).ext(1 | (3 << 1) | (2 << 4), 1, b"APID", b"CTID");
    w2.payload = vec![0x11, 0, 0, 0, 1];
    v.push((with_flag(r_hex("dlt", &enc(&[w1.clone(), w2.clone()])), "model"), "w_ctrl_short_arg"));
    // non verbose control response with a 3 byte body, sw version with lying length, get log info with huge counts
    for (k, body) in [&[0x13u8, 0, 0][..], &[0x13, 0, 0, 0, 0, 0xff, 0xff, 0xff, 0xff, b'a'], &[3, 0, 0, 0, 7, 0xff, 0xff, b'A', b'P', b'I', b'D', 0xff, 0xff], &[3, 0, 0, 0, 6, 1, 0, b'A', b'P', b'I', b'D', 1, 0, b'C', b'T', b'I', b'D', 1]].iter().enumerate() {
        let mut m = GM::new(b"ECU1", 1000, 200 + k as u32, 12).ext(CTRL_RESP, 1, b"APID", b"CTID");
        m.payload = body.to_vec();
        v.push((with_flag(r_hex("dlt", &enc(&[w1.clone(), m])), "model"), "w_ctrl_bodies"));
    }
    // C03-2 / C07-1: confirmed lifecycle merged while its predecessor is buffered
    let plain = |e: &[u8; 4], rt_us: u64, ts: u32| { let mut m = GM::new(e, (rt_us / 1_000_000) as u32, (rt_us % 1_000_000) as u32, ts); m.htyp = 0x30; m };
    let rho = rho_s as u64 * 1_000_000;
    let c2 = [plain(b"ECUA", rho, 200000), plain(b"ECUA", rho + 500_000, 0), plain(b"ECUA", rho - 1_000_000, 0), plain(b"ECUB", rho + 60_000_000, 0), plain(b"ECUA", rho - 5_000_000, 0)];
    v.push((with_flag(r_hex("dlt", &enc(&c2)), "model"), "w_merge_confirmed"));
    let c7 = [plain(b"ECUA", rho, 200000), plain(b"ECUB", rho + 200_000, 0), plain(b"ECUA", rho + 500_000, 0), plain(b"ECUA", rho - 1_000_000, 0), plain(b"ECUC", rho + 60_100_000, 0), plain(b"ECUA", rho - 5_000_000, 0)];
    v.push((with_flag(r_hex("dlt", &enc(&c7)), "model"), "w_merge_phantom"));
    // listing: resume lifecycle whose start estimate moves before the resumed one, third lifecycle in between
    let c8 = [plain(b"ECUA", rho, 100_000), plain(b"ECUA", rho + 1_000_000, 110_000), plain(b"ECUA", rho + 100_000_000, 900_000), plain(b"ECUB", rho + 100_500_000, 10), plain(b"ECUA", rho + 101_000_000, 1_200_000), plain(b"ECUA", rho + 300_000_000, 1_300_000)];
    v.push((with_flag(r_hex("dlt", &enc(&c8)), "model"), "w_listing_resume"));
    // file transfer announcement with huge sizes (pre-allocation), duplicate packages
    let flst = |np: u64, bs: u64| {
        let mut p = vec![];
        a_str(&mut p, b"FLST", false, false);
        a_num(&mut p, 0x40, 3, 7, false);
        a_str(&mut p, b"test_x.bin", false, false);
        a_num(&mut p, 0x40, 4, u64::MAX, false);
        a_str(&mut p, b"date", false, false);
        a_num(&mut p, 0x40, 4, np, false);
        a_num(&mut p, 0x40, 4, bs, false);
        a_str(&mut p, b"FLST", false, false);
        let mut m = GM::new(b"ECU1", 1000, 300, 20).ext(VERB_INFO, 8, b"SYS\0", b"FILE");
        m.payload = p;
        m
    };
    v.push((r_hex("dlt", &enc(&[w1.clone(), flst(u64::MAX, u64::MAX)])), "w_flst_huge"));
    v.push((r_hex("dlt", &enc(&[w1.clone(), flst(1 << 33, 1 << 33), flst(u32::MAX as u64, 65535), flst(3, 1 << 62)])), "w_flst_huge"));
    // maximum sized non verbose message without extended header: the NonVerbose plugin adds one, `convert -o` writes it
    let mut nvmax = GM::new(b"Ecu1", 1000, 400, 30);
    nvmax.htyp = 0x30;
    nvmax.payload = 805312382u32.to_le_bytes().to_vec();
    nvmax.payload.extend(std::iter::repeat(0u8).take(65_520));
    v.push((r_hex("dlt", &enc(&[w1.clone(), nvmax])), "w_nv_max_size"));
    // timestamps 0 / u32::MAX / beyond reception, reception time 0 and u32::MAX seconds, micros out of range
    let t1 = [plain(b"ECU1", 0, 0), plain(b"ECU1", 0, u32::MAX), plain(b"ECU1", 1, 1), plain(b"ECU1", u32::MAX as u64 * 1_000_000 + 999_999, u32::MAX), plain(b"ECU1", u32::MAX as u64 * 1_000_000, 0), plain(b"ECU2", 5_000_000, 4_000_000_000)];
    v.push((with_flag(r_hex("dlt", &enc(&t1)), "model"), "w_time_extremes"));
    let mut t2 = plain(b"ECU1", 1000, 5);
    t2.us = u32::MAX;
    let mut t3 = plain(b"ECU1", u32::MAX as u64 * 1_000_000, 5);
    t3.us = u32::MAX;
    v.push((with_flag(r_hex("dlt", &enc(&[t2, t3, plain(b"ECU1", 2000_000_000, 7)])), "model"), "w_time_extremes"));
    // tiny serial stream (repaired C01 defect), empty input, garbage only, lone markers
    v.push((with_flag(r_hex("dlt", b"DLS\x01\x20\x07\x00\x07abc"), "model"), "w_tiny_serial"));
    v.push((with_flag(r_hex("dlt", b""), "model"), "w_empty"));
    v.push((with_flag(r_hex("dlt", b"DLT\x01"), "model"), "w_markers"));
    v.push((with_flag(r_hex("dlt", b"DLT\x01DLT\x01DLS\x01DLT\x01\0\0\0\0\0\0\0\0ECU1\x35\0\0\x04"), "model"), "w_markers"));
    v.push((r_hex("dlt", &vec![0u8; 70000]), "w_zeros"));
    for ext in ["asc", "txt", "log"] {
        v.push((r_text(ext, ""), "w_empty"));
        v.push((r_hex(ext, &[0xff, 0xfe, b'\n', 0x80, b'\n', 0, 0, 0]), "w_non_utf8"));
    }
    // text witnesses (odd numbers, other scripts' digits, non-breaking blanks, short non-ASCII tags, dates of the previous year)
    v.push((r_text("asc", "date Tue Apr 12 08:55:37 AM 2022\n   0.985210 1  36f             Rx   d 5 f2 f7 fe ff 14 Length = 0 BitCount = 0 ID = 879\n"), "w_text_plain"));
    v.push((r_text("asc", "date Tue Apr 12 08:55:37 AM 2022\n   99999999999999.000000 1  36f             Rx   d 0\n"), "w_asc_huge_ts"));
    v.push((r_text("asc", "date Wed Dec 31 11:59:59 PM 1969\n   0.000001 1  36f             Rx   d 0\n   0.500000 1  36f             Rx   d 0\n"), "w_asc_old_date"));
    v.push((r_text("asc", "   0.000001 1  36f             Rx   d 1 €€\n   0.000002 1  36f  Rx d 1€ ab \n"), "w_asc_unicode"));
    v.push((r_text("txt", "01-01 00:00:01.000  100  200 I Tag: hello\n12-31 10:00:00.000  100  200 I Tag: previous year\n"), "w_logcat_prev_year"));
    v.push((r_text("txt", "1.000 1 2 I éé: a\n2.000 1 2 I ää: b\n3.000 1 2 I öö: c\n"), "w_logcat_tags"));
    v.push((r_text("txt", "1.000\u{a0}1 2 I tag: a\n"), "w_logcat_nbsp"));
    v.push((r_text("txt", "01-01 0\u{663}:00:00.00  1  2 I tag: a\n"), "w_logcat_digits"));
    v.push((r_text("txt", "99999999999999.000 1 2 I tag: a\n18446744073709.000 1 2 I tag: b\n"), "w_logcat_huge_ts"));
    v.push((r_text("log", "[2024-01-02 03:04:05.678] [INF] [] a\n[2024-01-02 03:04:05.679] [INF] [ ] b\n[2024-01-02 03:04:05.680] [INF] [  ] c\n"), "w_empty_tags"));
    v.push((r_text("txt", "1.000 1 2 I  : a\n2.000 1 2 I   : b\n3.000 1 2 I : c\n"), "w_empty_tags"));
    let long = "T".repeat(65_510);
    v.push((r_text("txt", &format!("1.000 1 2 I {}: a\n2.000 1 2 I x: b\n", long)), "w_long_tag"));
    v.push((r_text("log", &format!("[2024-01-02 03:04:05.678] [INF] [{}] a\n", long)), "w_long_tag"));
    v.push((r_text("asc", &format!("date Tue Apr 12 08:55:37 AM 2022\n// BusMapping: CAN 1 = {}\n   0.000001 1  36f  Rx   d 0\n", long)), "w_long_tag"));
    v.push((r_text("asc", &format!("   0.000001 1  36f  Rx   d 21845 {}\n   0.000002 1  36f  Rx   d 65535 {}\n", "ab ".repeat(21845), "cd ".repeat(65535))), "w_long_tag"));
    v.push((with_flag(r_text("asc", "date Fri Apr 12 08:55:37 AM 2024\n   429496.000000 1  36f  Rx   d 0\n   429490.000000 1  36f  Rx   d 0\n"), "ref"), "w_asc_ts_offset"));
    v.push((r_text("log", "[2024-01-02 03:04:05.678] [INF] [tag] message\n[2024-13-40 25:61:61.999] [€€€] [éé] m\n[2999-12-31 23:59:59.999] [ERR] [ää] m\n"), "w_genlog"));
    // every apid candidate of one abbreviation in use (Abcd, Abc1..Abc9, Ab10..Ab99, A100..A999, 1000..9999 as tags of their own), then a
    // tag with that abbreviation: get_apid_for_tag ran its u16 iteration counter over (debug) / looped forever (release); repaired by 7a6b3d3
    {
        let mut tags: Vec<String> = vec!["Abcd".into()];
        for i in 1..10 { tags.push(format!("Abc{}", i)); }
        for i in 10..100 { tags.push(format!("Ab{}", i)); }
        for i in 100..1000 { tags.push(format!("A{}", i)); }
        for i in 1000..10000 { tags.push(format!("{}", i)); }
        tags.push("Abcde".into());
        tags.push("AbcdX".into());
        let mut t = String::new();
        for (k, tg) in tags.iter().enumerate() { t.push_str(&format!("{}.{:03} 1 2 I {}: m\n", 10 + k / 1000, k % 1000, tg)); }
        v.push((r_text("txt", &t), "w_apid_exhausted"));
        let mut t = String::new();
        for (k, tg) in tags.iter().enumerate() { t.push_str(&format!("[2024-01-02 03:04:{:02}.{:03}] [INF] [{}] m\n", k / 1000, k % 1000, tg)); }
        v.push((r_text("log", &t), "w_apid_exhausted"));
    }
    // text-driven plugins: every single deviation of every part of the Muniic config text and of the SYS/JOUR text
    {
        let mut ms = vec![w1.clone()];
        let mut k = 0u32;
        for (apid, ctid, shape) in [(b"MUNI", b"MDLT", &MUNIIC_CFG_SHAPE[..]), (b"SYS\0", b"JOUR", &JOUR_SHAPE[..])] {
            for t in shape_deviations(shape) {
                k += 1;
                let mut m = GM::new(if k % 2 == 0 { b"Ecu1" } else { b"ECU1" }, 1000, 600 + k, 50 + k).ext(VERB_INFO, 1, apid, ctid);
                let mut p = vec![];
                a_str(&mut p, t.as_bytes(), false, true);
                m.payload = p;
                ms.push(m);
            }
        }
        v.push((r_hex("dlt", &enc(&ms)), "w_plugin_text_shapes"));
    }
    // payload texts on which the look-around payloadRegex filters exceed the backtrack limit of fancy_regex at match time
    // (Filter::matches has to take the run-time error as "no match")
    {
        let mut ms = vec![w1.clone()];
        for (k, t) in ["ab".repeat(40), "x".repeat(200), format!("x{}x", "word ".repeat(30))].iter().enumerate() {
            let mut m = GM::new(b"ECU1", 1000, 500 + k as u32, 40 + k as u32).ext(VERB_INFO, 1, b"APID", b"CTID");
            let mut p = vec![];
            a_str(&mut p, t.as_bytes(), false, true);
            m.payload = p;
            ms.push(m);
        }
        v.push((r_hex("dlt", &enc(&ms)), "w_filter_regex_backtrack"));
        v.push((r_text("txt", &format!("1.000 1 2 I tag: {}\n2.000 1 2 I tag: {}\n", "ab".repeat(40), "x".repeat(200))), "w_filter_regex_backtrack"));
    }
    // the '_' / capital counters of get_apid_for_tag were u32 (fix bf09881): the witness is a tag of 2^32 such characters,
    // i.e. a line of more than 4 GiB, which cannot be a case here (replayed once with a scratch program, see
    // known_findings.d/C03.json and theorem C03_apid_count_u32_before_fix_refuted); scaled down: beyond u16
    {
        let t = format!("1.000 1 2 I {}: a\n2.000 1 2 I {}: b\n3.000 1 2 I x{}: c\n", "_".repeat(70_000), "A".repeat(70_000), "_a".repeat(40_000));
        v.push((r_text("txt", &t), "w_apid_u32_counters"));
        let t = format!("[2024-01-02 03:04:05.678] [INF] [{}] a\n[2024-01-02 03:04:05.679] [INF] [{}] b\n", "_".repeat(70_000), "A".repeat(70_000));
        v.push((r_text("log", &t), "w_apid_u32_counters"));
    }
    v
}

const DLT_FILES: [&str; 7] = ["lc_ex002.dlt", "lc_ex003.dlt", "lc_ex004.dlt", "lc_ex005.dlt", "lc_ex006.dlt", "ex_1970_1_1.dlt", "test_ascii_utf8_strings.dlt"];
const TEXT_FILES: [(&str, &str); 11] = [("asc", "can_example1.asc"), ("asc", "can_example1b.asc"), ("asc", "can_example1c.asc"), ("asc", "can_example2a.asc"), ("asc", "can_example2b.asc"), ("asc", "can_example3.asc"),
    ("txt", "logcat_example1.txt"), ("txt", "logcat_example2.txt"), ("txt", "logcat_example3.txt"), ("txt", "logcat_example4.txt"), ("log", "genlog_example1.log")];
const GENS: [&str; 12] = ["lc", "lcspec", "ft", "ctrl", "nv", "someip", "can", "muniic", "plugtext", "serial", "mixed", "big"];
const BIN_MUTS: [&str; 4] = ["flip", "trunc", "splice", "bytes"];
const TEXT_MUTS: [&str; 6] = ["flip", "trunc", "splice", "bytes", "uni", "longline"];

fn file_len(name: &str) -> usize {
    std::fs::metadata(format!("{}/tests/{}", repo_dir(), name)).map(|m| m.len() as usize).unwrap_or(0)
}

fn build_cases(tier: &str, seed: u64, count: Option<u64>) -> Vec<(Value, String)> {
    if std::env::var("C03_ONLY").as_deref() == Ok("util") {
        // development aid: only the direct calls of the string helpers / converters' arithmetic
        return util_cases(tier, seed);
    }
    let mut rng = Rng::new(seed);
    let mut v: Vec<(Value, String)> = corpus().into_iter().map(|(r, t)| (r, t.to_string())).collect();
    let scale: u64 = match tier { "quick" => 5, "search" => 8, _ => 60 };
    let cut: usize = if tier == "quick" { 160 * 1024 } else { 320 * 1024 };
    // corpus files as they are (cut to a window), then under mutations
    for f in DLT_FILES {
        let n = file_len(f);
        if n == 0 { continue }
        v.push((r_file("dlt", f, 0, cut), "file".into()));
        for _ in 0..(3 * scale) {
            let win = *rng.pick(&[8 * 1024usize, 32 * 1024, cut]);
            let off = if n > win { rng.below((n - win) as u64) as usize } else { 0 };
            let base = r_file("dlt", f, off, win);
            let m = if rng.chance(1, 2) { format!("field{}", rng.below(N_FIELD_KINDS)) } else { rng.pick(&BIN_MUTS).to_string() };
            let mut r = with_mut(base, &m, rng.next());
            if rng.chance(1, 3) { r = with_mut(r, &format!("field{}", rng.below(N_FIELD_KINDS)), rng.next()); }
            v.push((r, format!("file+{}", if m.starts_with("field") { "field" } else { &m })));
        }
    }
    for (ext, f) in TEXT_FILES {
        v.push((r_file(ext, f, 0, cut), "file".into()));
        v.push((with_flag(r_file(ext, f, 0, cut), "ref"), "file".into()));
        for _ in 0..(2 * scale) {
            let m = *rng.pick(&TEXT_MUTS);
            let mut r = with_mut(r_file(ext, f, 0, 48 * 1024), m, rng.next());
            if rng.chance(1, 3) { r = with_flag(r, "ref"); }
            v.push((r, format!("file+{}", m)));
        }
    }
    // generated traces: plain, generic mutations, field-targeted corruption
    let n_gen = count.unwrap_or(36 * scale);
    for g in GENS {
        for k in 0..n_gen {
            let small = if g == "lcspec" { k % 3 != 0 } else { k % 3 == 0 };
            let base = r_gen("dlt", g, rng.next(), small);
            let (r, tag) = match (if g == "lcspec" && k % 2 == 0 { 0 } else { k % 4 }) {
                0 => (base, format!("gen:{}", g)),
                1 => { let m = *rng.pick(&BIN_MUTS); (with_mut(base, m, rng.next()), format!("gen:{}+{}", g, m)) }
                _ => {
                    let mut r = with_mut(base, &format!("field{}", rng.below(N_FIELD_KINDS)), rng.next());
                    if rng.chance(1, 2) { r = with_mut(r, &format!("field{}", rng.below(N_FIELD_KINDS)), rng.next()); }
                    (r, format!("gen:{}+field", g))
                }
            };
            // small storage-framed cases also go through the Coq models
            let r = if small && g != "big" { with_flag(r, "model") } else { r };
            v.push((r, tag));
        }
    }
    // accumulated state: histories of 1 000 - 3 000 messages whose k-th id is derived from k (sizes around the
    // 999 | 1000 boundary of the 3-digit pseudonyms), many concurrent transfers / segments, > 100 000 indices
    let hist_rounds: u64 = match tier { "quick" => 1, "search" => 1, _ => 3 };
    for (ki, kind) in HIST_KINDS.iter().enumerate() {
        let variants: u64 = if *kind == "lc_index" { hist_rounds } else if kind.starts_with("anon") { 7 * hist_rounds } else if *kind == "ft" { if hist_rounds > 1 { 4 } else { 3 } } else { 3 * hist_rounds };
        for j in 0..variants {
            let mut r = r_gen("dlt", &format!("hist_{}", kind), j + 9 * (seed % 5) * (j / 9), false);
            // message index: from 0, just below / above the refresh period, in the upper half, close to (but 150 000 below) u32::MAX
            let start = [0u64, 0, 99_990, 100_001, 1 << 31, u32::MAX as u64 - 150_000][((j + ki as u64) % 6) as usize];
            r["start"] = json!(start);
            if hist_rounds > 1 && j % 5 == 4 { r = with_mut(r, &format!("field{}", rng.below(N_FIELD_KINDS)), rng.next()); }
            v.push((r, format!("hist:{}", kind)));
        }
    }
    // message indices around the point where `index + 100 000` (the detector's periodic refresh) leaves the u32 range;
    // the traces are short, so the u32 message index itself (a design limit of the crate) is never exhausted
    for (j, off) in [100_010u64, 100_000, 99_999, 99_990, 60_000, 20_000].iter().enumerate() {
        for rep in 0..scale.min(3) as usize {
            let mut r = r_gen("dlt", ["lc", "lcspec", "mixed"][(j + rep) % 3], rng.next(), false);
            r["start"] = json!(u32::MAX as u64 - off);
            v.push((r, "index_limit".to_string()));
        }
    }
    // grammar-based text
    let n_text = count.unwrap_or(40 * scale);
    for ext in ["asc", "txt", "log"] {
        for k in 0..n_text {
            let small = k % 4 == 0;
            let base = r_gen(ext, "", rng.next(), small);
            let mut r = match k % 5 { 0 | 1 | 2 => base, _ => { let m = *rng.pick(&TEXT_MUTS); with_mut(base, m, rng.next()) } };
            if k % 7 == 3 { r = with_flag(r, "ref"); }
            if small { r = with_flag(r, "model"); }
            v.push((r, format!("grammar:{}", ext)));
        }
    }
    // direct calls of the string helpers (model cases)
    if count.is_none() || tier == "search" { v.extend(util_cases(tier, seed)); }
    // spread the expensive cases over the workers
    let mut keyed: Vec<(u64, (Value, String))> = v.into_iter().map(|c| (rng.next(), c)).collect();
    keyed.sort_by_key(|k| k.0);
    keyed.into_iter().map(|k| k.1).collect()
}

// ================================================================= control-message body parsers, called directly
// (src/dlt/control_msgs.rs vs Crash/ControlMsgs.v: parsed structure or None, panic / no panic)
#[derive(Clone)]
struct GCtx { id: [u8; 4], ll: u8, ts: u8, desc: Vec<u8> }
#[derive(Clone)]
struct GApp { id: [u8; 4], ctxs: Vec<GCtx>, desc: Vec<u8> }
fn gen_desc(rng: &mut Rng) -> Vec<u8> {
    let l = rng.size(5) as usize;
    (0..l).map(|_| *rng.pick(&[b'a', b'Z', b' ', b'\n', b'\t', b'\r', 0u8, 0x7f, 0x80, 0x81, 0xe9, 0xff])).collect()
}
fn gen_id(rng: &mut Rng) -> [u8; 4] {
    *rng.pick(&[*b"APID", *b"CTID", *b"SYS\0", [0, 0, 0, 0], [0xff, 0x80, 1, 2], *b"A\0\0\0"])
}
fn gen_apps(rng: &mut Rng) -> Vec<GApp> {
    let na = rng.size(3) as usize;
    (0..na).map(|_| { let nc = rng.size(3) as usize; GApp { id: gen_id(rng), ctxs: (0..nc).map(|_| GCtx { id: gen_id(rng), ll: rng.below(256) as u8, ts: rng.below(256) as u8, desc: gen_desc(rng) }).collect(), desc: gen_desc(rng) } }).collect()
}
/// body of a GET_LOG_INFO response behind the status byte + the positions of its u16 count / length fields
fn enc_log_info(status: u8, be: bool, apps: &[GApp]) -> (Vec<u8>, Vec<usize>) {
    let (hl, hts, hd) = (status == 4 || status == 6 || status == 7, status == 5 || status == 6 || status == 7, status == 7);
    let mut p = vec![];
    let mut f = vec![0usize];
    p.extend_from_slice(&u16b(apps.len() as u16, be));
    for a in apps {
        p.extend_from_slice(&a.id);
        f.push(p.len());
        p.extend_from_slice(&u16b(a.ctxs.len() as u16, be));
        for c in &a.ctxs {
            p.extend_from_slice(&c.id);
            if hl { p.push(c.ll) }
            if hts { p.push(c.ts) }
            if hd { f.push(p.len()); p.extend_from_slice(&u16b(c.desc.len() as u16, be)); p.extend_from_slice(&c.desc); }
        }
        if hd { f.push(p.len()); p.extend_from_slice(&u16b(a.desc.len() as u16, be)); p.extend_from_slice(&a.desc); }
    }
    (p, f)
}
fn o_str(s: &str) -> O {
    O::T(s.chars().map(|c| O::L(if (c as u32) < 128 { c as u128 } else { 256 })).collect())
}
fn o_id(c: &DltChar4) -> O {
    O::bytes(c.as_buf())
}
/// the real function on the body; Err = panic text
fn run_ctrl(func: u64, status: u8, be: bool, p: &[u8]) -> Result<O, String> {
    use adlt::dlt::control_msgs::*;
    let p = p.to_vec();
    catch_loc(move || match func {
        0 => O::T(parse_ctrl_log_info_payload(status, be, &p).iter().map(|a| O::T(vec![
                o_id(&a.apid),
                O::T(a.ctids.iter().map(|c| O::T(vec![o_id(&c.ctid), O::opt(c.log_level.map(|v| O::n(v as u8))), O::opt(c.trace_status.map(|v| O::n(v as u8))), O::opt(c.desc.as_deref().map(o_str))])).collect()),
                O::opt(a.desc.as_deref().map(o_str))])).collect()),
        1 => O::opt(parse_ctrl_sw_version_payload(be, &p).as_deref().map(o_str)),
        2 => O::opt(parse_ctrl_unregister_context_payload(&p).map(|(a, c, m)| O::T(vec![o_id(&a), o_id(&c), o_id(&m)]))),
        3 => O::opt(parse_ctrl_connection_info_payload(&p).map(|(s, m)| O::T(vec![O::n(s), o_id(&m)]))),
        _ => O::opt(parse_ctrl_timezone_payload(be, &p).map(|(g, d)| O::T(vec![O::n(g as u32), O::b(d)]))),
    })
}
fn push_ctrl(sink: &mut Sink, func: u64, status: u8, be: bool, p: &[u8], tag: &str) {
    let r = run_ctrl(func, status, be, p);
    let (obs, verdict) = match &r {
        Ok(o) => (O::T(vec![O::L(0), o.clone()]), Verdict::Ok),
        Err(e) => (O::T(vec![O::L(1)]), Verdict::Fail { clause: "no_panic".into(), detail: format!("control_msgs parser {} (status {}, big endian {}) on a body of {} bytes: {}", func, status, be, p.len(), e) }),
    };
    let nontrivial = matches!(&r, Ok(O::T(v)) if !v.is_empty());
    let id = sink.next_id();
    let mut tags = vec![format!("ctrl:fn{}", func), format!("ctrl:{}", tag)];
    if func == 0 { tags.push(format!("ctrl:status{}", status)); }
    if r.is_err() { tags.push("FAIL".into()); }
    sink.push(Case {
        id,
        input_coq: format!("(CCtrl {} {} {} {})", func, status, cbool(be), cnums(p)),
        input_json: json!({"ctrl": {"fn": func, "status": status, "be": be, "payload": p}}),
        obs,
        verdict,
        classes: vec![],
        tags,
        nontrivial,
        key: format!("ctrl/{}/{}/{}/{}", func, status, be, hex(p)),
    });
}
fn ctrl_cases(sink: &mut Sink, tier: &str, seed: u64) {
    let mut rng = Rng::new(seed ^ 0xC7A1);
    let n_bodies = match tier { "quick" => 24, "search" => 60, _ => 300 };
    for k in 0..n_bodies {
        let status = 3 + (k % 5) as u8;
        let be = rng.chance(1, 2);
        let apps = gen_apps(&mut rng);
        let (p, fields) = enc_log_info(status, be, &apps);
        push_ctrl(sink, 0, status, be, &p, "valid");
        // every truncation point (sampled for long bodies)
        let cuts: Vec<usize> = if p.len() <= 48 { (0..p.len()).collect() } else { (0..24).map(|_| rng.below(p.len() as u64) as usize).collect() };
        for c in cuts { push_ctrl(sink, 0, status, be, &p[..c], "truncated"); }
        // count / length fields off by one or two, or extreme
        for f in &fields {
            for d in [-2i32, -1, 1, 2] {
                let mut q = p.clone();
                let v = if be { u16::from_be_bytes([q[*f], q[*f + 1]]) } else { u16::from_le_bytes([q[*f], q[*f + 1]]) };
                let b = u16b(v.wrapping_add(d as u16), be);
                q[*f] = b[0]; q[*f + 1] = b[1];
                push_ctrl(sink, 0, status, be, &q, "field_off");
            }
            if rng.chance(1, 3) { let mut q = p.clone(); q[*f] = 0xff; q[*f + 1] = 0xff; push_ctrl(sink, 0, status, be, &q, "field_max"); }
        }
        // the same body read under another status / byte order, with a tail, random bytes
        for st in [0u8, 2, 3, 4, 5, 6, 7, 8, 255] { if st != status && rng.chance(1, 2) { push_ctrl(sink, 0, st, be, &p, "other_status"); } }
        push_ctrl(sink, 0, status, !be, &p, "other_endian");
        let mut q = p.clone(); let l = rng.range(1, 3) as usize; q.extend(rand_bytes(&mut rng, l)); push_ctrl(sink, 0, status, be, &q, "tail");
        let l = rng.size(24) as usize; let q = rand_bytes(&mut rng, l); push_ctrl(sink, 0, status, be, &q, "random");
        let mut q = p.clone(); if !q.is_empty() { let i = rng.below(q.len() as u64) as usize; q[i] ^= 1 << rng.below(8); } push_ctrl(sink, 0, status, be, &q, "flip");
    }
    // software version: length + string
    for _ in 0..n_bodies {
        let be = rng.chance(1, 2);
        let d = { let l = rng.size(12) as usize; (0..l).map(|_| *rng.pick(&[b'v', b'1', b'.', b'\n', b'\t', 0u8, 0x80, 0xff])).collect::<Vec<u8>>() };
        let mut p = u32b(d.len() as u32, be).to_vec();
        p.extend_from_slice(&d);
        push_ctrl(sink, 1, 0, be, &p, "valid");
        for c in 0..p.len() { push_ctrl(sink, 1, 0, be, &p[..c], "truncated"); }
        for dl in [-2i64, -1, 1, 2, 0xffff_ffff, 0x1_0000_0000 - d.len() as i64 - 1] {
            let mut q = p.clone();
            q[..4].copy_from_slice(&u32b((d.len() as i64 + dl) as u32, be));
            push_ctrl(sink, 1, 0, be, &q, "field_off");
        }
        push_ctrl(sink, 1, 0, !be, &p, "other_endian");
        let mut q = p.clone(); q.push(7); push_ctrl(sink, 1, 0, be, &q, "tail");
    }
    // fixed size bodies: every length around the expected one
    for func in [2u64, 3, 4] {
        for l in 0..15usize {
            for _ in 0..(if tier == "quick" { 1 } else { 4 }) {
                let q = rand_bytes(&mut rng, l);
                push_ctrl(sink, func, 0, rng.chance(1, 2), &q, "fixed_size");
            }
        }
    }
}

// ================================================================= string helpers of src/utils/mod.rs, called directly
// (get_apid_for_tag incl. the private get_4digit_str, hex_to_bytes vs Crash/TextUtils.v).  The calls run in the isolated
// workers like every other case (a panic inside get_apid_for_tag poisons the process-wide tag map; an endless loop must
// hit the wall-clock limit, not hang the driver).
fn r_util(u: Value) -> Value {
    json!({"ext": "util", "base": {"k": "util"}, "muts": [], "ref": false, "model": true, "util": u})
}
/// tags of one recipe item: {"lit": "tag"}, {"num": [prefix, lo, n, suffix]} = prefix + decimal(lo + k) + suffix for k < n,
/// {"rep": [prefix, unit, n, suffix]} = the one tag prefix + unit * n + suffix
fn spec_tags(sp: &Value) -> Vec<String> {
    if let Some(l) = sp.get("lit") {
        return vec![l.as_str().unwrap_or("").to_string()];
    }
    if let Some(r) = sp.get("rep") {
        return vec![format!("{}{}{}", r[0].as_str().unwrap_or(""), r[1].as_str().unwrap_or("").repeat(r[2].as_u64().unwrap_or(0) as usize), r[3].as_str().unwrap_or(""))];
    }
    let n = &sp["num"];
    let (pre, lo, cnt, suf) = (n[0].as_str().unwrap_or(""), n[1].as_u64().unwrap_or(0), n[2].as_u64().unwrap_or(0), n[3].as_str().unwrap_or(""));
    (0..cnt).map(|k| format!("{}{}{}", pre, lo + k, suf)).collect()
}
fn hash_apids(a: &[u32]) -> u64 {
    a.iter().fold(0u64, |h, x| h.wrapping_mul(1_000_003).wrapping_add(*x as u64).wrapping_add(1))
}
/// a tag can be given to the generic-log converter as `[tag]` if the line regex captures exactly it
fn tag_fits_genlog(t: &str) -> bool {
    !t.contains(']') && !t.contains('\n') && !t.contains('\r')
}
/// worker side: runs the real functions; returns (failed stages, observation)
fn run_util(u: &Value) -> (Vec<(String, String)>, Value) {
    let mut fails = vec![];
    match u["k"].as_str().unwrap_or("") {
        "apid" => {
            let specs = u["specs"].as_array().cloned().unwrap_or_default();
            let ns = adlt::utils::get_new_namespace();
            let mut per_spec: Vec<Vec<u32>> = vec![];
            let done = stage("apid", &mut fails, || {
                let mut out = vec![];
                for sp in &specs {
                    out.push(spec_tags(sp).iter().map(|t| ecu_u32(&adlt::utils::get_apid_for_tag(ns, t))).collect::<Vec<u32>>());
                }
                out
            });
            if let Some(o) = done { per_spec = o; }
            // the same tags as lines of a generic-log file in a fresh namespace: the converter must hand out the same apids
            if u["via_log"].as_bool().unwrap_or(false) && fails.is_empty() {
                let tags: Vec<String> = specs.iter().flat_map(|sp| spec_tags(sp)).collect();
                let mut text = String::new();
                for (k, t) in tags.iter().enumerate() {
                    text.push_str(&format!("[2024-01-02 03:{:02}:{:02}.{:03}] [INF] [{}] m\n", (k / 60000) % 60, (k / 1000) % 60, k % 1000, t));
                }
                let direct: Vec<u32> = per_spec.iter().flatten().copied().collect();
                let conv = stage("apid_via_log", &mut fails, || {
                    let ns2 = adlt::utils::get_new_namespace();
                    let rd = LowMarkBufReader::new(std::io::Cursor::new(text.into_bytes()), 512 * 1024, DLT_MAX_STORAGE_MSG_SIZE + 4);
                    adlt::utils::get_dlt_message_iterator("log", 0, rd, ns2, None, Some(MODIFIED_US), None).filter(|m| m.is_verbose()).map(|m| m.apid().map(ecu_u32).unwrap_or(0)).collect::<Vec<u32>>()
                });
                if let Some(c) = conv {
                    if c != direct {
                        let i = c.iter().zip(direct.iter()).position(|(a, b)| a != b).unwrap_or(c.len().min(direct.len()));
                        fails.push(("harness_apid_via_log".into(), format!("generic-log converter and direct calls differ at tag #{} ({} vs {} apids)", i, c.len(), direct.len())));
                    }
                }
            }
            let o: Vec<Value> = specs.iter().zip(per_spec.iter()).map(|(sp, a)| if sp.get("num").is_none() { json!(a.first().copied().unwrap_or(0)) } else { json!([a.len(), hash_apids(a)]) }).collect();
            (fails, json!(o))
        }
        "hex" => {
            let s = u["s"].as_str().unwrap_or("").to_string();
            let r = stage("hex_to_bytes", &mut fails, || adlt::utils::hex_to_bytes(&s));
            (fails, match r { Some(Some(v)) => json!([v]), _ => json!([]) })
        }
        "asc" | "logcat" => {
            let kind = u["k"].as_str().unwrap_or("");
            let text = u["text"].as_str().unwrap_or("").to_string();
            let with_ref = u["ref"].as_bool().unwrap_or(false);
            let r = stage(kind, &mut fails, || {
                let ns = adlt::utils::get_new_namespace();
                let rd = LowMarkBufReader::new(std::io::Cursor::new(text.into_bytes()), 512 * 1024, DLT_MAX_STORAGE_MSG_SIZE + 4);
                let it = adlt::utils::get_dlt_message_iterator(if kind == "asc" { "asc" } else { "txt" }, 0, rd, ns, if with_ref { Some(REF_US) } else { None }, Some(MODIFIED_US), None);
                it.take(MAX_MSGS).map(|m| json!([m.reception_time_us, m.timestamp_dms, m.standard_header.len, m.is_ctrl_response(), if m.payload.len() > 4 && !m.is_ctrl_response() { m.payload[4..].to_vec() } else { vec![] }])).collect::<Vec<Value>>()
            });
            (fails, json!(r.unwrap_or_default()))
        }
        _ => (vec![("harness_util".into(), "unknown util kind".into())], json!(null)),
    }
}
// ---- the converters' arithmetic: what the driver derives from the text of a case (regex capture locations with the
// regexes of the converters, chrono's value of a date line) = the inputs of Crash/TextTime.v
enum AscItem { Date(i64), Can(String, usize, usize, usize, usize), Bus(usize) }
fn asc_items(text: &str) -> Vec<AscItem> {
    use std::sync::OnceLock;
    static RE: OnceLock<(regex::Regex, regex::Regex, regex::Regex, regex::Regex)> = OnceLock::new();
    let (re_msg, re_fd, re_fd_err, re_date) = RE.get_or_init(|| (
        regex::Regex::new(r"^\s*(-?\d+\.\d{6})\s+(\d+)\s+([0-9a-fx]+)\s+(Rx|Tx)\s+d\s+(\d+)").unwrap(),
        regex::Regex::new(r"^\s*(-?\d+\.\d{6})\s+CANFD\s+(\d+)\s+(Rx|Tx)\s+([0-9a-fx]+)\s+(\d+)\s+(\d+)\s+([0-9a-fx]+)\s+(\d+)").unwrap(),
        regex::Regex::new(r"^\s*(-?\d+\.\d{6})\s+CANFD\s+(\d+)\s+(Rx|Tx)\s+ErrorFrame").unwrap(),
        regex::Regex::new(r"^date (.*)$").unwrap()));
    let mut v = vec![];
    for line in text.split('\n') {
        if let Some(c) = re_msg.captures(line) {
            let (t, d) = (c.get(1).unwrap(), c.get(5).unwrap());
            v.push(AscItem::Can(line.to_string(), t.start(), t.end(), d.start(), d.end()));
        } else if re_fd.is_match(line) || re_fd_err.is_match(line) {
            v.push(AscItem::Bus(usize::MAX)); // not generated; would show up as a disagreement
        } else if let Some(c) = re_date.captures(line) {
            if let Ok(nt) = chrono::NaiveDateTime::parse_from_str(c.get(1).unwrap().as_str(), "%a %b %d %I:%M:%S%.f %p %Y") {
                v.push(AscItem::Date(nt.and_utc().timestamp_micros()));
            }
        } else if line.starts_with("//") {
            let comment = line[2..].trim();
            if comment.starts_with("BusMapping: CAN") {
                let id_idx = 14 + comment[14..].find(' ').unwrap_or(1);
                if let Some((id, name)) = comment[id_idx..].split_once('=') {
                    if id.trim().parse::<u8>().is_ok() {
                        v.push(AscItem::Bus(name.trim().len()));
                    }
                }
            }
        }
    }
    v
}
/// (timestamp capture, Some(tag length) if the line makes the converter emit a GET_LOG_INFO message first)
fn logcat_items(text: &str) -> Vec<(String, Option<usize>)> {
    use std::sync::OnceLock;
    static RE: OnceLock<regex::Regex> = OnceLock::new();
    let re = RE.get_or_init(|| regex::Regex::new(r"^\s*(\d+\.\d+)\s+(\d+)\s+(\d+) ([A-Za-z]) (.*?)\s*: (.*)$").unwrap());
    let mut seen = std::collections::HashSet::new();
    let mut v = vec![];
    for line in text.split('\n') {
        if let Some(c) = re.captures(line) {
            let tag = c.get(5).unwrap().as_str();
            let new = seen.insert(tag.to_string());
            v.push((c.get(1).unwrap().as_str().to_string(), if new && !tag.is_empty() { Some(tag.len()) } else { None }));
        }
    }
    v
}
fn util_coq(u: &Value) -> String {
    let bytes = |s: &str| cnums(s.as_bytes());
    match u["k"].as_str().unwrap_or("") {
        "apid" => {
            let items: Vec<String> = u["specs"].as_array().map(|a| a.iter().map(|sp| {
                if let Some(l) = sp.get("lit") { format!("TLit {}", bytes(l.as_str().unwrap_or(""))) }
                else if let Some(r) = sp.get("rep") { format!("TRep {} {} {} {}", bytes(r[0].as_str().unwrap_or("")), bytes(r[1].as_str().unwrap_or("")), r[2].as_u64().unwrap_or(0), bytes(r[3].as_str().unwrap_or(""))) }
                else { let n = &sp["num"]; format!("TNum {} {} {} {}", bytes(n[0].as_str().unwrap_or("")), n[1].as_u64().unwrap_or(0), n[2].as_u64().unwrap_or(0), bytes(n[3].as_str().unwrap_or(""))) }
            }).collect()).unwrap_or_default();
            format!("(CApid {})", clist(&items))
        }
        "hex" => format!("(CHex {})", bytes(u["s"].as_str().unwrap_or(""))),
        "asc" => {
            let items: Vec<String> = asc_items(u["text"].as_str().unwrap_or("")).iter().map(|it| match it {
                AscItem::Date(nt) => format!("ADate {} {}", cbool(*nt < 0), nt.unsigned_abs()),
                AscItem::Can(line, a, b, c, d) => format!("ACan {} {} {} {} {}", bytes(line), a, b, c, d),
                AscItem::Bus(n) => format!("ABus {}", n),
            }).collect();
            format!("(CAsc {} {})", copt(if u["ref"].as_bool().unwrap_or(false) { Some(REF_US.to_string()) } else { None }), clist(&items))
        }
        "logcat" => {
            let items: Vec<String> = logcat_items(u["text"].as_str().unwrap_or("")).iter().map(|(ts, info)| format!("({}, {})", bytes(ts), copt(info.map(|n| n.to_string())))).collect();
            format!("(CLogcat {} {})", MODIFIED_US, clist(&items))
        }
        _ => "(CSearch 0)".to_string(),
    }
}
fn util_obs(u: &Value, ok: bool, o: &Value) -> O {
    if !ok { return O::T(vec![O::L(1)]); }
    let val = |v: &Value| -> O { match v { Value::Array(a) => O::T(a.iter().map(|x| O::L(x.as_u64().unwrap_or(0) as u128)).collect()), x => O::L(x.as_u64().unwrap_or(0) as u128) } };
    match u["k"].as_str().unwrap_or("") {
        "apid" => O::T(vec![O::L(0), O::T(o.as_array().map(|a| a.iter().map(val).collect()).unwrap_or_default())]),
        "hex" => O::T(vec![O::L(0), O::T(o.as_array().map(|a| a.iter().map(val).collect()).unwrap_or_default())]),
        "asc" => {
            // one entry per item of the text; the messages of the converter are consumed in order
            let msgs = o.as_array().cloned().unwrap_or_default();
            let mut k = 0usize;
            let n = |v: &Value| O::L(v.as_u64().unwrap_or(0) as u128);
            let mut out = vec![];
            for it in asc_items(u["text"].as_str().unwrap_or("")) {
                match it {
                    AscItem::Date(_) => out.push(O::T(vec![])),
                    AscItem::Can(..) => { let m = msgs.get(k).cloned().unwrap_or(json!([0, 0, 0, false, []])); k += 1; out.push(O::T(vec![n(&m[0]), n(&m[1]), n(&m[2]), val(&m[4])])); }
                    AscItem::Bus(_) => { let m = msgs.get(k).cloned().unwrap_or(json!([0, 0, 0, false, []])); k += 1; out.push(O::T(vec![n(&m[0]), n(&m[1]), n(&m[2])])); }
                }
            }
            if k != msgs.len() { out.push(O::L(msgs.len() as u128)); } // more messages than modelled lines: disagreement
            O::T(vec![O::L(0), O::T(out)])
        }
        "logcat" => {
            let msgs = o.as_array().cloned().unwrap_or_default();
            let mut k = 0usize;
            let n = |v: &Value| O::L(v.as_u64().unwrap_or(0) as u128);
            let mut out = vec![];
            for (_, info) in logcat_items(u["text"].as_str().unwrap_or("")) {
                let dflt = json!([0, 0, 0, false, []]);
                let mut info_o = O::T(vec![]);
                if info.is_some() {
                    let im = msgs.get(k).cloned().unwrap_or(dflt.clone()); k += 1;
                    let lm = msgs.get(k).cloned().unwrap_or(dflt.clone());
                    // the GET_LOG_INFO message carries the times of its log message
                    info_o = if im[0] == lm[0] && im[1] == lm[1] && im[3] == json!(true) { O::T(vec![n(&im[2])]) } else { O::T(vec![n(&im[2]), O::L(999)]) };
                }
                let m = msgs.get(k).cloned().unwrap_or(dflt); k += 1;
                out.push(O::T(vec![n(&m[0]), n(&m[1]), info_o, ]));
                if m[2] != json!(22) { out.push(O::L(m[2].as_u64().unwrap_or(0) as u128)); } // a log message has no payload: len 22
            }
            if k != msgs.len() { out.push(O::L(msgs.len() as u128)); }
            O::T(vec![O::L(0), O::T(out)])
        }
        _ => O::T(vec![O::L(0)]),
    }
}

// ---- generators
const WS_CHARS: [&str; 25] = ["\t", "\n", "\u{b}", "\u{c}", "\r", " ", "\u{85}", "\u{a0}", "\u{1680}", "\u{2000}", "\u{2001}", "\u{2002}", "\u{2003}", "\u{2004}", "\u{2005}", "\u{2006}", "\u{2007}", "\u{2008}", "\u{2009}", "\u{200a}", "\u{2028}", "\u{2029}", "\u{202f}", "\u{205f}", "\u{3000}"];
// close to white space but not White_Space: U+001C..U+001F, U+200B (zero width space), U+180E, U+FEFF, U+2060, U+0084, U+0086, U+00A1, U+3001
const NOT_WS_CHARS: [&str; 12] = ["\u{1c}", "\u{1f}", "\u{200b}", "\u{180e}", "\u{feff}", "\u{2060}", "\u{84}", "\u{86}", "\u{a1}", "\u{3001}", "\u{8}", "\u{e}"];
const MB_CHARS: [&str; 8] = ["é", "ß", "€", "‰", "𝄞", "😀", "İ", "\u{7ff}"];
fn gen_core_tag(rng: &mut Rng) -> String {
    let word = |rng: &mut Rng, n: u64| -> String { (0..n).map(|_| *rng.pick(&['a', 'b', 'z', 'A', 'Q', 'Z', '0', '9', '-', '.', '+'])).collect() };
    match rng.below(16) {
        0 => "".into(),
        1 => { let n = rng.range(1, 4); word(rng, n) }
        2 => { let n = rng.range(5, 12); word(rng, n) }
        3 => { // snake_case of 1..5 parts, parts may be empty / non-ASCII
            let k = rng.range(1, 5);
            (0..=k).map(|_| match rng.below(6) { 0 => "".to_string(), 1 => rng.pick(&MB_CHARS).to_string(), _ => { let n = rng.range(1, 4); word(rng, n) } }).collect::<Vec<_>>().join("_")
        }
        4 => { // CamelCase with 0..6 capitals
            let k = rng.below(7);
            let mut s: String = (0..k).map(|_| format!("{}{}", rng.pick(&['A', 'K', 'Z']), (0..rng.below(3)).map(|_| *rng.pick(&['a', 'm', 'z', '1'])).collect::<String>())).collect();
            if rng.chance(1, 3) { s.push_str(*rng.pick(&MB_CHARS)); }
            if rng.chance(1, 2) { s.push_str("lower"); }
            s
        }
        5 => { // a multi-byte character at byte position 0..=4 of an ASCII word
            let n = rng.range(0, 6); let w = word(rng, n);
            let at = (rng.below(5) as usize).min(w.len());
            format!("{}{}{}", &w[..at], rng.pick(&MB_CHARS), &w[at..])
        }
        6 => (0..rng.range(1, 3)).map(|_| rng.pick(&MB_CHARS).to_string()).collect(),
        7 => format!("{}", *rng.pick(&[0u32, 1, 9, 10, 99, 100, 999, 1000, 1001, 4321, 9999, 10000, 65535, 65536])),
        8 => format!("{:04}", rng.below(12)),
        9 => rng.pick(&["NoAs", "NoA1", "No10", "N100", "NoAsX", "No_As", " 001", "0001", "a_b_c_d_e", "_____", "__a", "a__", "_a_", "ALLUPPERCASE", "alllowercase", "aB", "aBcDeFg", "x", "xx", "xxx", "xxxx", "xxxxx"]).to_string(),
        10 => rng.pick(&["ActivityManager", "chatty", "Zygote", "SYS", "Tag1", "Tag2", "PT-CAN", "a: b", "] [", "snake_case_é_tag", "CamelCaseTagNameİ"]).to_string(),
        11 => { let n = rng.below(5); let c = *rng.pick(&NOT_WS_CHARS); format!("{}{}", c, word(rng, n)) }
        12 => { let n = rng.below(5); let c = *rng.pick(&NOT_WS_CHARS); format!("{}{}", word(rng, n), c) }
        13 => "x".repeat(*rng.pick(&[5usize, 64, 300])),
        14 => format!("{}_{}", "é".repeat(rng.range(1, 3) as usize), "ü".repeat(rng.range(1, 3) as usize)),
        _ => format!("Tag{}", rng.below(30)),
    }
}
fn gen_ws(rng: &mut Rng) -> String {
    (0..rng.below(3)).map(|_| rng.pick(&WS_CHARS).to_string()).collect()
}
fn gen_tag(rng: &mut Rng) -> String {
    let core = gen_core_tag(rng);
    match rng.below(4) { 0 => core, 1 => format!("{}{}", gen_ws(rng), core), 2 => format!("{}{}", core, gen_ws(rng)), _ => format!("{}{}{}", gen_ws(rng), core, gen_ws(rng)) }
}
fn gen_hex_str(rng: &mut Rng) -> String {
    let hexd = |rng: &mut Rng| *rng.pick(&['0', '1', '9', 'a', 'f', 'A', 'F', 'c', '7', 'E']);
    let n = rng.below(7);
    let mut s = String::new();
    for i in 0..n {
        if i > 0 { s.push(if rng.chance(5, 6) { ' ' } else { *rng.pick(&['\t', 'x', '-', '0', '\u{a0}', '€', ':']) }); }
        match rng.below(14) {
            0 => { s.push('+'); s.push(hexd(rng)); }
            1 => { s.push('-'); s.push(hexd(rng)); }
            2 => { s.push(hexd(rng)); s.push(*rng.pick(&['g', 'G', '/', ':', '@', '`', '+', '-', ' ', 'x'])); }
            3 => { s.push(*rng.pick(&['g', 'G', '/', ':', '@', '`', ' ', 'x'])); s.push(hexd(rng)); }
            4 => s.push_str(*rng.pick(&["é", "€", "++", "+-", "--", "+", "٣٣", "ff0", "f"])),
            _ => { s.push(hexd(rng)); s.push(hexd(rng)); }
        }
    }
    match rng.below(10) { 0 => format!(" {}", s), 1 => format!("{} ", s), 2 => format!("{}€", s), _ => s }
}
/// a date line of an asc file that chrono accepts (the weekday must fit the date)
fn asc_date(rng: &mut Rng, year: i32) -> String {
    use chrono::Datelike;
    let d = chrono::NaiveDate::from_ymd_opt(year, rng.range(1, 12) as u32, rng.range(1, 28) as u32).unwrap_or_default();
    let wd = ["Mon", "Tue", "Wed", "Thu", "Fri", "Sat", "Sun"][d.weekday().num_days_from_monday() as usize];
    let mo = ["Jan", "Feb", "Mar", "Apr", "May", "Jun", "Jul", "Aug", "Sep", "Oct", "Nov", "Dec"][d.month0() as usize];
    format!("date {} {} {} {:02}:{:02}:{:02}{} {} {}", wd, mo, d.day(), rng.range(1, 12), rng.range(0, 59), rng.range(0, 59), rng.pick(&["", ".123", ".999999"]), rng.pick(&["AM", "PM", "am", "pm"]), year)
}
fn gen_secs_str(rng: &mut Rng) -> String {
    match rng.below(22) {
        0 => "0".into(),
        1 => "9223372036854".into(),              // * 10^6 just below i64::MAX
        2 => "9223372036855".into(),              // saturates as i64
        3 => "18446744073709".into(),             // * 10^6 just below u64::MAX
        4 => "18446744073710".into(),             // saturates as u64
        5 => "9223372036854775807".into(),
        6 => "9223372036854775808".into(),
        7 => "18446744073709551615".into(),
        8 => "18446744073709551616".into(),
        9 => "99999999999999999999999999".into(),
        10 => "000000000000000000000000000042".into(),
        11 => "٣".into(),                         // \\d of the regex crate matches it, parse() does not
        12 => "1٣".into(),
        13 => "429496".into(),                    // timestamp_dms wraps at 2^32 * 100 us
        14 => "429497".into(),
        15 => "99999999999999".into(),
        _ => format!("{}", rng.below(100_000)),
    }
}
fn gen_asc_time(rng: &mut Rng, k: u64) -> String {
    let mut s = String::new();
    let years = [2022i32, 2024, 2024, 1970, 1969, 1960, 9999, 2023, 2038, 2262];
    let y0 = *rng.pick(&years);
    s += &format!("{}\n", asc_date(rng, y0));
    s += "base hex  timestamps absolute\n";
    let neg_run = k % 4 == 0;
    for i in 0..rng.range(2, 9) {
        let secs = gen_secs_str(rng);
        let frac = match rng.below(8) { 0 => "000000".to_string(), 1 => "999999".to_string(), 2 => "٠٠٠٠٠٠".to_string(), _ => format!("{:06}", rng.below(1_000_000)) };
        let sign = if (neg_run && i < 3) || rng.chance(1, 8) { "-" } else { "" };
        let dlen_n = match rng.below(10) { 0 => 0usize, 1 => 64, 2 => 21845, 3 => 65535, _ => rng.range(0, 8) as usize };
        let dlen = match rng.below(12) { 0 => "65536".to_string(), 1 => "99999999999999999999".to_string(), 2 => "٣".to_string(), 3 => format!("0{}", dlen_n), _ => dlen_n.to_string() };
        let real_n = if dlen_n > 64 { *rng.pick(&[8usize, 8, 0]) } else if rng.chance(1, 6) { rng.range(0, 10) as usize } else { dlen_n };
        let mut data = String::new();
        for j in 0..real_n {
            if j > 0 { data.push(if rng.chance(9, 10) { ' ' } else { *rng.pick(&['x', '\t', '€', '\u{a0}']) }); }
            data += &match rng.below(12) { 0 => format!("+{:x}", rng.below(16)), 1 => "g0".to_string(), 2 => "€".to_string(), _ => format!("{:02x}", rng.below(256)) };
        }
        let tail = *rng.pick(&["", " ", " Length = 0 BitCount = 0 ID = 879", "€", " zz"]);
        let gap = *rng.pick(&[" ", " ", "  ", "\u{a0}"]);
        s += &format!("{}{}{}.{} {}  {}             {}   d {}{}{}{}\n", rng.pick(&["", "   ", "\t"]), sign, secs, frac, rng.below(3), rng.pick(&["36f", "1fffffffx", "0", "x"]), rng.pick(&["Rx", "Tx"]), dlen, gap, data, tail);
        if rng.chance(1, 6) { s += &format!("// BusMapping: CAN {} = {}\n", rng.range(1, 3), match rng.below(5) { 0 => "".to_string(), 1 => "N".repeat(65_497), 2 => "N".repeat(65_499), 3 => "é".repeat(40_000), _ => "PT-CAN".to_string() }); }
        if rng.chance(1, 8) { let y = *rng.pick(&years); s += &format!("{}\n", asc_date(rng, y)); }
        if rng.chance(1, 10) { s += "Start of measurement\n"; }
    }
    s
}
fn gen_logcat_time(rng: &mut Rng, k: u64) -> String {
    let mut s = String::new();
    for i in 0..rng.range(2, 9) {
        let secs = gen_secs_str(rng);
        let frac = match rng.below(14) {
            0 => "0".to_string(), 1 => "5".to_string(), 2 => "12".to_string(), 3 => "1234".to_string(), 4 => "12345".to_string(), 5 => "999999".to_string(),
            6 => "9999999".to_string(), 7 => "18446744073709551615".to_string(), 8 => "18446744073709551616".to_string(), 9 => "999999999999999999999999".to_string(),
            10 => "٣٣٣".to_string(), 11 => "٣".to_string(), _ => format!("{:03}", rng.below(1000)),
        };
        let tag = match rng.below(9) { 0 => "".to_string(), 1 => "T".repeat(65_497), 2 => "T".repeat(65_499), 3 => "ü".repeat(33_000), 4 => "same".to_string(), _ => format!("tag{}_{}", k, i) };
        s += &format!("{}{}.{} {} {} I {}: m{}\n", rng.pick(&["", " ", "    "]), secs, frac, rng.below(32768), rng.below(32768), tag, i);
        if rng.chance(1, 10) { s += "--------- beginning of main\n"; }
    }
    s
}
/// the families of direct calls (recipes for the workers)
fn util_cases(tier: &str, seed: u64) -> Vec<(Value, String)> {
    let mut rng = Rng::new(seed ^ 0x7A65);
    let mut v: Vec<(Value, String)> = vec![];
    let lit = |t: &str| json!({"lit": t});
    let num = |p: &str, lo: u64, n: u64, s: &str| json!({"num": [p, lo, n, s]});
    let apid = |specs: Vec<Value>, via: bool| r_util(json!({"k": "apid", "specs": specs, "via_log": via}));
    let via_ok = |specs: &[Value]| specs.iter().all(|sp| spec_tags(sp).iter().all(|t| tag_fits_genlog(t)));
    let scale: u64 = match tier { "quick" => 1, "search" => 2, _ => 10 };
    // fixed families: the edge of every branch
    v.push((apid(vec![lit(""), lit(" "), lit("\t"), lit("\u{a0}"), lit("  "), lit("\u{3000}\u{2003}"), lit(""), lit(" ")], false), "apid:blank".into()));
    v.push((apid(vec![lit("éé"), lit("ää"), lit("öö"), lit("€"), lit("€x"), lit("x€"), lit("𝄞"), lit("NoAs"), lit("NoA1"), lit("éé")], true), "apid:nonascii_short".into()));
    for base in ["Abcd", "NoAs", "a€", "\u{7ff}\u{7ff}", "x"] {
        // the same trimmed tag under different white space: iterations 1, 2, 3, ..
        let mut specs = vec![lit(base)];
        for w in WS_CHARS.iter() { specs.push(lit(&format!("{}{}", w, base))); specs.push(lit(&format!("{}{}", base, w))); }
        v.push((apid(specs, false), "apid:same_trim".into()));
    }
    // long tags: the '_' / capital counters beyond u16 (they were u32 before fix bf09881; 2^32 cannot be run here)
    {
        let rep = |p: &str, u: &str, n: u64, s: &str| json!({"rep": [p, u, n, s]});
        v.push((apid(vec![rep("", "_", 70_000, ""), rep("", "A", 70_000, ""), rep("x", "_a", 40_000, ""), rep("", "é_", 33_000, "Z"), rep(" ", "Ab", 35_000, "\u{3000}"), rep("", "_", 65_536, "a"), rep("", "\u{2003}", 30_000, "")], false), "apid:long_tags".into()));
    }
    // candidate space of one abbreviation filled up to 100 / 1000 (quick) / completely (thorough): iterations 100, 1000, 9999
    for (base, upto) in [("Abcd", 100u64), ("Wxyz", 1000), ("NoAs", 100), ("Qr5t", 1000)] {
        let (b3, b2, b1) = (&base[..3], &base[..2], &base[..1]);
        let mut specs = vec![lit(base), num(b3, 1, 9, ""), num(b2, 10, 90, "")];
        if upto >= 1000 { specs.push(num(b1, 100, 900, "")); }
        specs.push(lit(&format!("{}e", base)));
        specs.push(lit(&format!("{}_x", base)));
        specs.push(lit(&format!(" {}", base)));
        specs.push(lit("éé"));
        v.push((apid(specs, true), format!("apid:prefill_{}", upto)));
    }
    if tier != "quick" && tier != "search" {
        v.push((apid(vec![lit("Abcd"), num("Abc", 1, 9, ""), num("Ab", 10, 90, ""), num("A", 100, 900, ""), num("", 1000, 9000, ""), lit("Abcde"), lit("AbcdX"), lit("Abcde")], false), "apid:exhausted_full".into()));
    }
    // generated sequences in one namespace
    for k in 0..(70 * scale) {
        let mut specs = vec![];
        match k % 5 {
            0 | 1 => { for _ in 0..rng.range(4, 24) { specs.push(lit(&gen_tag(&mut rng))); } }
            2 => { // one core under many shapes of white space + repeats
                let core = gen_core_tag(&mut rng);
                for _ in 0..rng.range(3, 14) { specs.push(lit(&format!("{}{}{}", gen_ws(&mut rng), core, gen_ws(&mut rng)))); }
            }
            3 => { // numbered tags: colliding abbreviations, higher iterations
                let pre = match rng.below(8) { 0 => "".to_string(), 1 => "é".to_string(), 2 => "tag_nr_".to_string(), 3 => "Tag".to_string(), 4 => "Abcd".to_string(), 5 => "a_".to_string(), _ => gen_core_tag(&mut rng) };
                let suf = if rng.chance(1, 4) { gen_core_tag(&mut rng) } else { "".to_string() };
                specs.push(num(&pre, *rng.pick(&[0u64, 1, 95, 990, 9990, 65530]), rng.range(5, 60), &suf));
                for _ in 0..rng.below(4) { specs.push(lit(&gen_tag(&mut rng))); }
            }
            _ => { // walking into tags that are numbers of their own
                for n in [1000u64, 1001, 1, 10, 100] { if rng.chance(2, 3) { specs.push(lit(&n.to_string())); } }
                let core = gen_core_tag(&mut rng);
                specs.push(num(&core, 0, rng.range(2, 30), ""));
            }
        }
        let via = via_ok(&specs) && rng.chance(1, 2);
        v.push((apid(specs, via), format!("apid:gen{}", k % 5)));
    }
    // the converters' time / length arithmetic
    for k in 0..(40 * scale) {
        v.push((r_util(json!({"k": "asc", "text": gen_asc_time(&mut rng, k), "ref": k % 3 == 1})), "asctime".into()));
    }
    for k in 0..(30 * scale) {
        v.push((r_util(json!({"k": "logcat", "text": gen_logcat_time(&mut rng, k)})), "logcattime".into()));
    }
    // hex_to_bytes
    for s in ["", "a", "ab", "ab ", "ab cd", "abXcd", "+f", "-1", "+1 +2", "++", "+", "f+", " 1", "0x", "AB CD EF", "ab\tcd", "€€", "d 2 €€€€€", "ab€cd", "ab cd€", "fF", "gg", "0g", "g0", "ab  cd", "abcd", "a b c", "٣٣", "+٣", "ff ff ff ff ff ff ff ff"] {
        v.push((r_util(json!({"k": "hex", "s": s})), "hex:fixed".into()));
    }
    for _ in 0..(160 * scale) {
        v.push((r_util(json!({"k": "hex", "s": gen_hex_str(&mut rng)})), "hex:gen".into()));
    }
    v
}

// ================================================================= Coq rendering, oracle, main
fn coq_case(r: &Value, bytes: &[u8], o: &Value) -> String {
    let model = r["model"].as_bool().unwrap_or(false);
    let ext = r["ext"].as_str().unwrap_or("dlt");
    if model && ext == "dlt" && bytes.len() <= 700 {
        return format!("(CBytes {})", cnums(bytes));
    }
    if model {
        if let Some(sp) = o["specs"].as_array() {
            if sp.len() <= 40 {
                let items: Vec<String> = sp.iter().map(|s| format!("({}, {}, {}, {}, {})", s[1], s[2], s[3], cbool(s[4].as_bool().unwrap_or(false)), cbool(s[5].as_bool().unwrap_or(false)))).collect();
                return format!("(CLc {})", clist(&items));
            }
        }
    }
    format!("(CSearch {})", bytes.len())
}
fn obs_of(coq: &str, ok: bool, o: &Value) -> O {
    if !ok {
        return O::T(vec![O::L(1)]);
    }
    if coq.starts_with("(CSearch") {
        return O::T(vec![O::L(0)]);
    }
    let n = |v: &Value| O::L(v.as_u64().unwrap_or(0) as u128);
    let rows = |k: &str, f: &dyn Fn(&Value) -> O| O::T(o[k].as_array().map(|a| a.iter().map(|x| f(x)).collect()).unwrap_or_default());
    O::T(vec![
        O::L(0),
        n(&o["nmsgs"]),
        rows("deliv", &|d| O::T(vec![n(&d[0]), n(&d[1])])),
        rows("table", &|t| O::T(vec![n(&t[0]), n(&t[1]), n(&t[2]), n(&t[3]), n(&t[4]), O::b(t[5].as_bool().unwrap_or(false)), n(&t[6])])),
        O::T(vec![O::L(0), rows("listing", &|l| n(l))]),
    ])
}

fn main() {
    let argv: Vec<String> = std::env::args().collect();
    if argv.len() > 1 && argv[1] == "--worker" {
        worker_main(&argv);
        return;
    }
    let a = parse_args();
    let mut sink = Sink::new("C03", &a.out);
    let cases: Vec<(Value, String)> = if let Some(p) = &a.replay {
        let v = read_replay(p);
        if let Some(c) = v["case"].get("ctrl") {
            let p: Vec<u8> = c["payload"].as_array().map(|a| a.iter().map(|x| x.as_u64().unwrap_or(0) as u8).collect()).unwrap_or_default();
            push_ctrl(&mut sink, c["fn"].as_u64().unwrap_or(0), c["status"].as_u64().unwrap_or(0) as u8, c["be"].as_bool().unwrap_or(false), &p, "replay");
            sink.finish();
            return;
        }
        vec![(v["case"].clone(), "replay".to_string())]
    } else {
        build_cases(&a.tier, a.seed, a.count)
    };
    let recipes: Vec<Value> = cases.iter().map(|c| c.0.clone()).collect();
    let limit_s = if a.tier == "quick" { 30 } else { 60 }; // the slowest quick case needs ~7 s on an idle machine; 30 s tolerates a 4x loaded one
    let t0 = std::time::Instant::now();
    let (outcomes, allow) = run_all(&a.out, &recipes, limit_s);
    let wall = t0.elapsed().as_secs_f64();
    let (mut tot_msgs, mut tot_bytes, mut max_ms, mut n_model) = (0u64, 0u64, 0u64, 0u64);
    let mut n_apid_calls = 0u64;
    let mut n_time_msgs = 0u64;
    let mut fx_tot: std::collections::BTreeMap<String, (u64, u64, u64, u64)> = Default::default();
    for (i, ((r, tag), oc)) in cases.iter().zip(outcomes.iter()).enumerate() {
        let bytes = expand(r);
        let ext = r["ext"].as_str().unwrap_or("dlt").to_string();
        let mut tags = vec![format!("ext:{}", ext), tag.clone()];
        let empty = json!({});
        let (verdict, o): (Verdict, &Value) = match oc {
            Outcome::Done(o) => {
                let fails = o["fails"].as_array().cloned().unwrap_or_default();
                let big = o["big"].as_array().cloned().unwrap_or_default();
                if let Some(f) = fails.first() {
                    (Verdict::Fail { clause: "no_panic".into(), detail: format!("stage {}: {} ({} failing stage(s))", f[0].as_str().unwrap_or(""), f[1].as_str().unwrap_or(""), fails.len()) }, o)
                } else if let Some(b) = big.first() {
                    (Verdict::Fail { clause: "allocation_related_to_input".into(), detail: format!("single allocation request of {} bytes for an input of {} bytes", b, bytes.len()) }, o)
                } else {
                    (Verdict::Ok, o)
                }
            }
            Outcome::Died(d) => (Verdict::Fail { clause: "no_abort".into(), detail: format!("worker process died while running this case: {}", d) }, &empty),
            Outcome::Timeout => (Verdict::Fail { clause: "terminates".into(), detail: format!("no result within {} s", limit_s) }, &empty),
        };
        let mut verdict = verdict;
        if let Some(fx) = o["fx"].as_array() {
            for f in fx {
                let e = fx_tot.entry(f[0].as_str().unwrap_or("").to_string()).or_default();
                e.0 += 1;
                e.1 += f[1].as_u64().unwrap_or(0);
                e.2 += f[2].as_u64().unwrap_or(0);
                e.3 += f[3].as_u64().unwrap_or(0);
            }
            // the harness itself: every plugin must have been constructed (fibex / json / rewrite config found)
            let want = |t: &str| if t.starts_with("all") { 7 } else { 1 };
            if let Some(f) = fx.iter().find(|f| f[1].as_u64().unwrap_or(0) != want(f[0].as_str().unwrap_or(""))) {
                if matches!(verdict, Verdict::Ok) {
                    verdict = Verdict::Fail { clause: "harness_plugins_constructed".into(), detail: format!("plugin pass {} ran with {} plugin(s)", f[0], f[1]) };
                }
            }
        }
        let ok = matches!(verdict, Verdict::Ok);
        if let Some(u) = r.get("util") {
            let kind = u["k"].as_str().unwrap_or("");
            let mut tags = vec![format!("util:{}", kind), tag.clone(), format!("model:{}", kind)];
            if kind == "asc" || kind == "logcat" { n_time_msgs += o["util"].as_array().map(|a| a.len() as u64).unwrap_or(0); }
            if u["via_log"].as_bool().unwrap_or(false) { tags.push("apid:via_genlog_converter".into()); }
            if !ok { tags.push("FAIL".into()); }
            n_model += 1;
            max_ms = max_ms.max(o["ms"].as_u64().unwrap_or(0));
            let ntags: usize = u["specs"].as_array().map(|a| a.iter().map(|sp| if sp.get("num").is_none() { 1 } else { sp["num"][2].as_u64().unwrap_or(0) as usize }).sum()).unwrap_or(0);
            n_apid_calls += ntags as u64;
            let js = serde_json::to_string(u).unwrap_or_default();
            let key = format!("util/{:x}", { let mut h = 0xcbf29ce484222325u64; for b in js.as_bytes() { h = (h ^ *b as u64).wrapping_mul(0x100000001b3); } h });
            sink.push(Case { id: i as u64, input_coq: util_coq(u), input_json: r.clone(), obs: util_obs(u, ok, &o["util"]), verdict, classes: vec![], tags, nontrivial: kind != "apid" || ntags >= 2, key });
            continue;
        }
        let coq = coq_case(r, &bytes, o);
        if !coq.starts_with("(CSearch") { n_model += 1; tags.push(if coq.starts_with("(CBytes") { "model:bytes".into() } else { "model:lc".into() }); }
        let nm = o["nmsgs"].as_u64().unwrap_or(0);
        tot_msgs += nm;
        tot_bytes += bytes.len() as u64;
        max_ms = max_ms.max(o["ms"].as_u64().unwrap_or(0));
        tags.push(match nm { 0 => "msgs:0", 1..=9 => "msgs:1-9", 10..=999 => "msgs:10-999", _ => "msgs:1000+" }.to_string());
        tags.push(match o["nlcs"].as_u64().unwrap_or(0) { 0 => "lcs:0", 1 => "lcs:1", 2..=5 => "lcs:2-5", _ => "lcs:6+" }.to_string());
        if let Some(re) = o["reach"].as_array() {
            let g = |i: usize| re[i].as_u64().unwrap_or(0);
            for (name, nn) in [("ecus", g(0)), ("apids", g(1)), ("ctids", g(2))] {
                if nn == 999 { tags.push(format!("reach:anon_{}_eq_999", name)); }
                if nn == 1000 { tags.push(format!("reach:anon_{}_eq_1000", name)); }
                if nn > 1000 { tags.push(format!("reach:anon_{}_gt_1000", name)); }
                if nn >= 1000 { tags.push(format!("reach:anon_{}_ge_1000", name)); }
            }
            if g(0) >= 1000 { tags.push("reach:lc_ecus_ge_1000".into()); }
            if nm >= 100_000 { tags.push("reach:lc_msgs_ge_100000".into()); }
            if g(3) >= 100_000 { tags.push("reach:msg_index_ge_100000".into()); }
            if g(3) >= (1u64 << 31) { tags.push("reach:msg_index_ge_2pow31".into()); }
            if re[4].as_bool().unwrap_or(false) { tags.push("reach:mcnt_wrapped".into()); }
        }
        if let Some(fx) = o["fx"].as_array() {
            if let Some(f) = fx.iter().find(|f| f[0] == "ft") {
                let t = f[3].as_u64().unwrap_or(0);
                if t >= 256 { tags.push("reach:ft_transfers_ge_256".into()); }
                if t >= 1000 { tags.push("reach:ft_transfers_ge_1000".into()); }
            }
        }
        if let Some(g) = r["base"]["g"].as_str() {
            if g.starts_with("hist_someip") { tags.push(format!("reach:{}_open_segments_n{}", g, HIST_NS[(r["base"]["seed"].as_u64().unwrap_or(0) % 9) as usize])); }
        }
        if !ok { tags.push("FAIL".into()); }
        let obs = obs_of(&coq, ok, o);
        let key = format!("{:x}", { let mut h = 0xcbf29ce484222325u64; for b in &bytes { h = (h ^ *b as u64).wrapping_mul(0x100000001b3); } h ^ ((bytes.len() as u64) << 48) ^ ext.len() as u64 ^ (r["ref"].as_bool().unwrap_or(false) as u64) ^ (r["start"].as_u64().unwrap_or(0) << 20) });
        sink.push(Case { id: i as u64, input_coq: coq, input_json: r.clone(), obs, verdict, classes: vec![], tags, nontrivial: nm >= 2, key });
    }
    if a.replay.is_none() {
        ctrl_cases(&mut sink, &a.tier, a.seed);
    }
    sink.extra_stats.insert("worker_wall_s".into(), json!(wall));
    sink.extra_stats.insert("messages_through_chain".into(), json!(tot_msgs));
    sink.extra_stats.insert("input_bytes".into(), json!(tot_bytes));
    sink.extra_stats.insert("slowest_case_ms".into(), json!(max_ms));
    sink.extra_stats.insert("model_cases".into(), json!(n_model));
    sink.extra_stats.insert("get_apid_for_tag_calls_compared".into(), json!(n_apid_calls));
    sink.extra_stats.insert("converter_time_messages_compared".into(), json!(n_time_msgs));
    sink.extra_stats.insert("plugin_passes__runs_plugins_forwarded_decoded".into(), json!(fx_tot.iter().map(|(k, v)| (k.clone(), vec![v.0, v.1, v.2, v.3])).collect::<std::collections::BTreeMap<_, _>>()));
    sink.extra_stats.insert("input_independent_large_requests".into(), json!(allow));
    sink.shard_size = 150;
    sink.finish();
    if a.replay.is_some() {
        for (oc, (r, _)) in outcomes.iter().zip(cases.iter()) {
            eprintln!("c03 replay: input {} bytes, outcome {:?}", expand(r).len(), oc);
        }
    }
}
